// Package minilua interprets the small Lua subset the redis-GunYu election scripts are written
// in.  It executes whatever script text the tool sends (tokenizer + recursive-descent parser +
// tree evaluator); nothing is pattern-matched.  Anything outside the subset yields an error that
// wraps ErrUnsupported, which the lease-store double turns into `-ERR unsupported script` and the
// check into an *inconclusive* verdict.
//
// Subset: `local x [= e]`, `x = e`, `if/elseif/else/end`, `do ... end`, `return [e]`, call
// statements, `redis.call(...)`, `KEYS[n]`, `ARGV[n]`, `#KEYS`, string / number / true / false /
// nil literals, `== ~= < <= > >=`, `not and or`, `+ - * / %`, unary minus, `..`, parentheses,
// `tonumber`, `tostring`, comments.  No loops, functions, tables, multiple assignment / returns.
package minilua

import (
	"errors"
	"fmt"
	"math"
	"strconv"
	"strings"
)

// ErrUnsupported is wrapped by every error caused by script text outside the subset.
var ErrUnsupported = errors.New("unsupported script")

// Status is a Redis status reply (`+OK`) as seen from Lua (a table with an `ok` field).
type Status string

// ErrReply is a Redis error reply.
type ErrReply string

// ScriptError is a runtime error of a supported script (what Redis would report as an error
// reply of EVAL): an error reply raised by redis.call, a comparison of incompatible types, a
// nil argument handed to redis.call, access to an undeclared global.
type ScriptError struct{ Msg string }

func (e *ScriptError) Error() string { return e.Msg }

// Caller executes one Redis command on behalf of the script.  Replies are: nil (nil bulk),
// int64, string (bulk), Status, ErrReply.  Any other reply type makes the script unsupported.
type Caller func(args []string) interface{}

func unsupported(format string, a ...interface{}) error {
	return fmt.Errorf("%w: %s", ErrUnsupported, fmt.Sprintf(format, a...))
}

// ---------------------------------------------------------------------------------------------
// tokenizer

type tokKind int

const (
	tEOF tokKind = iota
	tName
	tNumber
	tString
	tOp // operators, punctuation and keywords (text in tok.s)
)

type token struct {
	kind tokKind
	s    string
	n    float64
	pos  int
}

var keywords = map[string]bool{
	"and": true, "break": true, "do": true, "else": true, "elseif": true, "end": true,
	"false": true, "for": true, "function": true, "if": true, "in": true, "local": true,
	"nil": true, "not": true, "or": true, "repeat": true, "return": true, "then": true,
	"true": true, "until": true, "while": true, "goto": true,
}

func isNameStart(c byte) bool {
	return c == '_' || (c >= 'a' && c <= 'z') || (c >= 'A' && c <= 'Z')
}
func isDigit(c byte) bool { return c >= '0' && c <= '9' }

func tokenize(src string) ([]token, error) {
	var toks []token
	i := 0
	for i < len(src) {
		c := src[i]
		switch {
		case c == ' ' || c == '\t' || c == '\r' || c == '\n':
			i++
		case c == '-' && i+1 < len(src) && src[i+1] == '-':
			// comment
			if strings.HasPrefix(src[i:], "--[[") {
				end := strings.Index(src[i+4:], "]]")
				if end < 0 {
					return nil, unsupported("unterminated long comment at %d", i)
				}
				i += 4 + end + 2
			} else {
				for i < len(src) && src[i] != '\n' {
					i++
				}
			}
		case isNameStart(c):
			j := i
			for j < len(src) && (isNameStart(src[j]) || isDigit(src[j])) {
				j++
			}
			w := src[i:j]
			if keywords[w] {
				toks = append(toks, token{kind: tOp, s: w, pos: i})
			} else {
				toks = append(toks, token{kind: tName, s: w, pos: i})
			}
			i = j
		case isDigit(c) || (c == '.' && i+1 < len(src) && isDigit(src[i+1])):
			j := i
			if c == '0' && j+1 < len(src) && (src[j+1] == 'x' || src[j+1] == 'X') {
				j += 2
				for j < len(src) && strings.IndexByte("0123456789abcdefABCDEF", src[j]) >= 0 {
					j++
				}
				v, err := strconv.ParseUint(src[i+2:j], 16, 64)
				if err != nil {
					return nil, unsupported("bad number %q", src[i:j])
				}
				toks = append(toks, token{kind: tNumber, n: float64(v), pos: i})
				i = j
				break
			}
			for j < len(src) && (isDigit(src[j]) || src[j] == '.') {
				j++
			}
			if j < len(src) && (src[j] == 'e' || src[j] == 'E') {
				j++
				if j < len(src) && (src[j] == '+' || src[j] == '-') {
					j++
				}
				for j < len(src) && isDigit(src[j]) {
					j++
				}
			}
			v, err := strconv.ParseFloat(src[i:j], 64)
			if err != nil {
				return nil, unsupported("bad number %q", src[i:j])
			}
			toks = append(toks, token{kind: tNumber, n: v, pos: i})
			i = j
		case c == '\'' || c == '"':
			var sb strings.Builder
			j := i + 1
			closed := false
			for j < len(src) {
				d := src[j]
				if d == c {
					closed = true
					j++
					break
				}
				if d == '\n' {
					break
				}
				if d == '\\' {
					j++
					if j >= len(src) {
						break
					}
					e := src[j]
					switch e {
					case 'n':
						sb.WriteByte('\n')
					case 't':
						sb.WriteByte('\t')
					case 'r':
						sb.WriteByte('\r')
					case 'a':
						sb.WriteByte(7)
					case 'b':
						sb.WriteByte(8)
					case 'f':
						sb.WriteByte(12)
					case 'v':
						sb.WriteByte(11)
					case '\\', '\'', '"', '\n':
						sb.WriteByte(e)
					default:
						if isDigit(e) {
							k := j
							v := 0
							for k < len(src) && k < j+3 && isDigit(src[k]) {
								v = v*10 + int(src[k]-'0')
								k++
							}
							if v > 255 {
								return nil, unsupported("bad escape at %d", j)
							}
							sb.WriteByte(byte(v))
							j = k - 1
						} else {
							return nil, unsupported("bad escape \\%c at %d", e, j)
						}
					}
					j++
					continue
				}
				sb.WriteByte(d)
				j++
			}
			if !closed {
				return nil, unsupported("unterminated string at %d", i)
			}
			toks = append(toks, token{kind: tString, s: sb.String(), pos: i})
			i = j
		case c == '[' && i+1 < len(src) && src[i+1] == '[':
			end := strings.Index(src[i+2:], "]]")
			if end < 0 {
				return nil, unsupported("unterminated long string at %d", i)
			}
			s := src[i+2 : i+2+end]
			s = strings.TrimPrefix(s, "\r\n")
			s = strings.TrimPrefix(s, "\n")
			toks = append(toks, token{kind: tString, s: s, pos: i})
			i += 2 + end + 2
		default:
			ops := []string{"...", "..", "==", "~=", "<=", ">=", "::",
				"+", "-", "*", "/", "%", "^", "#", "<", ">", "=", "(", ")", "{", "}", "[", "]", ";", ":", ",", "."}
			found := false
			for _, op := range ops {
				if strings.HasPrefix(src[i:], op) {
					toks = append(toks, token{kind: tOp, s: op, pos: i})
					i += len(op)
					found = true
					break
				}
			}
			if !found {
				return nil, unsupported("unexpected character %q at %d", c, i)
			}
		}
	}
	toks = append(toks, token{kind: tEOF, pos: len(src)})
	return toks, nil
}

// ---------------------------------------------------------------------------------------------
// AST

type expr interface{}

type (
	eNil   struct{}
	eBool  struct{ v bool }
	eNum   struct{ v float64 }
	eStr   struct{ v string }
	eName  struct{ name string }
	eIndex struct{ obj, key expr }
	eCall  struct {
		fn   string
		args []expr
	} // fn: "redis.call", "tonumber", "tostring"
	eUnary struct {
		op string
		x  expr
	}
	eBinary struct {
		op   string
		l, r expr
	}
)

type stmt interface{}

type (
	sLocal struct {
		name string
		e    expr
	}
	sAssign struct {
		name string
		e    expr
	}
	sCall struct{ c *eCall }
	sIf   struct {
		conds  []expr
		blocks [][]stmt
		els    []stmt
		hasEls bool
	}
	sDo     struct{ body []stmt }
	sReturn struct {
		e   expr
		has bool
	}
)

// Program is a parsed script.
type Program struct{ body []stmt }

type parser struct {
	toks []token
	p    int
}

func (p *parser) peek() token { return p.toks[p.p] }
func (p *parser) next() token { t := p.toks[p.p]; p.p++; return t }
func (p *parser) isOp(s string) bool {
	t := p.peek()
	return t.kind == tOp && t.s == s
}
func (p *parser) accept(s string) bool {
	if p.isOp(s) {
		p.p++
		return true
	}
	return false
}
func (p *parser) expect(s string) error {
	if !p.accept(s) {
		t := p.peek()
		return unsupported("expected %q at offset %d, found %q", s, t.pos, tokText(t))
	}
	return nil
}

func tokText(t token) string {
	switch t.kind {
	case tEOF:
		return "<eof>"
	case tNumber:
		return fmtNumber(t.n)
	}
	return t.s
}

// Parse parses a script.  Errors wrap ErrUnsupported.
func Parse(src string) (*Program, error) {
	toks, err := tokenize(src)
	if err != nil {
		return nil, err
	}
	p := &parser{toks: toks}
	body, err := p.block()
	if err != nil {
		return nil, err
	}
	if p.peek().kind != tEOF {
		t := p.peek()
		return nil, unsupported("unexpected %q at offset %d", tokText(t), t.pos)
	}
	return &Program{body: body}, nil
}

func (p *parser) blockEnd() bool {
	t := p.peek()
	if t.kind == tEOF {
		return true
	}
	if t.kind == tOp {
		switch t.s {
		case "end", "else", "elseif", "until":
			return true
		}
	}
	return false
}

func (p *parser) block() ([]stmt, error) {
	var out []stmt
	for !p.blockEnd() {
		if p.accept(";") {
			continue
		}
		if p.isOp("return") {
			p.next()
			r := &sReturn{}
			if !p.blockEnd() && !p.isOp(";") {
				e, err := p.expr()
				if err != nil {
					return nil, err
				}
				if p.isOp(",") {
					return nil, unsupported("multiple return values")
				}
				r.e, r.has = e, true
			}
			p.accept(";")
			if !p.blockEnd() {
				return nil, unsupported("statement after return at offset %d", p.peek().pos)
			}
			out = append(out, r)
			return out, nil
		}
		s, err := p.statement()
		if err != nil {
			return nil, err
		}
		out = append(out, s)
	}
	return out, nil
}

func (p *parser) statement() (stmt, error) {
	t := p.peek()
	if t.kind == tOp {
		switch t.s {
		case "local":
			p.next()
			n := p.next()
			if n.kind != tName {
				return nil, unsupported("local without a name at offset %d (local function?)", n.pos)
			}
			if p.isOp(",") {
				return nil, unsupported("multiple local declaration")
			}
			s := &sLocal{name: n.s, e: eNil{}}
			if p.accept("=") {
				e, err := p.expr()
				if err != nil {
					return nil, err
				}
				if p.isOp(",") {
					return nil, unsupported("multiple assignment")
				}
				s.e = e
			}
			return s, nil
		case "if":
			p.next()
			s := &sIf{}
			for {
				c, err := p.expr()
				if err != nil {
					return nil, err
				}
				if err := p.expect("then"); err != nil {
					return nil, err
				}
				b, err := p.block()
				if err != nil {
					return nil, err
				}
				s.conds = append(s.conds, c)
				s.blocks = append(s.blocks, b)
				if p.accept("elseif") {
					continue
				}
				if p.accept("else") {
					b, err := p.block()
					if err != nil {
						return nil, err
					}
					s.els, s.hasEls = b, true
				}
				if err := p.expect("end"); err != nil {
					return nil, err
				}
				return s, nil
			}
		case "do":
			p.next()
			b, err := p.block()
			if err != nil {
				return nil, err
			}
			if err := p.expect("end"); err != nil {
				return nil, err
			}
			return &sDo{body: b}, nil
		default:
			return nil, unsupported("statement %q at offset %d", t.s, t.pos)
		}
	}
	if t.kind != tName {
		return nil, unsupported("unexpected %q at offset %d", tokText(t), t.pos)
	}
	// assignment or call statement
	start := p.p
	e, err := p.suffixed()
	if err != nil {
		return nil, err
	}
	if c, ok := e.(*eCall); ok {
		return &sCall{c: c}, nil
	}
	if n, ok := e.(*eName); ok && p.isOp("=") && strings.Contains(n.name, ".") {
		return nil, unsupported("assignment to field %s", n.name)
	}
	if n, ok := e.(*eName); ok && p.accept("=") {
		v, err := p.expr()
		if err != nil {
			return nil, err
		}
		if p.isOp(",") {
			return nil, unsupported("multiple assignment")
		}
		return &sAssign{name: n.name, e: v}, nil
	}
	return nil, unsupported("statement at offset %d is neither a call nor a simple assignment", p.toks[start].pos)
}

func (p *parser) expr() (expr, error) { return p.binary(0) }

var precedence = []map[string]bool{
	{"or": true},
	{"and": true},
	{"==": true, "~=": true, "<": true, "<=": true, ">": true, ">=": true},
	{"..": true},
	{"+": true, "-": true},
	{"*": true, "/": true, "%": true},
}

func (p *parser) binary(level int) (expr, error) {
	if level == len(precedence) {
		return p.unary()
	}
	l, err := p.binary(level + 1)
	if err != nil {
		return nil, err
	}
	for {
		t := p.peek()
		if t.kind != tOp || !precedence[level][t.s] {
			return l, nil
		}
		p.next()
		var r expr
		if t.s == ".." { // right associative
			r, err = p.binary(level)
		} else {
			r, err = p.binary(level + 1)
		}
		if err != nil {
			return nil, err
		}
		l = &eBinary{op: t.s, l: l, r: r}
	}
}

func (p *parser) unary() (expr, error) {
	t := p.peek()
	if t.kind == tOp && (t.s == "not" || t.s == "-" || t.s == "#") {
		p.next()
		x, err := p.unary()
		if err != nil {
			return nil, err
		}
		return &eUnary{op: t.s, x: x}, nil
	}
	e, err := p.suffixed()
	if err != nil {
		return nil, err
	}
	if p.isOp("^") {
		return nil, unsupported("operator ^")
	}
	return e, nil
}

func (p *parser) suffixed() (expr, error) {
	t := p.next()
	var e expr
	switch {
	case t.kind == tNumber:
		return eNum{t.n}, nil
	case t.kind == tString:
		return eStr{t.s}, nil
	case t.kind == tOp && t.s == "nil":
		return eNil{}, nil
	case t.kind == tOp && t.s == "true":
		return eBool{true}, nil
	case t.kind == tOp && t.s == "false":
		return eBool{false}, nil
	case t.kind == tOp && t.s == "(":
		x, err := p.expr()
		if err != nil {
			return nil, err
		}
		if err := p.expect(")"); err != nil {
			return nil, err
		}
		e = x
	case t.kind == tName:
		e = &eName{name: t.s}
	default:
		return nil, unsupported("unexpected %q at offset %d", tokText(t), t.pos)
	}
	for {
		switch {
		case p.isOp("["):
			p.next()
			k, err := p.expr()
			if err != nil {
				return nil, err
			}
			if err := p.expect("]"); err != nil {
				return nil, err
			}
			e = &eIndex{obj: e, key: k}
		case p.isOp("."):
			p.next()
			f := p.next()
			if f.kind != tName {
				return nil, unsupported("bad field access at offset %d", f.pos)
			}
			n, ok := e.(*eName)
			if !ok {
				return nil, unsupported("field access on a non-name at offset %d", f.pos)
			}
			e = &eName{name: n.name + "." + f.s}
		case p.isOp("("):
			n, ok := e.(*eName)
			if !ok {
				return nil, unsupported("call of a non-name at offset %d", p.peek().pos)
			}
			switch n.name {
			case "redis.call", "tonumber", "tostring":
			default:
				return nil, unsupported("function %s", n.name)
			}
			p.next()
			var args []expr
			if !p.isOp(")") {
				for {
					a, err := p.expr()
					if err != nil {
						return nil, err
					}
					args = append(args, a)
					if !p.accept(",") {
						break
					}
				}
			}
			if err := p.expect(")"); err != nil {
				return nil, err
			}
			e = &eCall{fn: n.name, args: args}
		case p.peek().kind == tString || p.isOp("{") || p.isOp(":"):
			return nil, unsupported("call/table/method syntax at offset %d", p.peek().pos)
		default:
			return e, nil
		}
	}
}

// ---------------------------------------------------------------------------------------------
// evaluator.  Lua values: nil, bool, float64, string, Status, ErrReply, strArray (KEYS / ARGV).

type strArray []string

type scope struct {
	vars   map[string]interface{}
	parent *scope
}

func (s *scope) lookup(name string) (*scope, bool) {
	for c := s; c != nil; c = c.parent {
		if _, ok := c.vars[name]; ok {
			return c, true
		}
	}
	return nil, false
}

type machine struct {
	call  Caller
	steps int
}

type returned struct{ v interface{} }

// Run executes a script.  The result is the Redis reply of EVAL: nil (nil bulk), int64, string
// (bulk), Status or ErrReply.  err is a *ScriptError for runtime errors of the script, or wraps
// ErrUnsupported.
func Run(src string, keys, argv []string, call Caller) (interface{}, error) {
	prog, err := Parse(src)
	if err != nil {
		return nil, err
	}
	return prog.Run(keys, argv, call)
}

// Run executes a parsed script.
func (prog *Program) Run(keys, argv []string, call Caller) (interface{}, error) {
	m := &machine{call: call}
	g := &scope{vars: map[string]interface{}{"KEYS": strArray(keys), "ARGV": strArray(argv)}}
	ret, err := m.execBlock(prog.body, &scope{vars: map[string]interface{}{}, parent: g})
	if err != nil {
		return nil, err
	}
	if ret == nil {
		return nil, nil
	}
	return toReply(ret.v)
}

func toReply(v interface{}) (interface{}, error) {
	switch x := v.(type) {
	case nil:
		return nil, nil
	case bool:
		if x {
			return int64(1), nil
		}
		return nil, nil
	case float64:
		if math.IsNaN(x) || math.IsInf(x, 0) {
			return nil, unsupported("returning a non-finite number")
		}
		return int64(x), nil // Redis truncates Lua numbers to integers
	case string:
		return x, nil
	case Status:
		return x, nil
	case ErrReply:
		return x, nil
	}
	return nil, unsupported("returning a %T", v)
}

func (m *machine) execBlock(body []stmt, sc *scope) (*returned, error) {
	for _, s := range body {
		m.steps++
		if m.steps > 100000 {
			return nil, unsupported("step budget exceeded")
		}
		switch st := s.(type) {
		case *sLocal:
			v, err := m.eval(st.e, sc)
			if err != nil {
				return nil, err
			}
			sc.vars[st.name] = v
		case *sAssign:
			v, err := m.eval(st.e, sc)
			if err != nil {
				return nil, err
			}
			owner, ok := sc.lookup(st.name)
			if !ok || st.name == "KEYS" || st.name == "ARGV" {
				return nil, &ScriptError{"Script attempted to create global variable '" + st.name + "'"}
			}
			owner.vars[st.name] = v
		case *sCall:
			if _, err := m.eval(st.c, sc); err != nil {
				return nil, err
			}
		case *sDo:
			r, err := m.execBlock(st.body, &scope{vars: map[string]interface{}{}, parent: sc})
			if err != nil || r != nil {
				return r, err
			}
		case *sIf:
			done := false
			for i, c := range st.conds {
				v, err := m.eval(c, sc)
				if err != nil {
					return nil, err
				}
				if truthy(v) {
					r, err := m.execBlock(st.blocks[i], &scope{vars: map[string]interface{}{}, parent: sc})
					if err != nil || r != nil {
						return r, err
					}
					done = true
					break
				}
			}
			if !done && st.hasEls {
				r, err := m.execBlock(st.els, &scope{vars: map[string]interface{}{}, parent: sc})
				if err != nil || r != nil {
					return r, err
				}
			}
		case *sReturn:
			if !st.has {
				return &returned{nil}, nil
			}
			v, err := m.eval(st.e, sc)
			if err != nil {
				return nil, err
			}
			return &returned{v}, nil
		default:
			return nil, unsupported("statement %T", s)
		}
	}
	return nil, nil
}

func truthy(v interface{}) bool {
	if v == nil {
		return false
	}
	if b, ok := v.(bool); ok {
		return b
	}
	return true
}

func fmtNumber(f float64) string {
	if f == math.Trunc(f) && math.Abs(f) < 1e15 {
		return strconv.FormatInt(int64(f), 10)
	}
	return strconv.FormatFloat(f, 'g', 14, 64)
}

func typeName(v interface{}) string {
	switch v.(type) {
	case nil:
		return "nil"
	case bool:
		return "boolean"
	case float64:
		return "number"
	case string:
		return "string"
	}
	return "table"
}

func toNumber(v interface{}) (float64, bool) {
	switch x := v.(type) {
	case float64:
		return x, true
	case string:
		s := strings.TrimSpace(x)
		if s == "" {
			return 0, false
		}
		if strings.HasPrefix(s, "0x") || strings.HasPrefix(s, "0X") {
			u, err := strconv.ParseUint(s[2:], 16, 64)
			if err != nil {
				return 0, false
			}
			return float64(u), true
		}
		if strings.ContainsAny(s, "nNiI_pP") { // "nan", "inf", Go-only syntax
			return 0, false
		}
		f, err := strconv.ParseFloat(s, 64)
		if err != nil {
			return 0, false
		}
		return f, true
	}
	return 0, false
}

func luaEqual(a, b interface{}) bool {
	switch x := a.(type) {
	case nil:
		return b == nil
	case bool:
		y, ok := b.(bool)
		return ok && x == y
	case float64:
		y, ok := b.(float64)
		return ok && x == y
	case string:
		y, ok := b.(string)
		return ok && x == y
	}
	return false // tables compare by identity; two replies are never the same table
}

func (m *machine) eval(e expr, sc *scope) (interface{}, error) {
	switch x := e.(type) {
	case eNil:
		return nil, nil
	case eBool:
		return x.v, nil
	case eNum:
		return x.v, nil
	case eStr:
		return x.v, nil
	case *eName:
		owner, ok := sc.lookup(x.name)
		if !ok {
			if strings.Contains(x.name, ".") {
				return nil, unsupported("value %s", x.name)
			}
			return nil, &ScriptError{"Script attempted to access nonexistent global variable '" + x.name + "'"}
		}
		return owner.vars[x.name], nil
	case *eIndex:
		obj, err := m.eval(x.obj, sc)
		if err != nil {
			return nil, err
		}
		key, err := m.eval(x.key, sc)
		if err != nil {
			return nil, err
		}
		arr, ok := obj.(strArray)
		if !ok {
			if obj == nil || typeName(obj) != "table" {
				return nil, &ScriptError{"attempt to index a " + typeName(obj) + " value"}
			}
			return nil, unsupported("indexing a reply table")
		}
		f, ok := key.(float64)
		if !ok {
			return nil, nil // non-numeric keys are absent from an array table
		}
		i := int(f)
		if float64(i) != f || i < 1 || i > len(arr) {
			return nil, nil
		}
		return arr[i-1], nil
	case *eUnary:
		v, err := m.eval(x.x, sc)
		if err != nil {
			return nil, err
		}
		switch x.op {
		case "not":
			return !truthy(v), nil
		case "-":
			f, ok := toNumber(v)
			if !ok {
				return nil, &ScriptError{"attempt to perform arithmetic on a " + typeName(v) + " value"}
			}
			return -f, nil
		case "#":
			switch t := v.(type) {
			case string:
				return float64(len(t)), nil
			case strArray:
				return float64(len(t)), nil
			}
			return nil, &ScriptError{"attempt to get length of a " + typeName(v) + " value"}
		}
		return nil, unsupported("unary %s", x.op)
	case *eBinary:
		if x.op == "and" || x.op == "or" {
			l, err := m.eval(x.l, sc)
			if err != nil {
				return nil, err
			}
			if (x.op == "and") != truthy(l) {
				return l, nil
			}
			return m.eval(x.r, sc)
		}
		l, err := m.eval(x.l, sc)
		if err != nil {
			return nil, err
		}
		r, err := m.eval(x.r, sc)
		if err != nil {
			return nil, err
		}
		switch x.op {
		case "==":
			return luaEqual(l, r), nil
		case "~=":
			return !luaEqual(l, r), nil
		case "<", "<=", ">", ">=":
			var c int
			lf, lok := l.(float64)
			rf, rok := r.(float64)
			ls, lsok := l.(string)
			rs, rsok := r.(string)
			switch {
			case lok && rok:
				switch {
				case lf < rf:
					c = -1
				case lf > rf:
					c = 1
				case lf != rf: // NaN
					return false, nil
				}
			case lsok && rsok:
				c = strings.Compare(ls, rs)
			default:
				return nil, &ScriptError{"attempt to compare " + typeName(l) + " with " + typeName(r)}
			}
			switch x.op {
			case "<":
				return c < 0, nil
			case "<=":
				return c <= 0, nil
			case ">":
				return c > 0, nil
			}
			return c >= 0, nil
		case "..":
			ls, ok1 := concatOperand(l)
			rs, ok2 := concatOperand(r)
			if !ok1 || !ok2 {
				bad := l
				if ok1 {
					bad = r
				}
				return nil, &ScriptError{"attempt to concatenate a " + typeName(bad) + " value"}
			}
			return ls + rs, nil
		case "+", "-", "*", "/", "%":
			lf, ok1 := toNumber(l)
			rf, ok2 := toNumber(r)
			if !ok1 || !ok2 {
				bad := l
				if ok1 {
					bad = r
				}
				return nil, &ScriptError{"attempt to perform arithmetic on a " + typeName(bad) + " value"}
			}
			switch x.op {
			case "+":
				return lf + rf, nil
			case "-":
				return lf - rf, nil
			case "*":
				return lf * rf, nil
			case "/":
				return lf / rf, nil
			}
			return lf - math.Floor(lf/rf)*rf, nil
		}
		return nil, unsupported("operator %s", x.op)
	case *eCall:
		args := make([]interface{}, len(x.args))
		for i, a := range x.args {
			v, err := m.eval(a, sc)
			if err != nil {
				return nil, err
			}
			args[i] = v
		}
		switch x.fn {
		case "tonumber":
			if len(args) != 1 {
				return nil, unsupported("tonumber with %d arguments", len(args))
			}
			f, ok := toNumber(args[0])
			if !ok {
				return nil, nil
			}
			return f, nil
		case "tostring":
			if len(args) != 1 {
				return nil, unsupported("tostring with %d arguments", len(args))
			}
			switch t := args[0].(type) {
			case nil:
				return "nil", nil
			case bool:
				if t {
					return "true", nil
				}
				return "false", nil
			case float64:
				return fmtNumber(t), nil
			case string:
				return t, nil
			}
			return nil, unsupported("tostring of a table")
		case "redis.call":
			if len(args) == 0 {
				return nil, &ScriptError{"Please specify at least one argument for this redis lib call"}
			}
			sargs := make([]string, len(args))
			for i, a := range args {
				switch t := a.(type) {
				case string:
					sargs[i] = t
				case float64:
					sargs[i] = fmtNumber(t)
				default:
					return nil, &ScriptError{"Lua redis lib command arguments must be strings or integers"}
				}
			}
			if m.call == nil {
				return nil, unsupported("redis.call without a command executor")
			}
			switch rep := m.call(sargs).(type) {
			case nil:
				return false, nil // nil bulk -> false
			case int64:
				return float64(rep), nil
			case int:
				return float64(rep), nil
			case string:
				return rep, nil
			case Status:
				return rep, nil
			case ErrReply:
				return nil, &ScriptError{string(rep)} // redis.call raises
			default:
				return nil, unsupported("redis.call reply of type %T", rep)
			}
		}
		return nil, unsupported("function %s", x.fn)
	}
	return nil, unsupported("expression %T", e)
}

func concatOperand(v interface{}) (string, bool) {
	switch t := v.(type) {
	case string:
		return t, true
	case float64:
		return fmtNumber(t), true
	}
	return "", false
}
