package minilua

import (
	"errors"
	"reflect"
	"strings"
	"testing"
)

const campaign = `
local key = KEYS[1]
local value = ARGV[1]
local ttl = ARGV[2]

local currentValue = redis.call('GET', key)

if currentValue == false then
    redis.call('SET', key, value, 'EX', ttl)
    return 1
else
    if currentValue == value then
        redis.call('EXPIRE', key, ttl)
        return 1
    else
        return 0
    end
end
`

type fakeKV struct {
	m     map[string]string
	calls [][]string
}

func (f *fakeKV) call(args []string) interface{} {
	f.calls = append(f.calls, args)
	switch strings.ToUpper(args[0]) {
	case "GET":
		v, ok := f.m[args[1]]
		if !ok {
			return nil
		}
		return v
	case "SET":
		f.m[args[1]] = args[2]
		return Status("OK")
	case "DEL":
		if _, ok := f.m[args[1]]; ok {
			delete(f.m, args[1])
			return int64(1)
		}
		return int64(0)
	case "EXPIRE":
		if _, ok := f.m[args[1]]; ok {
			return int64(1)
		}
		return int64(0)
	}
	return ErrReply("ERR unknown command '" + args[0] + "'")
}

func TestCampaignScript(t *testing.T) {
	kv := &fakeKV{m: map[string]string{}}
	r, err := Run(campaign, []string{"k"}, []string{"a", "3"}, kv.call)
	if err != nil || r != int64(1) {
		t.Fatalf("first campaign: %v %v", r, err)
	}
	want := [][]string{{"GET", "k"}, {"SET", "k", "a", "EX", "3"}}
	if !reflect.DeepEqual(kv.calls, want) {
		t.Fatalf("calls %v", kv.calls)
	}
	kv.calls = nil
	r, err = Run(campaign, []string{"k"}, []string{"a", "3"}, kv.call)
	if err != nil || r != int64(1) || !reflect.DeepEqual(kv.calls, [][]string{{"GET", "k"}, {"EXPIRE", "k", "3"}}) {
		t.Fatalf("renew: %v %v %v", r, err, kv.calls)
	}
	kv.calls = nil
	r, err = Run(campaign, []string{"k"}, []string{"b", "3"}, kv.call)
	if err != nil || r != int64(0) || len(kv.calls) != 1 {
		t.Fatalf("other: %v %v %v", r, err, kv.calls)
	}
}

func TestValues(t *testing.T) {
	cases := []struct {
		src  string
		want interface{}
	}{
		{`return 1`, int64(1)},
		{`return 3.99`, int64(3)},
		{`return -3.99`, int64(-3)},
		{`return "x"`, "x"},
		{`return 'a' .. 1 .. "b"`, "a1b"},
		{`return nil`, nil},
		{`return false`, nil},
		{`return true`, int64(1)},
		{`return`, nil},
		{``, nil},
		{`local a = 2 local b = a * 3 + 1 return b`, int64(7)},
		{`local a = 7 return a % 4`, int64(3)},
		{`return tonumber("12") + 1`, int64(13)},
		{`return tonumber("zz")`, nil},
		{`return tostring(12) == "12"`, int64(1)},
		{`return 1 == "1"`, nil},
		{`return "a" ~= "b"`, int64(1)},
		{`return not nil`, int64(1)},
		{`return nil or "d"`, "d"},
		{`return false and 1`, nil},
		{`return 1 and 2`, int64(2)},
		{`return ARGV[2]`, "v2"},
		{`return ARGV[3]`, nil},
		{`return KEYS[1] .. ARGV[1]`, "k1v1"},
		{`return #ARGV`, int64(2)},
		{`return #"abc"`, int64(3)},
		{`return ARGV[1] * 1000`, nil}, // replaced below
		{`local x = 1 if x == 2 then return "a" elseif x == 1 then return "b" else return "c" end`, "b"},
		{`local x = 1 do local x = 2 end return x`, int64(1)},
		{`local x = 1 do x = 2 end return x`, int64(2)},
		{`local x -- comment
		  --[[ long
		  comment ]] return x`, nil},
		{`return 2 < 3`, int64(1)},
		{`return "a" < "b"`, int64(1)},
		{`return (1 + 2) * 3`, int64(9)},
		{`return redis.call('SET', 'a', 'b')`, Status("OK")},
		{`return redis.call("GET", "nokey")`, nil},
		{`return redis.call("GET", "nokey") == false`, int64(1)},
		{`return "a\n\65"`, "a\nA"},
		{`return [[x]]`, "x"},
		{`return 0x10`, int64(16)},
	}
	for _, c := range cases {
		kv := &fakeKV{m: map[string]string{}}
		argv := []string{"v1", "v2"}
		if c.src == `return ARGV[1] * 1000` {
			argv = []string{"3", "v2"}
			c.want = int64(3000)
		}
		got, err := Run(c.src, []string{"k1"}, argv, kv.call)
		if err != nil {
			t.Errorf("%q: error %v", c.src, err)
			continue
		}
		if !reflect.DeepEqual(got, c.want) {
			t.Errorf("%q: got %#v want %#v", c.src, got, c.want)
		}
	}
}

func TestNumberArgsAreFormattedAsIntegers(t *testing.T) {
	kv := &fakeKV{m: map[string]string{}}
	_, err := Run(`redis.call('SET', KEYS[1], ARGV[1], 'PX', ARGV[2] * 1000)`, []string{"k"}, []string{"a", "3"}, kv.call)
	if err != nil {
		t.Fatal(err)
	}
	if !reflect.DeepEqual(kv.calls[0], []string{"SET", "k", "a", "PX", "3000"}) {
		t.Fatalf("%v", kv.calls)
	}
}

func TestUnsupported(t *testing.T) {
	for _, src := range []string{
		`for i=1,2 do end`,
		`while true do end`,
		`local function f() end`,
		`local t = {}`,
		`return redis.pcall('GET', 'a')`,
		`return string.len("a")`,
		`local a, b = 1, 2`,
		`return 1, 2`,
		`return 2 ^ 3`,
		`return "unterminated`,
		`if x then`,
		`return redis.sha1hex('a')`,
		`x.y = 1`,
		`return @`,
		`return 1 return 2`,
	} {
		_, err := Run(src, nil, nil, (&fakeKV{m: map[string]string{}}).call)
		if !errors.Is(err, ErrUnsupported) {
			t.Errorf("%q: want ErrUnsupported, got %v", src, err)
		}
	}
}

func TestRuntimeErrors(t *testing.T) {
	for _, src := range []string{
		`return redis.call('NOSUCH')`,
		`return 1 < "a"`,
		`return nosuchglobal`,
		`x = 1`,
		`return redis.call('GET', nil)`,
		`return nil .. "a"`,
		`return {} `,
	} {
		_, err := Run(src, nil, nil, (&fakeKV{m: map[string]string{}}).call)
		var se *ScriptError
		if src == `return {} ` {
			if !errors.Is(err, ErrUnsupported) {
				t.Errorf("%q: %v", src, err)
			}
			continue
		}
		if !errors.As(err, &se) {
			t.Errorf("%q: want ScriptError, got %v", src, err)
		}
	}
}
