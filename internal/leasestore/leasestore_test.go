package leasestore

import (
	"bufio"
	"fmt"
	"io"
	"net"
	"reflect"
	"strconv"
	"strings"
	"testing"
	"time"
)

type cli struct {
	c  net.Conn
	br *bufio.Reader
}

func dial(t *testing.T, s *Store) *cli {
	t.Helper()
	c, err := net.DialTimeout("tcp", s.Addr(), 5*time.Second)
	if err != nil {
		t.Fatal(err)
	}
	c.SetDeadline(time.Now().Add(20 * time.Second))
	return &cli{c: c, br: bufio.NewReader(c)}
}

func (c *cli) send(args ...string) error {
	var sb strings.Builder
	fmt.Fprintf(&sb, "*%d\r\n", len(args))
	for _, a := range args {
		fmt.Fprintf(&sb, "$%d\r\n%s\r\n", len(a), a)
	}
	_, err := c.c.Write([]byte(sb.String()))
	return err
}

func (c *cli) read() (interface{}, error) {
	l, err := c.br.ReadString('\n')
	if err != nil {
		return nil, err
	}
	l = strings.TrimSuffix(l, "\r\n")
	switch l[0] {
	case '+':
		return "+" + l[1:], nil
	case '-':
		return "-" + l[1:], nil
	case ':':
		n, _ := strconv.ParseInt(l[1:], 10, 64)
		return n, nil
	case '$':
		n, _ := strconv.Atoi(l[1:])
		if n < 0 {
			return nil, nil
		}
		b := make([]byte, n+2)
		if _, err := io.ReadFull(c.br, b); err != nil {
			return nil, err
		}
		return string(b[:n]), nil
	case '*':
		n, _ := strconv.Atoi(l[1:])
		out := make([]interface{}, n)
		for i := range out {
			out[i], err = c.read()
			if err != nil {
				return nil, err
			}
		}
		return out, nil
	}
	return nil, fmt.Errorf("bad reply %q", l)
}

func (c *cli) do(t *testing.T, args ...string) interface{} {
	t.Helper()
	if err := c.send(args...); err != nil {
		t.Fatalf("%v: %v", args, err)
	}
	r, err := c.read()
	if err != nil {
		t.Fatalf("%v: %v", args, err)
	}
	return r
}

func want(t *testing.T, got, exp interface{}) {
	t.Helper()
	if !reflect.DeepEqual(got, exp) {
		t.Fatalf("got %#v want %#v", got, exp)
	}
}

const campaign = `
local key = KEYS[1]
local value = ARGV[1]
local ttl = ARGV[2]
local currentValue = redis.call('GET', key)
if currentValue == false then
    redis.call('SET', key, value, 'EX', ttl)
    return 1
else
    if currentValue == value then
        redis.call('EXPIRE', key, ttl)
        return 1
    else
        return 0
    end
end
`

func TestBasicsAndVirtualExpiry(t *testing.T) {
	s, err := New(1000)
	if err != nil {
		t.Fatal(err)
	}
	defer s.Close()
	c := dial(t, s)
	want(t, c.do(t, "ping"), "+PONG")
	want(t, c.do(t, "AUTH", "u1", "pw"), "+OK")
	want(t, c.do(t, "select", "0"), "+OK")
	want(t, c.do(t, "GET", "k"), nil)
	want(t, c.do(t, "SET", "k", "v", "EX", "3"), "+OK")
	want(t, c.do(t, "TTL", "k"), int64(3))
	want(t, c.do(t, "PTTL", "k"), int64(3000))
	want(t, s.Peek("k"), KeyState{Exists: true, Value: "v", ExpiresAt: 4000})
	s.Advance(2999)
	want(t, c.do(t, "GET", "k"), "v")
	s.Advance(1) // now == expireAt: Redis still serves the key (expired when now > when)
	want(t, c.do(t, "GET", "k"), "v")
	want(t, c.do(t, "PTTL", "k"), int64(0))
	s.Advance(1)
	want(t, c.do(t, "GET", "k"), nil)
	want(t, c.do(t, "TTL", "k"), int64(-2))
	want(t, s.Peek("k"), KeyState{})

	want(t, c.do(t, "SET", "k", "a", "NX"), "+OK")
	want(t, c.do(t, "SET", "k", "b", "NX"), nil)
	want(t, c.do(t, "SET", "k", "b", "XX", "PX", "10"), "+OK")
	want(t, c.do(t, "PTTL", "k"), int64(10))
	want(t, c.do(t, "SET", "k2", "b", "XX"), nil)
	want(t, c.do(t, "SET", "k", "b", "EX", "0"), "-ERR invalid expire time in 'set' command")
	want(t, c.do(t, "SET", "k", "b", "EX", "x"), "-ERR value is not an integer or out of range")
	want(t, c.do(t, "SET", "k", "b", "BOGUS"), "-ERR syntax error")
	want(t, c.do(t, "PERSIST", "k"), int64(1))
	want(t, c.do(t, "TTL", "k"), int64(-1))
	want(t, c.do(t, "EXPIRE", "k", "5"), int64(1))
	want(t, c.do(t, "PEXPIRE", "k", "1500"), int64(1))
	want(t, c.do(t, "PTTL", "k"), int64(1500))
	want(t, c.do(t, "EXPIRE", "nokey", "5"), int64(0))
	want(t, c.do(t, "EXISTS", "k", "nokey"), int64(1))
	want(t, c.do(t, "SET", "reg/a", "a"), "+OK")
	want(t, c.do(t, "SET", "reg/b", "b", "EX", "1"), "+OK")
	want(t, c.do(t, "KEYS", "reg/*"), []interface{}{"reg/a", "reg/b"})
	s.Advance(1001)
	want(t, c.do(t, "KEYS", "reg/*"), []interface{}{"reg/a"})
	want(t, c.do(t, "DEL", "reg/a", "reg/b"), int64(1))
	want(t, c.do(t, "EXPIRE", "k", "-1"), int64(1))
	want(t, c.do(t, "GET", "k"), nil)
	r := c.do(t, "NOSUCH", "x")
	if s, ok := r.(string); !ok || !strings.HasPrefix(s, "-ERR unknown command") {
		t.Fatalf("%v", r)
	}
	_, unk := s.Unsupported()
	want(t, unk, []string{"NOSUCH"})
}

func TestEvalAndLog(t *testing.T) {
	s, _ := New(0)
	defer s.Close()
	a, b := dial(t, s), dial(t, s)
	want(t, a.do(t, "AUTH", "A", "x"), "+OK")
	want(t, b.do(t, "AUTH", "B", "x"), "+OK")
	mark := s.LogLen()
	want(t, a.do(t, "eval", campaign, "1", "lease", "idA", "3"), int64(1))
	want(t, b.do(t, "eval", campaign, "1", "lease", "idB", "3"), int64(0))
	s.Advance(1000)
	want(t, a.do(t, "eval", campaign, "1", "lease", "idA", "3"), int64(1))
	want(t, s.Peek("lease"), KeyState{Exists: true, Value: "idA", ExpiresAt: 4000})
	s.Advance(3001)
	want(t, b.do(t, "eval", campaign, "1", "lease", "idB", "3"), int64(1))
	log := s.LogFrom(mark)
	if len(log) != 4 {
		t.Fatalf("log %d", len(log))
	}
	e := log[0]
	if e.Tag != "A" || e.Cmd != "EVAL" || e.Key != "lease" || e.Before.Exists || e.After != (KeyState{true, "idA", 3000}) ||
		len(e.Calls) != 2 || e.Calls[1].Args[0] != "SET" || !e.Executed || !e.Delivered || e.Reply != ":1" || e.Call != 1 {
		t.Fatalf("%+v", e)
	}
	e = log[1]
	if e.Tag != "B" || e.Before != e.After || e.Reply != ":0" || len(e.Calls) != 1 {
		t.Fatalf("%+v", e)
	}
	e = log[3]
	if e.Before.Exists || e.After != (KeyState{true, "idB", 7001}) {
		t.Fatalf("%+v", e)
	}
	sc := s.Scripts()
	if len(sc) != 1 || sc[0].Runs != 4 || sc[0].FirstLine != "local key = KEYS[1]" || sc[0].SHA != e.ScriptSHA {
		t.Fatalf("%+v", sc)
	}
	// EVALSHA / SCRIPT LOAD
	sha := a.do(t, "SCRIPT", "LOAD", "return ARGV[1]").(string)
	want(t, a.do(t, "EVALSHA", sha, "0", "hello"), "hello")
	r := a.do(t, "EVALSHA", strings.Repeat("0", 40), "0").(string)
	if !strings.HasPrefix(r, "-NOSCRIPT") {
		t.Fatal(r)
	}
	// outside the subset
	r = a.do(t, "EVAL", "for i=1,2 do end", "0").(string)
	if !strings.HasPrefix(r, "-ERR unsupported script") {
		t.Fatal(r)
	}
	us, _ := s.Unsupported()
	if len(us) != 1 {
		t.Fatalf("%v", us)
	}
	// script runtime error is an error reply, not "unsupported"
	r = a.do(t, "EVAL", "return redis.call('SET', KEYS[1], 'v', 'EX', 0)", "1", "z").(string)
	if !strings.HasPrefix(r, "-ERR invalid expire") {
		t.Fatal(r)
	}
}

func TestFaults(t *testing.T) {
	s, _ := New(0)
	defer s.Close()
	a := dial(t, s)
	want(t, a.do(t, "AUTH", "A", "x"), "+OK")
	want(t, a.do(t, "PING"), "+PONG")

	// drop the reply after executing
	s.FaultNext("A", FaultDropReply)
	if err := a.send("eval", campaign, "1", "lease", "idA", "3"); err != nil {
		t.Fatal(err)
	}
	if _, err := a.read(); err == nil {
		t.Fatal("expected the connection to be closed")
	}
	want(t, s.Peek("lease"), KeyState{true, "idA", 3000})
	l := s.LogFrom(s.LogLen() - 1)[0]
	if !l.Executed || l.Delivered || l.Fault != "drop-reply" || l.After.Value != "idA" {
		t.Fatalf("%+v", l)
	}

	// reset before executing
	b := dial(t, s)
	want(t, b.do(t, "AUTH", "B", "x"), "+OK")
	s.FaultNext("B", FaultResetBefore)
	b.send("DEL", "lease")
	if _, err := b.read(); err == nil {
		t.Fatal("expected reset")
	}
	want(t, s.Peek("lease"), KeyState{true, "idA", 3000})
	l = s.LogFrom(s.LogLen() - 1)[0]
	if l.Executed || l.Fault != "reset-before-exec" || l.Cmd != "DEL" {
		t.Fatalf("%+v", l)
	}

	// reset mid-request
	c := dial(t, s)
	want(t, c.do(t, "AUTH", "C", "x"), "+OK")
	s.FaultNext("C", FaultResetMid)
	c.send("DEL", "lease")
	if _, err := c.read(); err == nil {
		t.Fatal("expected reset")
	}
	want(t, s.Peek("lease"), KeyState{true, "idA", 3000})
	l = s.LogFrom(s.LogLen() - 1)[0]
	if l.Executed || l.Fault != "reset-mid-request" || l.Cmd != "(partial)" {
		t.Fatalf("%+v", l)
	}

	// n-th call variants (handshake commands are not counted)
	d := dial(t, s)
	n := s.Calls()
	s.DropReplyOfCall(n + 2)
	want(t, d.do(t, "PING"), "+PONG")
	want(t, d.do(t, "GET", "lease"), "idA")
	d.send("DEL", "lease")
	if _, err := d.read(); err == nil {
		t.Fatal("expected drop")
	}
	want(t, s.Peek("lease"), KeyState{})
	e := dial(t, s)
	s.ResetAtCall(s.Calls() + 1)
	e.send("SET", "lease", "x")
	if _, err := e.read(); err == nil {
		t.Fatal("expected reset")
	}
	want(t, s.Peek("lease"), KeyState{})
}

func TestGlob(t *testing.T) {
	for _, c := range []struct {
		p, s string
		m    bool
	}{{"*", "", true}, {"a*", "abc", true}, {"a*c", "abbc", true}, {"a*c", "abbd", false}, {"a?c", "abc", true},
		{"a[bx]c", "axc", true}, {"a[^b]c", "abc", false}, {"a[a-c]c", "abc", true}, {`a\*`, "a*", true}, {`a\*`, "ab", false}, {"/reg/*", "/reg/x1", true}} {
		if globMatch(c.p, c.s) != c.m {
			t.Errorf("%q %q", c.p, c.s)
		}
	}
}
