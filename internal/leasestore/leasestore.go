// Package leasestore is a RESP2 TCP server double playing the Redis instance that redis-GunYu's
// Redis-based election / registry client (pkg/cluster/redis_*.go over pkg/redis/client/conn)
// talks to.  It implements exactly the commands that client issues (plus a few harmless
// neighbours), executes Lua scripts with internal/minilua, and differs from a real server in the
// ways a monitor needs:
//
//   - a *virtual clock* in milliseconds that only the harness advances; key expiry is evaluated
//     against it with Redis' rule (a key is gone when now > expireAt);
//   - one global mutex around every command / script (Redis is single threaded);
//   - a log of every request with the touched key's (value, expiresAt) before and after it and,
//     for scripts, every redis.call made;
//   - fault injection: execute a request and drop its reply (connection closed), reset the
//     connection before executing a fully received request, reset it after reading only the first
//     bytes of a request.
package leasestore

import (
	"bufio"
	"crypto/sha1"
	"encoding/hex"
	"errors"
	"fmt"
	"io"
	"net"
	"sort"
	"strconv"
	"strings"
	"sync"
	"time"

	"verif/internal/minilua"
)

// KeyState is the observable state of one string key at some virtual time (already normalised:
// an expired key is reported as not existing).
type KeyState struct {
	Exists    bool   `json:"exists"`
	Value     string `json:"value,omitempty"`
	ExpiresAt int64  `json:"expires_at,omitempty"` // virtual ms; 0 = no expiry
}

func (k KeyState) String() string {
	if !k.Exists {
		return "(none)"
	}
	if k.ExpiresAt == 0 {
		return fmt.Sprintf("(%q,persistent)", k.Value)
	}
	return fmt.Sprintf("(%q,exp=%d)", k.Value, k.ExpiresAt)
}

// SubCall is one redis.call made by a script.
type SubCall struct {
	Args  []string `json:"args"`
	Reply string   `json:"reply"`
}

// Fault kinds.
type Fault int

const (
	FaultNone        Fault = iota
	FaultDropReply         // execute the request, then close the connection without replying
	FaultResetBefore       // receive the whole request, do not execute it, reset the connection
	FaultResetMid          // read only the first bytes of the request, reset the connection
	FaultSlowReply         // execute the request, deliver the reply SlowReplyDelay (wall clock) later
)

// SlowReplyDelay is how long a FaultSlowReply holds the reply back.  Wall clock: it only shapes
// the schedule (a caller with a shorter deadline gives up first), no verdict depends on it.
var SlowReplyDelay = 80 * time.Millisecond

func (f Fault) String() string {
	switch f {
	case FaultDropReply:
		return "drop-reply"
	case FaultResetBefore:
		return "reset-before-exec"
	case FaultResetMid:
		return "reset-mid-request"
	case FaultSlowReply:
		return "slow-reply"
	}
	return ""
}

// Entry is one logged request.
type Entry struct {
	Seq       int64     `json:"seq"`      // position in the log (1-based)
	Call      int64     `json:"call"`     // index among data requests (faults are keyed on it); 0 for handshake
	Conn      int64     `json:"conn"`     // connection id (accept order)
	Tag       string    `json:"tag"`      // connection tag = AUTH user name ("" if none)
	ConnSeq   int       `json:"conn_seq"` // index of the request on its connection
	Now       int64     `json:"now"`      // virtual time of execution
	Cmd       string    `json:"cmd"`      // upper case
	Args      []string  `json:"args"`     // arguments (script text replaced by "sha:<hex>")
	ScriptSHA string    `json:"script_sha,omitempty"`
	Key       string    `json:"key,omitempty"` // first key the request names
	Before    KeyState  `json:"before"`
	After     KeyState  `json:"after"`
	Calls     []SubCall `json:"calls,omitempty"`
	Reply     string    `json:"reply"`
	Executed  bool      `json:"executed"`
	Delivered bool      `json:"delivered"` // reply handed to the socket
	Fault     string    `json:"fault,omitempty"`
}

// ScriptInfo describes a script text the store was asked to run or load.
type ScriptInfo struct {
	SHA       string `json:"sha"`
	FirstLine string `json:"first_line"`
	Text      string `json:"-"`
	Runs      int    `json:"runs"`
}

type item struct {
	val string
	exp int64 // 0 = none
}

// Store is the server double.
type Store struct {
	// ClusterMode: the store presents itself as a Redis Cluster of one primary that serves every slot
	// (CLUSTER SLOTS, COMMAND GETKEYS for EVAL/EVALSHA, INFO cluster_enabled:1): a cluster client takes
	// one pooled connection per command instead of one connection for everything. Set before use.
	ClusterMode bool

	ln net.Listener

	mu        sync.Mutex
	now       int64
	dbs       map[int]map[string]*item
	log       []Entry
	calls     int64
	scripts   map[string]*ScriptInfo
	nextConn  int64
	conns     map[int64]net.Conn
	dropAt    map[int64]bool
	resetAt   map[int64]bool
	tagFaults map[string][]Fault
	stalls    map[string]*Stall
	slowReply time.Duration // per-store override of SlowReplyDelay (0 = default)
	closed    bool
	unsupp    []string // texts of scripts outside the minilua subset
	unknown   []string // unknown commands seen

	wg sync.WaitGroup
}

// New starts a store on 127.0.0.1 (ephemeral port) with the virtual clock at startMs.
func New(startMs int64) (*Store, error) {
	ln, err := net.Listen("tcp", "127.0.0.1:0")
	if err != nil {
		return nil, err
	}
	s := &Store{ln: ln, now: startMs, dbs: map[int]map[string]*item{}, scripts: map[string]*ScriptInfo{},
		conns: map[int64]net.Conn{}, dropAt: map[int64]bool{}, resetAt: map[int64]bool{}, tagFaults: map[string][]Fault{}}
	s.wg.Add(1)
	go s.acceptLoop()
	return s, nil
}

// Addr is the listening address.
func (s *Store) Addr() string { return s.ln.Addr().String() }

// Close stops the server and closes every connection.
func (s *Store) Close() {
	s.mu.Lock()
	if s.closed {
		s.mu.Unlock()
		return
	}
	s.closed = true
	for _, c := range s.conns {
		c.Close()
	}
	for tag, st := range s.stalls {
		if !st.released {
			st.released = true
			close(st.release)
		}
		delete(s.stalls, tag)
	}
	s.mu.Unlock()
	s.ln.Close()
	s.wg.Wait()
}

// ---- clock ----------------------------------------------------------------------------------

// Now returns the virtual time in ms.
func (s *Store) Now() int64 { s.mu.Lock(); defer s.mu.Unlock(); return s.now }

// Advance moves the virtual clock forward by d ms (d >= 0) and returns the new time.
func (s *Store) Advance(d int64) int64 {
	s.mu.Lock()
	defer s.mu.Unlock()
	if d > 0 {
		s.now += d
	}
	return s.now
}

// ---- observation ----------------------------------------------------------------------------

// Peek returns the state of key in db 0 at the current virtual time without touching it.
func (s *Store) Peek(key string) KeyState { return s.PeekDB(0, key) }

// PeekDB is Peek for an arbitrary db.
func (s *Store) PeekDB(db int, key string) KeyState {
	s.mu.Lock()
	defer s.mu.Unlock()
	return s.state(db, key)
}

// LogLen is the number of logged requests.
func (s *Store) LogLen() int { s.mu.Lock(); defer s.mu.Unlock(); return len(s.log) }

// LogFrom returns a copy of the log entries with index >= from.
func (s *Store) LogFrom(from int) []Entry {
	s.mu.Lock()
	defer s.mu.Unlock()
	if from < 0 {
		from = 0
	}
	if from > len(s.log) {
		from = len(s.log)
	}
	out := make([]Entry, len(s.log)-from)
	copy(out, s.log[from:])
	return out
}

// Calls is the number of data requests received so far.
func (s *Store) Calls() int64 { s.mu.Lock(); defer s.mu.Unlock(); return s.calls }

// Scripts lists the distinct script texts seen, sorted by hash.
func (s *Store) Scripts() []ScriptInfo {
	s.mu.Lock()
	defer s.mu.Unlock()
	out := make([]ScriptInfo, 0, len(s.scripts))
	for _, si := range s.scripts {
		out = append(out, *si)
	}
	sort.Slice(out, func(i, j int) bool { return out[i].SHA < out[j].SHA })
	return out
}

// Unsupported returns the first lines of scripts that fell outside the interpreter's subset and
// the names of unknown commands; a verdict that depends on either must be inconclusive.
func (s *Store) Unsupported() (scripts []string, commands []string) {
	s.mu.Lock()
	defer s.mu.Unlock()
	return append([]string(nil), s.unsupp...), append([]string(nil), s.unknown...)
}

// ---- fault injection ------------------------------------------------------------------------

// DropReplyOfCall makes the store execute the n-th data request (1-based, counted over all
// connections; AUTH/PING/SELECT do not count) and then close the connection without replying.
func (s *Store) DropReplyOfCall(n int64) { s.mu.Lock(); s.dropAt[n] = true; s.mu.Unlock() }

// ResetAtCall makes the store reset the connection carrying the n-th data request after receiving
// it and before executing it.
func (s *Store) ResetAtCall(n int64) { s.mu.Lock(); s.resetAt[n] = true; s.mu.Unlock() }

// FaultNext arms a one-shot fault for the next data request arriving on a connection tagged tag
// (tag = the user name given to AUTH).  Several armed faults are consumed in order.
func (s *Store) FaultNext(tag string, f Fault) {
	s.mu.Lock()
	s.tagFaults[tag] = append(s.tagFaults[tag], f)
	s.mu.Unlock()
}

// Stall holds one data request of a tagged connection back, received but not executed, until it
// is released: the network delivered the request late. Virtual time and other connections go on.
type Stall struct {
	s        *Store
	tag      string
	nth      int
	seen     int
	parked   chan struct{}
	release  chan struct{}
	released bool
}

// StallNth arms a stall on the nth (1-based) data request that arrives from now on over a
// connection with this tag. At most one stall per tag.
func (s *Store) StallNth(tag string, nth int) *Stall {
	st := &Stall{s: s, tag: tag, nth: nth, parked: make(chan struct{}), release: make(chan struct{})}
	s.mu.Lock()
	if s.stalls == nil {
		s.stalls = map[string]*Stall{}
	}
	s.stalls[tag] = st
	s.mu.Unlock()
	return st
}

// Parked is closed once the request is being held.
func (st *Stall) Parked() <-chan struct{} { return st.parked }

// Release lets the held request execute (or disarms a stall that never caught a request).
func (st *Stall) Release() {
	st.s.mu.Lock()
	if !st.released {
		st.released = true
		close(st.release)
	}
	if st.s.stalls[st.tag] == st {
		delete(st.s.stalls, st.tag)
	}
	st.s.mu.Unlock()
}

// park blocks the connection's goroutine if an armed stall of its tag selects this request.
func (s *Store) park(tag string) {
	s.mu.Lock()
	st := s.stalls[tag]
	if st == nil || st.released {
		s.mu.Unlock()
		return
	}
	st.seen++
	if st.seen != st.nth {
		s.mu.Unlock()
		return
	}
	close(st.parked)
	s.mu.Unlock()
	<-st.release
}

// SetSlowReply overrides SlowReplyDelay for this store.
func (s *Store) SetSlowReply(d time.Duration) { s.mu.Lock(); s.slowReply = d; s.mu.Unlock() }

// SlowReply is the delay a FaultSlowReply applies on this store.
func (s *Store) SlowReply() time.Duration {
	s.mu.Lock()
	defer s.mu.Unlock()
	if s.slowReply > 0 {
		return s.slowReply
	}
	return SlowReplyDelay
}

// ClearFaults disarms every pending per-tag fault (those never consumed because the client did
// not reach the store).
func (s *Store) ClearFaults() { s.mu.Lock(); s.tagFaults = map[string][]Fault{}; s.mu.Unlock() }

// ---- keyspace (callers hold mu) -------------------------------------------------------------

func (s *Store) db(n int) map[string]*item {
	d := s.dbs[n]
	if d == nil {
		d = map[string]*item{}
		s.dbs[n] = d
	}
	return d
}

// live returns the item if it exists and is not expired at the current time, deleting it lazily
// otherwise.  Redis: a key is expired when now > when.
func (s *Store) live(db int, key string) *item {
	d := s.db(db)
	it := d[key]
	if it == nil {
		return nil
	}
	if it.exp != 0 && s.now > it.exp {
		delete(d, key)
		return nil
	}
	return it
}

func (s *Store) state(db int, key string) KeyState {
	it := s.dbs[db][key]
	if it == nil || (it.exp != 0 && s.now > it.exp) {
		return KeyState{}
	}
	return KeyState{Exists: true, Value: it.val, ExpiresAt: it.exp}
}

// ---- server ---------------------------------------------------------------------------------

func (s *Store) acceptLoop() {
	defer s.wg.Done()
	for {
		c, err := s.ln.Accept()
		if err != nil {
			return
		}
		s.mu.Lock()
		if s.closed {
			s.mu.Unlock()
			c.Close()
			return
		}
		s.nextConn++
		id := s.nextConn
		s.conns[id] = c
		s.mu.Unlock()
		s.wg.Add(1)
		go s.serve(id, c)
	}
}

type connState struct {
	id   int64
	tag  string
	db   int
	seq  int
	conn net.Conn
}

func reset(c net.Conn) {
	if tc, ok := c.(*net.TCPConn); ok {
		tc.SetLinger(0)
	}
	c.Close()
}

func (s *Store) serve(id int64, c net.Conn) {
	defer s.wg.Done()
	defer func() {
		s.mu.Lock()
		delete(s.conns, id)
		s.mu.Unlock()
		c.Close()
	}()
	cs := &connState{id: id, conn: c}
	br := bufio.NewReaderSize(c, 64*1024)
	bw := bufio.NewWriter(c)
	for {
		// wait for the first byte of the next request
		if _, err := br.Peek(1); err != nil {
			return
		}
		// a pending "reset mid-request" fault fires before the request is parsed
		s.mu.Lock()
		if fs := s.tagFaults[cs.tag]; len(fs) > 0 && fs[0] == FaultResetMid {
			s.tagFaults[cs.tag] = fs[1:]
			s.calls++
			cs.seq++
			n := br.Buffered()
			if n > 12 {
				n = 12
			}
			head, _ := br.Peek(n)
			s.log = append(s.log, Entry{Seq: int64(len(s.log) + 1), Call: s.calls, Conn: id, Tag: cs.tag, ConnSeq: cs.seq,
				Now: s.now, Cmd: "(partial)", Args: []string{strconv.Quote(string(head))}, Fault: FaultResetMid.String()})
			s.mu.Unlock()
			reset(c)
			return
		}
		s.mu.Unlock()

		args, err := readRequest(br)
		if err != nil {
			if !errors.Is(err, io.EOF) {
				bw.WriteString("-ERR Protocol error: " + err.Error() + "\r\n")
				bw.Flush()
			}
			return
		}
		if len(args) == 0 {
			continue
		}
		if !isHandshake(strings.ToUpper(args[0])) {
			s.park(cs.tag)
		}
		reply, fault, quit := s.handle(cs, args)
		switch fault {
		case FaultDropReply:
			c.Close()
			return
		case FaultResetBefore:
			reset(c)
			return
		case FaultSlowReply:
			time.Sleep(s.SlowReply())
		}
		writeReply(bw, reply)
		if err := bw.Flush(); err != nil {
			return
		}
		if quit {
			return
		}
	}
}

func isHandshake(cmd string) bool {
	switch cmd {
	case "AUTH", "PING", "SELECT", "HELLO", "CLIENT", "QUIT", "ECHO", "CLUSTER", "COMMAND":
		return true
	}
	return false
}

// handle executes one request under the global lock and logs it.
func (s *Store) handle(cs *connState, args []string) (reply interface{}, fault Fault, quit bool) {
	cmd := strings.ToUpper(args[0])
	s.mu.Lock()
	defer s.mu.Unlock()
	cs.seq++
	e := Entry{Conn: cs.id, Tag: cs.tag, ConnSeq: cs.seq, Now: s.now, Cmd: cmd}
	if !isHandshake(cmd) {
		s.calls++
		e.Call = s.calls
		if fs := s.tagFaults[cs.tag]; len(fs) > 0 {
			fault = fs[0]
			s.tagFaults[cs.tag] = fs[1:]
		}
		if fault == FaultNone && s.dropAt[e.Call] {
			delete(s.dropAt, e.Call)
			fault = FaultDropReply
		}
		if fault == FaultNone && s.resetAt[e.Call] {
			delete(s.resetAt, e.Call)
			fault = FaultResetBefore
		}
		if fault == FaultResetMid { // armed after the request had started arriving
			fault = FaultResetBefore
		}
	}
	e.Fault = fault.String()
	e.Args, e.Key, e.ScriptSHA = s.describe(cs, cmd, args[1:])
	if e.Key != "" {
		e.Before = s.state(cs.db, e.Key)
	}
	if fault == FaultResetBefore {
		e.After = e.Before
		e.Seq = int64(len(s.log) + 1)
		s.log = append(s.log, e)
		return nil, fault, false
	}
	ex := &execCtx{s: s, cs: cs}
	reply = ex.exec(cmd, args[1:], false)
	e.Executed = true
	e.Calls = ex.calls
	if e.Key != "" {
		e.After = s.state(cs.db, e.Key)
	}
	e.Reply = renderShort(reply)
	e.Delivered = fault == FaultNone || fault == FaultSlowReply
	e.Seq = int64(len(s.log) + 1)
	s.log = append(s.log, e)
	return reply, fault, cmd == "QUIT"
}

// describe extracts the loggable arguments, the first key and (for EVAL*) the script hash.
func (s *Store) describe(cs *connState, cmd string, a []string) (args []string, key, sha string) {
	args = append([]string(nil), a...)
	switch cmd {
	case "EVAL", "EVALSHA":
		if len(a) >= 1 {
			if cmd == "EVAL" {
				sha = shaOf(a[0])
				args[0] = "sha:" + sha
			} else {
				sha = strings.ToLower(a[0])
			}
		}
		if len(a) >= 3 {
			if n, err := strconv.Atoi(a[1]); err == nil && n >= 1 {
				key = a[2]
			}
		}
	case "GET", "SET", "DEL", "UNLINK", "EXISTS", "EXPIRE", "PEXPIRE", "TTL", "PTTL", "PERSIST", "SETNX", "SETEX", "PSETEX", "GETDEL":
		if len(a) >= 1 {
			key = a[0]
		}
	case "AUTH":
		for i := range args {
			if i == len(args)-1 {
				args[i] = "<password>"
			}
		}
	}
	for i := range args {
		if len(args[i]) > 200 {
			args[i] = args[i][:200] + "..."
		}
	}
	return
}

func shaOf(script string) string {
	h := sha1.Sum([]byte(script))
	return hex.EncodeToString(h[:])
}

func firstLine(script string) string {
	for _, l := range strings.Split(script, "\n") {
		l = strings.TrimSpace(l)
		if l != "" {
			if len(l) > 100 {
				l = l[:100]
			}
			return l
		}
	}
	return ""
}

// ---- command execution (callers hold mu) ----------------------------------------------------

type execCtx struct {
	s     *Store
	cs    *connState
	calls []SubCall
}

func errReply(format string, a ...interface{}) minilua.ErrReply {
	return minilua.ErrReply(fmt.Sprintf(format, a...))
}

func wrongArgs(cmd string) minilua.ErrReply {
	return errReply("ERR wrong number of arguments for '%s' command", strings.ToLower(cmd))
}

const (
	errNotInt  = "ERR value is not an integer or out of range"
	errSyntax  = "ERR syntax error"
	ok         = minilua.Status("OK")
	maxAbsTime = int64(1) << 60
)

// exec runs one command.  Replies: nil, int64, string, minilua.Status, minilua.ErrReply,
// []interface{}.
func (x *execCtx) exec(cmd string, a []string, inScript bool) interface{} {
	s, cs := x.s, x.cs
	if inScript {
		switch cmd {
		case "AUTH", "EVAL", "EVALSHA", "SCRIPT", "HELLO", "QUIT", "CLIENT", "INFO", "CLUSTER", "FLUSHALL", "FLUSHDB":
			return errReply("ERR This Redis command is not allowed from script")
		}
	}
	switch cmd {
	case "PING":
		if len(a) == 1 {
			return a[0]
		}
		if len(a) > 1 {
			return wrongArgs(cmd)
		}
		return minilua.Status("PONG")
	case "ECHO":
		if len(a) != 1 {
			return wrongArgs(cmd)
		}
		return a[0]
	case "AUTH":
		switch len(a) {
		case 1:
			// a client that authenticates with a password only (the cluster client): the harness
			// gives every instance its own password, which then serves as the connection's tag
			if s.ClusterMode {
				cs.tag = a[0]
			}
		case 2:
			cs.tag = a[0]
		default:
			return wrongArgs(cmd)
		}
		return ok
	case "SELECT":
		if len(a) != 1 {
			return wrongArgs(cmd)
		}
		n, err := strconv.Atoi(a[0])
		if err != nil {
			return errReply("ERR invalid DB index")
		}
		if n < 0 || n > 15 {
			return errReply("ERR DB index is out of range")
		}
		cs.db = n
		return ok
	case "QUIT":
		return ok
	case "GET":
		if len(a) != 1 {
			return wrongArgs(cmd)
		}
		if it := s.live(cs.db, a[0]); it != nil {
			return it.val
		}
		return nil
	case "SET":
		return x.set(a)
	case "SETNX":
		if len(a) != 2 {
			return wrongArgs(cmd)
		}
		if s.live(cs.db, a[0]) != nil {
			return int64(0)
		}
		s.db(cs.db)[a[0]] = &item{val: a[1]}
		return int64(1)
	case "SETEX", "PSETEX":
		if len(a) != 3 {
			return wrongArgs(cmd)
		}
		n, err := strconv.ParseInt(a[1], 10, 64)
		if err != nil {
			return errReply(errNotInt)
		}
		if cmd == "SETEX" {
			if n > maxAbsTime/1000 {
				n = 0
			}
			n *= 1000
		}
		if n <= 0 || n > maxAbsTime {
			return errReply("ERR invalid expire time in '%s' command", strings.ToLower(cmd))
		}
		s.db(cs.db)[a[0]] = &item{val: a[2], exp: s.now + n}
		return ok
	case "DEL", "UNLINK":
		if len(a) < 1 {
			return wrongArgs(cmd)
		}
		var n int64
		for _, k := range a {
			if s.live(cs.db, k) != nil {
				delete(s.db(cs.db), k)
				n++
			}
		}
		return n
	case "GETDEL":
		if len(a) != 1 {
			return wrongArgs(cmd)
		}
		if it := s.live(cs.db, a[0]); it != nil {
			delete(s.db(cs.db), a[0])
			return it.val
		}
		return nil
	case "EXISTS":
		if len(a) < 1 {
			return wrongArgs(cmd)
		}
		var n int64
		for _, k := range a {
			if s.live(cs.db, k) != nil {
				n++
			}
		}
		return n
	case "EXPIRE", "PEXPIRE":
		if len(a) < 2 {
			return wrongArgs(cmd)
		}
		if len(a) > 2 {
			return errReply("ERR Unsupported option %s", a[2]) // NX/XX/GT/LT are not used by the tool
		}
		n, err := strconv.ParseInt(a[1], 10, 64)
		if err != nil {
			return errReply(errNotInt)
		}
		if cmd == "EXPIRE" {
			if n > maxAbsTime/1000 || n < -maxAbsTime/1000 {
				return errReply("ERR invalid expire time in 'expire' command")
			}
			n *= 1000
		}
		if n > maxAbsTime || n < -maxAbsTime {
			return errReply("ERR invalid expire time in '%s' command", strings.ToLower(cmd))
		}
		it := s.live(cs.db, a[0])
		if it == nil {
			return int64(0)
		}
		if n <= 0 { // a deadline in the past deletes the key
			delete(s.db(cs.db), a[0])
			return int64(1)
		}
		it.exp = s.now + n
		return int64(1)
	case "PERSIST":
		if len(a) != 1 {
			return wrongArgs(cmd)
		}
		it := s.live(cs.db, a[0])
		if it == nil || it.exp == 0 {
			return int64(0)
		}
		it.exp = 0
		return int64(1)
	case "TTL", "PTTL":
		if len(a) != 1 {
			return wrongArgs(cmd)
		}
		it := s.live(cs.db, a[0])
		if it == nil {
			return int64(-2)
		}
		if it.exp == 0 {
			return int64(-1)
		}
		rem := it.exp - s.now
		if rem < 0 {
			rem = 0
		}
		if cmd == "TTL" {
			return (rem + 500) / 1000
		}
		return rem
	case "KEYS":
		if len(a) != 1 {
			return wrongArgs(cmd)
		}
		var names []string
		for k := range s.db(cs.db) {
			if s.live(cs.db, k) != nil && globMatch(a[0], k) {
				names = append(names, k)
			}
		}
		sort.Strings(names)
		out := make([]interface{}, len(names))
		for i, k := range names {
			out[i] = k
		}
		return out
	case "DBSIZE":
		var n int64
		for k := range s.db(cs.db) {
			if s.live(cs.db, k) != nil {
				n++
			}
		}
		return n
	case "FLUSHALL":
		s.dbs = map[int]map[string]*item{}
		return ok
	case "FLUSHDB":
		delete(s.dbs, cs.db)
		return ok
	case "TIME":
		return []interface{}{strconv.FormatInt(s.now/1000, 10), strconv.FormatInt((s.now%1000)*1000, 10)}
	case "INFO":
		if s.ClusterMode {
			return "# Server\r\nredis_version:7.0.15\r\nredis_mode:cluster\r\n# Replication\r\nrole:master\r\nconnected_slaves:0\r\n# Cluster\r\ncluster_enabled:1\r\n"
		}
		return "# Server\r\nredis_version:7.0.15\r\nredis_mode:standalone\r\n# Replication\r\nrole:master\r\nconnected_slaves:0\r\n# Cluster\r\ncluster_enabled:0\r\n"
	case "CLUSTER":
		if !s.ClusterMode {
			return errReply("ERR This instance has cluster support disabled")
		}
		host, port, _ := net.SplitHostPort(s.ln.Addr().String())
		pn, _ := strconv.ParseInt(port, 10, 64)
		switch {
		case len(a) >= 1 && strings.EqualFold(a[0], "SLOTS"):
			return []interface{}{[]interface{}{int64(0), int64(16383), []interface{}{host, pn, "leasestore000000000000000000000000000001"}}}
		case len(a) >= 1 && strings.EqualFold(a[0], "NODES"):
			return fmt.Sprintf("leasestore000000000000000000000000000001 %s:%s@1%s myself,master - 0 0 1 connected 0-16383\n", host, port, port)
		case len(a) >= 1 && strings.EqualFold(a[0], "INFO"):
			return "cluster_state:ok\r\ncluster_slots_assigned:16384\r\ncluster_known_nodes:1\r\ncluster_size:1\r\n"
		}
		return errReply("ERR unknown subcommand '%s'", strings.Join(a, " "))
	case "COMMAND":
		if len(a) >= 4 && strings.EqualFold(a[0], "GETKEYS") && (strings.EqualFold(a[1], "EVAL") || strings.EqualFold(a[1], "EVALSHA")) {
			n, err := strconv.Atoi(a[3])
			if err != nil || n < 0 || 4+n > len(a) {
				return errReply("ERR Invalid arguments specified for command")
			}
			out := make([]interface{}, 0, n)
			for _, k := range a[4 : 4+n] {
				out = append(out, k)
			}
			return out
		}
		if len(a) >= 3 && strings.EqualFold(a[0], "GETKEYS") {
			return []interface{}{a[2]}
		}
		return []interface{}{}
	case "SCRIPT":
		if len(a) < 1 {
			return wrongArgs(cmd)
		}
		switch strings.ToUpper(a[0]) {
		case "LOAD":
			if len(a) != 2 {
				return wrongArgs(cmd)
			}
			if _, err := minilua.Parse(a[1]); err != nil {
				s.unsupp = append(s.unsupp, firstLine(a[1]))
				return errReply("ERR unsupported script: %v", err)
			}
			return x.remember(a[1]).SHA
		case "EXISTS":
			out := make([]interface{}, 0, len(a)-1)
			for _, h := range a[1:] {
				if _, ok := s.scripts[strings.ToLower(h)]; ok {
					out = append(out, int64(1))
				} else {
					out = append(out, int64(0))
				}
			}
			return out
		case "FLUSH":
			for k, si := range s.scripts { // keep the texts for the evidence, forget the cache
				si.Text = ""
				_ = k
			}
			return ok
		}
		return errReply("ERR unknown subcommand '%s'", a[0])
	case "EVAL", "EVALSHA":
		return x.eval(cmd, a)
	}
	s.unknown = append(s.unknown, cmd)
	return errReply("ERR unknown command '%s'", args0(cmd))
}

func args0(cmd string) string { return strings.ToLower(cmd) }

func (x *execCtx) remember(text string) *ScriptInfo {
	sha := shaOf(text)
	si := x.s.scripts[sha]
	if si == nil {
		si = &ScriptInfo{SHA: sha, FirstLine: firstLine(text)}
		x.s.scripts[sha] = si
	}
	si.Text = text
	return si
}

func (x *execCtx) set(a []string) interface{} {
	s, cs := x.s, x.cs
	if len(a) < 2 {
		return wrongArgs("SET")
	}
	var nx, xx, keepttl, get bool
	var exp int64
	haveExp := false
	for i := 2; i < len(a); i++ {
		o := strings.ToUpper(a[i])
		switch o {
		case "NX":
			nx = true
		case "XX":
			xx = true
		case "KEEPTTL":
			keepttl = true
		case "GET":
			get = true
		case "EX", "PX", "EXAT", "PXAT":
			if haveExp || i+1 >= len(a) {
				return errReply(errSyntax)
			}
			n, err := strconv.ParseInt(a[i+1], 10, 64)
			if err != nil {
				return errReply(errNotInt)
			}
			i++
			if o == "EX" || o == "EXAT" {
				if n > maxAbsTime/1000 {
					return errReply("ERR invalid expire time in 'set' command")
				}
				n *= 1000
			}
			if n <= 0 || n > maxAbsTime {
				return errReply("ERR invalid expire time in 'set' command")
			}
			if o == "EX" || o == "PX" {
				n += s.now
			}
			exp, haveExp = n, true
		default:
			return errReply(errSyntax)
		}
	}
	if (nx && xx) || (keepttl && haveExp) {
		return errReply(errSyntax)
	}
	old := s.live(cs.db, a[0])
	var oldVal interface{}
	if old != nil {
		oldVal = old.val
	}
	if (nx && old != nil) || (xx && old == nil) {
		if get {
			return oldVal
		}
		return nil
	}
	it := &item{val: a[1], exp: exp}
	if keepttl && old != nil {
		it.exp = old.exp
	}
	s.db(cs.db)[a[0]] = it
	if get {
		return oldVal
	}
	return ok
}

func (x *execCtx) eval(cmd string, a []string) interface{} {
	s := x.s
	if len(a) < 2 {
		return wrongArgs(cmd)
	}
	var text string
	if cmd == "EVAL" {
		text = a[0]
	} else {
		si := s.scripts[strings.ToLower(a[0])]
		if si == nil || si.Text == "" {
			return errReply("NOSCRIPT No matching script. Please use EVAL.")
		}
		text = si.Text
	}
	nk, err := strconv.Atoi(a[1])
	if err != nil {
		return errReply(errNotInt)
	}
	if nk < 0 {
		return errReply("ERR Number of keys can't be negative")
	}
	if nk > len(a)-2 {
		return errReply("ERR Number of keys can't be greater than number of args")
	}
	keys, argv := a[2:2+nk], a[2+nk:]
	prog, perr := minilua.Parse(text)
	if perr != nil {
		s.unsupp = append(s.unsupp, firstLine(text))
		return errReply("ERR unsupported script: %v", perr)
	}
	si := x.remember(text)
	si.Runs++
	res, rerr := prog.Run(keys, argv, func(args []string) interface{} {
		rep := x.exec(strings.ToUpper(args[0]), args[1:], true)
		x.calls = append(x.calls, SubCall{Args: append([]string(nil), args...), Reply: renderShort(rep)})
		if _, isArr := rep.([]interface{}); isArr {
			return struct{}{} // not representable in the subset -> unsupported
		}
		return rep
	})
	if rerr != nil {
		var se *minilua.ScriptError
		if errors.As(rerr, &se) {
			msg := se.Msg
			if !strings.HasPrefix(msg, "ERR") && !strings.HasPrefix(msg, "NOSCRIPT") && !strings.HasPrefix(msg, "WRONGTYPE") {
				msg = "ERR Error running script: " + msg
			}
			return minilua.ErrReply(msg)
		}
		s.unsupp = append(s.unsupp, firstLine(text))
		return errReply("ERR unsupported script: %v", rerr)
	}
	return res
}

// globMatch implements Redis' KEYS pattern syntax for `*`, `?`, `[...]` and `\x`.
func globMatch(p, s string) bool {
	for len(p) > 0 {
		switch p[0] {
		case '*':
			for len(p) > 1 && p[1] == '*' {
				p = p[1:]
			}
			if len(p) == 1 {
				return true
			}
			for i := 0; i <= len(s); i++ {
				if globMatch(p[1:], s[i:]) {
					return true
				}
			}
			return false
		case '?':
			if len(s) == 0 {
				return false
			}
			p, s = p[1:], s[1:]
		case '[':
			if len(s) == 0 {
				return false
			}
			end := strings.IndexByte(p, ']')
			if end < 0 {
				return false
			}
			set := p[1:end]
			neg := strings.HasPrefix(set, "^")
			if neg {
				set = set[1:]
			}
			m := false
			for i := 0; i < len(set); i++ {
				if i+2 < len(set) && set[i+1] == '-' {
					if s[0] >= set[i] && s[0] <= set[i+2] {
						m = true
					}
					i += 2
				} else if set[i] == s[0] {
					m = true
				}
			}
			if m == neg {
				return false
			}
			p, s = p[end+1:], s[1:]
		case '\\':
			if len(p) >= 2 {
				p = p[1:]
			}
			fallthrough
		default:
			if len(s) == 0 || s[0] != p[0] {
				return false
			}
			p, s = p[1:], s[1:]
		}
	}
	return len(s) == 0
}

// ---- RESP ------------------------------------------------------------------------------------

func readLine(br *bufio.Reader) (string, error) {
	l, err := br.ReadString('\n')
	if err != nil {
		return "", err
	}
	if len(l) < 2 || l[len(l)-2] != '\r' {
		return "", fmt.Errorf("line not terminated by CRLF")
	}
	return l[:len(l)-2], nil
}

func readRequest(br *bufio.Reader) ([]string, error) {
	l, err := readLine(br)
	if err != nil {
		return nil, err
	}
	if l == "" {
		return nil, nil
	}
	if l[0] != '*' {
		return strings.Fields(l), nil // inline command
	}
	n, err := strconv.Atoi(l[1:])
	if err != nil || n < 0 || n > 1<<20 {
		return nil, fmt.Errorf("invalid multibulk length")
	}
	args := make([]string, 0, n)
	for i := 0; i < n; i++ {
		h, err := readLine(br)
		if err != nil {
			return nil, err
		}
		if len(h) == 0 || h[0] != '$' {
			return nil, fmt.Errorf("expected '$', got %q", h)
		}
		ln, err := strconv.Atoi(h[1:])
		if err != nil || ln < 0 || ln > 512<<20 {
			return nil, fmt.Errorf("invalid bulk length")
		}
		buf := make([]byte, ln+2)
		if _, err := io.ReadFull(br, buf); err != nil {
			return nil, err
		}
		if buf[ln] != '\r' || buf[ln+1] != '\n' {
			return nil, fmt.Errorf("bulk not terminated by CRLF")
		}
		args = append(args, string(buf[:ln]))
	}
	return args, nil
}

func writeReply(w *bufio.Writer, r interface{}) {
	switch v := r.(type) {
	case nil:
		w.WriteString("$-1\r\n")
	case int64:
		w.WriteString(":" + strconv.FormatInt(v, 10) + "\r\n")
	case int:
		w.WriteString(":" + strconv.Itoa(v) + "\r\n")
	case string:
		w.WriteString("$" + strconv.Itoa(len(v)) + "\r\n" + v + "\r\n")
	case minilua.Status:
		w.WriteString("+" + string(v) + "\r\n")
	case minilua.ErrReply:
		w.WriteString("-" + strings.NewReplacer("\r", " ", "\n", " ").Replace(string(v)) + "\r\n")
	case []interface{}:
		w.WriteString("*" + strconv.Itoa(len(v)) + "\r\n")
		for _, e := range v {
			writeReply(w, e)
		}
	default:
		w.WriteString("-ERR internal: unrepresentable reply\r\n")
	}
}

func renderShort(r interface{}) string {
	switch v := r.(type) {
	case nil:
		return "(nil)"
	case int64:
		return ":" + strconv.FormatInt(v, 10)
	case int:
		return ":" + strconv.Itoa(v)
	case string:
		if len(v) > 80 {
			v = v[:80] + "..."
		}
		return strconv.Quote(v)
	case minilua.Status:
		return "+" + string(v)
	case minilua.ErrReply:
		return "-" + string(v)
	case []interface{}:
		return fmt.Sprintf("*%d", len(v))
	}
	return fmt.Sprintf("?%T", r)
}
