package ref

import (
	"bytes"
	"strings"
)

// FilterConfig is a filter configuration as a user writes it (YAML `output.filter`): lists in
// the order given, slot ranges as raw [left] / [left,right] entries.
type FilterConfig struct {
	CmdBlacklist []string
	DbBlacklist  []int
	PrefixWhite  []string
	PrefixBlack  []string
	// Bookkeeping prefixes: the tool's own keys, always rejected (not user-configurable).
	Bookkeeping []string
	SlotWhite   [][]uint16
	SlotBlack   [][]uint16
}

// Filter is a direct transcription of property C10's statement.
//
//   - a command reaches the target iff its name is not blacklisted (case-insensitively), its
//     database is not blacklisted and its keys are accepted;
//   - a key is rejected iff it starts with a bookkeeping prefix, or with a blacklisted prefix,
//     or a prefix whitelist is configured and no whitelisted prefix is a prefix of the key, or
//     its slot lies in the union of the black ranges, or white ranges are configured and its
//     slot is not in their union.  slot = HashSlot(key).  Prefix = byte prefix.
//   - range entries: [s] is the single slot s, [l,r] with l<=r the closed interval, [l,r] with
//     l>r and entries of any other length are ignored (docs + code); the union is a bitmap.
//   - DEL / UNLINK / MSET are forwarded restricted to their accepted keys (MSET keeps each
//     accepted key's value); any other command with a rejected key is withheld; a command
//     whose keys are all rejected is withheld.
//
// Empty-string prefix entries: the statement does not say whether "" is a prefix entry that
// matches every key or a void entry.  EmptyPrefixMatchesAll selects the reading; the checks
// do not judge cases whose outcome depends on it.
type Filter struct {
	cmds                  map[string]bool
	dbs                   map[int]bool
	white, black, book    [][]byte
	whiteConfigured       bool
	slotWhite, slotBlack  *[Slots]bool
	EmptyPrefixMatchesAll bool
}

func NewFilter(c FilterConfig) *Filter {
	f := &Filter{cmds: map[string]bool{}, dbs: map[int]bool{}}
	for _, s := range c.CmdBlacklist {
		f.cmds[strings.ToLower(s)] = true
	}
	for _, d := range c.DbBlacklist {
		f.dbs[d] = true
	}
	for _, p := range c.PrefixWhite {
		f.white = append(f.white, []byte(p))
	}
	f.whiteConfigured = len(c.PrefixWhite) > 0
	for _, p := range c.PrefixBlack {
		f.black = append(f.black, []byte(p))
	}
	for _, p := range c.Bookkeeping {
		f.book = append(f.book, []byte(p))
	}
	if len(c.SlotWhite) > 0 {
		f.slotWhite = Union(c.SlotWhite)
	}
	if len(c.SlotBlack) > 0 {
		f.slotBlack = Union(c.SlotBlack)
	}
	return f
}

// Union evaluates a list of raw range entries as a plain set union.
func Union(ranges [][]uint16) *[Slots]bool {
	var bm [Slots]bool
	for _, e := range ranges {
		var l, r int
		switch len(e) {
		case 1:
			l, r = int(e[0]), int(e[0])
		case 2:
			l, r = int(e[0]), int(e[1])
		default:
			continue
		}
		if l > r {
			continue
		}
		for s := l; s <= r && s < Slots; s++ {
			bm[s] = true
		}
	}
	return &bm
}

func (f *Filter) CmdRejected(cmd string) bool { return f.cmds[strings.ToLower(cmd)] }

func (f *Filter) DbRejected(db int) bool { return f.dbs[db] }

func (f *Filter) anyPrefix(list [][]byte, key []byte) bool {
	for _, p := range list {
		if len(p) == 0 {
			if f.EmptyPrefixMatchesAll {
				return true
			}
			continue
		}
		if bytes.HasPrefix(key, p) {
			return true
		}
	}
	return false
}

// PrefixRejected: bookkeeping or blacklisted prefix, or whitelist configured and not matched.
func (f *Filter) PrefixRejected(key []byte) bool {
	if f.anyPrefix(f.book, key) || f.anyPrefix(f.black, key) {
		return true
	}
	if f.whiteConfigured && !f.anyPrefix(f.white, key) {
		return true
	}
	return false
}

// SlotRejectedSlot is the slot rule for a given slot number.
func (f *Filter) SlotRejectedSlot(slot int) bool {
	if f.slotBlack != nil && f.slotBlack[slot] {
		return true
	}
	if f.slotWhite != nil && !f.slotWhite[slot] {
		return true
	}
	return false
}

func (f *Filter) SlotRejected(key []byte) bool { return f.SlotRejectedSlot(HashSlot(key)) }

// KeyRejected is the rule applied to a snapshot key and to each key of a command.
func (f *Filter) KeyRejected(key []byte) bool {
	return f.PrefixRejected(key) || f.SlotRejected(key)
}

// SnapshotKey: does a snapshot entry (db, key) reach the target?
func (f *Filter) SnapshotKey(db int, key []byte) bool {
	return !f.DbRejected(db) && !f.KeyRejected(key)
}

// Command evaluates one source command.  judged=false: the command is outside the reference
// key table or malformed, the key rules are not evaluated (only cmd/db rules were).
func (f *Filter) Command(db int, cmd string, args [][]byte) (out [][]byte, forwarded bool, judged bool) {
	if f.CmdRejected(cmd) || f.DbRejected(db) {
		return nil, false, true
	}
	return f.CommandKeys(cmd, args)
}

// CommandKeys is the key part of Command (the part RedisKeyFilter.FilterCmdKey implements).
func (f *Filter) CommandKeys(cmd string, args [][]byte) (out [][]byte, forwarded bool, judged bool) {
	idx, ok := KeyIndexes(cmd, args)
	if !ok {
		return args, true, false
	}
	if len(idx) == 0 {
		return args, true, true
	}
	rejected := make([]bool, len(idx))
	nRej := 0
	for i, k := range idx {
		if f.KeyRejected(args[k]) {
			rejected[i] = true
			nRej++
		}
	}
	switch {
	case nRej == 0:
		return args, true, true
	case nRej == len(idx):
		return nil, false, true
	}
	switch strings.ToLower(cmd) {
	case "del", "unlink":
		for i, k := range idx {
			if !rejected[i] {
				out = append(out, args[k])
			}
		}
		return out, true, true
	case "mset":
		for i, k := range idx {
			if !rejected[i] {
				out = append(out, args[k], args[k+1])
			}
		}
		return out, true, true
	}
	return nil, false, true
}
