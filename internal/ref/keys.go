package ref

import "strings"

// Key positions of the key-addressed write commands, written from the Redis command reference
// (the "first key / last key / step" triple that `COMMAND INFO` reports, where position 0 is
// the command name itself and a negative last key counts from the end of the argument vector),
// plus the commands whose keys need the argument values (numkeys, STORE, STREAMS).
//
// The *scope* (which commands are listed) follows the tool's supported command set; the
// *positions* are from the reference, not from the tool.

type keySpec struct{ first, last, step int }

var one = keySpec{1, 1, 1}

var fixedSpecs = map[string]keySpec{
	// strings
	"set": one, "setnx": one, "setex": one, "psetex": one, "getdel": one, "getex": one,
	"append": one, "setbit": one, "bitfield": one, "setrange": one, "incr": one, "decr": one,
	"incrby": one, "decrby": one, "incrbyfloat": one, "getset": one, "delex": one,
	"mset": {1, -1, 2}, "msetnx": {1, -1, 2},
	"bitop": {2, -1, 1},
	// generic
	"del": {1, -1, 1}, "unlink": {1, -1, 1}, "exists": {1, -1, 1}, "touch": {1, -1, 1},
	"move": one, "rename": {1, 2, 1}, "renamenx": {1, 2, 1}, "copy": {1, 2, 1},
	"expire": one, "expireat": one, "pexpire": one, "pexpireat": one, "persist": one,
	"restore": one, "restore-asking": one,
	// lists
	"rpush": one, "lpush": one, "rpushx": one, "lpushx": one, "linsert": one, "rpop": one,
	"lpop": one, "lset": one, "ltrim": one, "lrem": one,
	"brpop": {1, -2, 1}, "blpop": {1, -2, 1},
	"rpoplpush": {1, 2, 1}, "brpoplpush": {1, 2, 1}, "lmove": {1, 2, 1}, "blmove": {1, 2, 1},
	// sets
	"sadd": one, "srem": one, "spop": one, "smove": {1, 2, 1},
	"sinterstore": {1, -1, 1}, "sunionstore": {1, -1, 1}, "sdiffstore": {1, -1, 1},
	// sorted sets
	"zadd": one, "zincrby": one, "zrem": one, "zremrangebyscore": one, "zremrangebyrank": one,
	"zremrangebylex": one, "zpopmin": one, "zpopmax": one,
	"bzpopmin": {1, -2, 1}, "bzpopmax": {1, -2, 1},
	"zrangestore": {1, 2, 1},
	// hashes
	"hset": one, "hsetnx": one, "hmset": one, "hincrby": one, "hincrbyfloat": one, "hdel": one,
	"hsetex": one, "hgetdel": one, "hgetex": one,
	"hexpire": one, "hpexpire": one, "hexpireat": one, "hpexpireat": one, "hpersist": one,
	// geo, hyperloglog
	"geoadd": one, "geosearchstore": {1, 2, 1},
	"pfadd": one, "pfmerge": {1, -1, 1},
	// streams
	"xadd": one, "xdel": one, "xtrim": one, "xack": one, "xclaim": one, "xautoclaim": one,
	"xsetid": one, "xackdel": one, "xdelex": one,
}

// moduleSpecs: Redis Stack module commands whose first argument is the (only) key, plus
// JSON.MSET (key path value triples).  FT.* (index names), CMS.MERGE and TDIGEST.MERGE are
// left out: what they declare as keys depends on the module build, so they are not judged.
var moduleSpecs = map[string]keySpec{
	"json.arrappend": one, "json.arrinsert": one, "json.arrpop": one, "json.arrtrim": one,
	"json.clear": one, "json.del": one, "json.forget": one, "json.merge": one,
	"json.numincrby": one, "json.nummultby": one, "json.set": one, "json.strappend": one,
	"json.toggle": one, "json.mset": {1, -1, 3},
	"bf.add": one, "bf.madd": one, "bf.insert": one,
	"cf.add": one, "cf.addnx": one, "cf.insert": one, "cf.insertnx": one,
	"cms.incrby": one, "cms.initbydim": one, "cms.initbyprob": one,
	"tdigest.add": one, "tdigest.create": one, "tdigest.reset": one,
	"topk.add": one, "topk.incrby": one, "topk.reserve": one,
}

// Known reports whether the command is in the reference table.
func Known(cmd string) bool {
	lc := strings.ToLower(cmd)
	if _, ok := fixedSpecs[lc]; ok {
		return true
	}
	if _, ok := moduleSpecs[lc]; ok {
		return true
	}
	switch lc {
	case "eval", "evalsha", "fcall", "eval_ro", "evalsha_ro", "fcall_ro",
		"zunionstore", "zinterstore", "zdiffstore", "zmpop", "lmpop", "bzmpop", "blmpop",
		"msetex", "sort", "georadius", "georadiusbymember", "xgroup", "xreadgroup", "xread":
		return true
	}
	return false
}

// Commands lists every command of the reference table (lower case).
func Commands() []string {
	var out []string
	for c := range fixedSpecs {
		out = append(out, c)
	}
	for c := range moduleSpecs {
		out = append(out, c)
	}
	out = append(out, "eval", "evalsha", "fcall", "eval_ro", "evalsha_ro", "fcall_ro",
		"zunionstore", "zinterstore", "zdiffstore", "zmpop", "lmpop", "bzmpop", "blmpop",
		"msetex", "sort", "georadius", "georadiusbymember", "xgroup", "xreadgroup", "xread")
	return out
}

// atoiStrict parses a non-negative decimal; ok=false otherwise.
func atoiStrict(b []byte) (int, bool) {
	if len(b) == 0 || len(b) > 9 {
		return 0, false
	}
	n := 0
	for _, c := range b {
		if c < '0' || c > '9' {
			return 0, false
		}
		n = n*10 + int(c-'0')
	}
	return n, true
}

func eq(b []byte, s string) bool { return strings.EqualFold(string(b), s) }

// KeyIndexes returns the 0-based indexes into args (args excludes the command name) of the
// keys the command addresses.  ok=false: the command is not in the table, or the argument
// vector is not a well-formed instance of the command (a master never propagates those) —
// the caller must not judge such a command.  ok=true with no indexes: well-formed, no keys
// (e.g. EVAL with numkeys 0).
func KeyIndexes(cmd string, args [][]byte) (idx []int, ok bool) {
	lc := strings.ToLower(cmd)
	argc := len(args) + 1 // argv length including the command name
	pos := func(p int) int { return p - 1 }

	if sp, found := fixedSpecs[lc]; found {
		return fromSpec(sp, argc)
	}
	if sp, found := moduleSpecs[lc]; found {
		return fromSpec(sp, argc)
	}

	numkeys := func(numPos, firstPos, step int, fixed ...int) ([]int, bool) {
		if numPos >= argc {
			return nil, false
		}
		n, good := atoiStrict(args[pos(numPos)])
		if !good {
			return nil, false
		}
		last := firstPos + (n-1)*step
		if n > 0 && last >= argc {
			return nil, false
		}
		var out []int
		for _, f := range fixed {
			if f >= argc {
				return nil, false
			}
			out = append(out, pos(f))
		}
		for i := 0; i < n; i++ {
			out = append(out, pos(firstPos+i*step))
		}
		return out, true
	}

	switch lc {
	case "eval", "evalsha", "fcall", "eval_ro", "evalsha_ro", "fcall_ro":
		// EVAL script numkeys [key ...] [arg ...]
		return numkeys(2, 3, 1)
	case "zunionstore", "zinterstore", "zdiffstore":
		// ZUNIONSTORE destination numkeys key [key ...] ...
		out, good := numkeys(2, 3, 1, 1)
		if good && len(out) < 2 {
			return nil, false // numkeys must be >= 1
		}
		return out, good
	case "zmpop", "lmpop":
		// LMPOP numkeys key [key ...] <LEFT|RIGHT> ...
		out, good := numkeys(1, 2, 1)
		if good && len(out) == 0 {
			return nil, false
		}
		return out, good
	case "bzmpop", "blmpop":
		// BLMPOP timeout numkeys key [key ...] ...
		out, good := numkeys(2, 3, 1)
		if good && len(out) == 0 {
			return nil, false
		}
		return out, good
	case "msetex":
		// MSETEX numkeys key value [key value ...] [NX|XX] [EX ..]
		out, good := numkeys(1, 2, 2)
		if good && (len(out) == 0 || out[len(out)-1]+1 >= len(args)) {
			return nil, false
		}
		return out, good
	case "sort":
		// SORT key [BY pattern] [LIMIT offset count] [GET pattern ...] [ASC|DESC] [ALPHA] [STORE dst]
		// keys: the source and the STORE destination (the last one if repeated).  BY/GET
		// patterns are not keys of the command's key specification.
		if argc < 2 {
			return nil, false
		}
		out := []int{0}
		store := -1
		for i := 1; i < len(args); i++ {
			switch {
			case eq(args[i], "store"):
				if i+1 >= len(args) {
					return nil, false
				}
				store = i + 1
				i++
			case eq(args[i], "by"), eq(args[i], "get"):
				if i+1 >= len(args) {
					return nil, false
				}
				i++
			case eq(args[i], "limit"):
				if i+2 >= len(args) {
					return nil, false
				}
				i += 2
			}
		}
		if store >= 0 {
			out = append(out, store)
		}
		return out, true
	case "georadius", "georadiusbymember":
		// GEORADIUS key lon lat radius unit [opts] [STORE key] [STOREDIST key]
		// GEORADIUSBYMEMBER key member radius unit [opts] [STORE key] [STOREDIST key]
		start := 5 // index into args of the first option
		if lc == "georadiusbymember" {
			start = 4
		}
		if len(args) < start {
			return nil, false
		}
		out := []int{0}
		store := -1
		for i := start; i < len(args); i++ {
			switch {
			case eq(args[i], "store"), eq(args[i], "storedist"):
				if i+1 >= len(args) {
					return nil, false
				}
				store = i + 1
				i++
			case eq(args[i], "count"):
				i++
			}
		}
		if store >= 0 {
			out = append(out, store)
		}
		return out, true
	case "xgroup":
		// XGROUP <CREATE|SETID|DESTROY|CREATECONSUMER|DELCONSUMER> key group ...
		if len(args) < 2 {
			return nil, false
		}
		switch strings.ToLower(string(args[0])) {
		case "create", "setid", "destroy", "createconsumer", "delconsumer":
			return []int{1}, true
		}
		return nil, false
	case "xreadgroup", "xread":
		// XREADGROUP GROUP g c [COUNT n] [BLOCK ms] [NOACK] STREAMS key [key ...] id [id ...]
		i := 0
		streams := -1
		for i < len(args) {
			switch {
			case eq(args[i], "group") && lc == "xreadgroup":
				i += 3
			case eq(args[i], "count"), eq(args[i], "block"):
				i += 2
			case eq(args[i], "noack") && lc == "xreadgroup":
				i++
			case eq(args[i], "streams"):
				streams = i
				i = len(args)
			default:
				return nil, false
			}
		}
		if streams < 0 {
			return nil, false
		}
		rest := len(args) - (streams + 1)
		if rest <= 0 || rest%2 != 0 {
			return nil, false
		}
		var out []int
		for k := 0; k < rest/2; k++ {
			out = append(out, streams+1+k)
		}
		return out, true
	}
	return nil, false
}

func fromSpec(sp keySpec, argc int) ([]int, bool) {
	last := sp.last
	if last < 0 {
		last = argc + last
	}
	if sp.first >= argc || last >= argc || last < sp.first {
		return nil, false
	}
	if (last-sp.first+1)%sp.step != 0 {
		// e.g. MSET with a key that has no value: not a well-formed instance
		return nil, false
	}
	var out []int
	for p := sp.first; p <= last; p += sp.step {
		out = append(out, p-1)
	}
	return out, true
}

// Keys returns the key arguments themselves.
func Keys(cmd string, args [][]byte) (keys [][]byte, ok bool) {
	idx, ok := KeyIndexes(cmd, args)
	if !ok {
		return nil, false
	}
	for _, i := range idx {
		keys = append(keys, args[i])
	}
	return keys, true
}

// SortExternalPattern reports whether a SORT argument vector dereferences external keys
// through a BY pattern (other than "nosort") or a GET pattern (other than "#").  Such a command
// reads keys that none of its arguments names; it is not a purely key-addressed command.
func SortExternalPattern(args [][]byte) bool {
	for i := 1; i+1 < len(args); i++ {
		switch {
		case eq(args[i], "store"):
			i++
		case eq(args[i], "limit"):
			i += 2
		case eq(args[i], "by"):
			if !eq(args[i+1], "nosort") {
				return true
			}
			i++
		case eq(args[i], "get"):
			if string(args[i+1]) != "#" {
				return true
			}
			i++
		}
	}
	return false
}
