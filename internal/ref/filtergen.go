package ref

import (
	"fmt"
	"math/rand"
	"sort"
	"strings"
)

// Generators for filter configurations, keys and commands.  Exported so that an end-to-end
// layer (streams / snapshots through RedisOutput) can reuse exactly the same cases as the
// API-level differential.  Everything is a deterministic function of the *rand.Rand given.

// OutOfToolScope: commands of the reference table the tool's key table does not list at all
// (read-only or never propagated); the quantifier is "the supported key-addressed command
// set", so they are generated only for the reference's own unit tests.
var OutOfToolScope = map[string]bool{
	"exists": true, "touch": true, "eval_ro": true, "evalsha_ro": true, "xread": true,
}

// ---- slot ranges ------------------------------------------------------------------------

// RangeShapes are the shapes GenRanges produces (index = shape id).
var RangeShapes = []string{"none", "disjoint-sorted", "disjoint-shuffled", "adjacent", "overlap-chain",
	"nested", "duplicates", "singles", "soup", "same-left", "only-inverted"}

// GenRanges returns raw range entries of the requested shape.
func GenRanges(rng *rand.Rand, shape int) [][]uint16 {
	u := func(n int) uint16 { return uint16(rng.Intn(n)) }
	var out [][]uint16
	switch RangeShapes[shape] {
	case "none":
	case "disjoint-sorted", "disjoint-shuffled":
		n := 1 + rng.Intn(8)
		cuts := distinctSorted(rng, 2*n, Slots)
		for i := 0; i < n; i++ {
			out = append(out, []uint16{cuts[2*i], cuts[2*i+1]})
		}
		if RangeShapes[shape] == "disjoint-shuffled" {
			rng.Shuffle(len(out), func(i, j int) { out[i], out[j] = out[j], out[i] })
		}
	case "adjacent":
		n := 2 + rng.Intn(6)
		cuts := distinctSorted(rng, n+1, Slots-1)
		for i := 0; i < n; i++ {
			l := cuts[i]
			if i > 0 {
				l = cuts[i] + 1
			}
			out = append(out, []uint16{l, cuts[i+1]})
		}
		rng.Shuffle(len(out), func(i, j int) { out[i], out[j] = out[j], out[i] })
	case "overlap-chain":
		// lefts and rights both increasing, consecutive ranges overlap: no range contains another
		n := 2 + rng.Intn(6)
		l := int(u(2000))
		prevR := -1
		for i := 0; i < n; i++ {
			r := l + 500 + rng.Intn(2500)
			if r <= prevR {
				r = prevR + 1 + rng.Intn(500)
			}
			if r >= Slots {
				break
			}
			out = append(out, []uint16{uint16(l), uint16(r)})
			prevR = r
			l += 1 + rng.Intn(r-l) // next left in (l, r]: overlaps, is not contained
		}
		rng.Shuffle(len(out), func(i, j int) { out[i], out[j] = out[j], out[i] })
	case "nested":
		// one wide range and 2..6 ranges strictly inside it (themselves disjoint or nested)
		l := int(u(4000))
		r := l + 4000 + rng.Intn(Slots-l-4000)
		out = append(out, []uint16{uint16(l), uint16(r)})
		n := 2 + rng.Intn(5)
		for i := 0; i < n; i++ {
			a := l + 1 + rng.Intn(r-l-2)
			b := a + rng.Intn(1+(r-1-a)/4)
			out = append(out, []uint16{uint16(a), uint16(b)})
		}
		if rng.Intn(2) == 0 {
			out = append(out, []uint16{u(Slots)})
		}
		rng.Shuffle(len(out), func(i, j int) { out[i], out[j] = out[j], out[i] })
	case "duplicates":
		n := 1 + rng.Intn(3)
		cuts := distinctSorted(rng, 2*n, Slots)
		for i := 0; i < n; i++ {
			e := []uint16{cuts[2*i], cuts[2*i+1]}
			for k := 0; k < 1+rng.Intn(3); k++ {
				out = append(out, []uint16{e[0], e[1]})
			}
		}
		rng.Shuffle(len(out), func(i, j int) { out[i], out[j] = out[j], out[i] })
	case "singles":
		n := 1 + rng.Intn(8)
		for i := 0; i < n; i++ {
			s := u(Slots)
			if rng.Intn(2) == 0 {
				out = append(out, []uint16{s})
			} else {
				out = append(out, []uint16{s, s})
			}
		}
	case "soup":
		n := rng.Intn(9)
		for i := 0; i < n; i++ {
			switch rng.Intn(10) {
			case 0:
				out = append(out, []uint16{u(Slots)})
			case 1: // inverted: ignored
				a, b := u(Slots), u(Slots)
				if a < b {
					a, b = b, a
				}
				if a == b {
					a++
				}
				out = append(out, []uint16{a, b})
			case 2: // wrong arity: ignored
				if rng.Intn(2) == 0 {
					out = append(out, []uint16{})
				} else {
					out = append(out, []uint16{u(Slots), u(Slots), u(Slots)})
				}
			case 3: // right bound beyond the slot space
				out = append(out, []uint16{u(Slots), uint16(Slots + rng.Intn(40000))})
			case 4: // boundary
				out = append(out, [][]uint16{{0, 0}, {Slots - 1, Slots - 1}, {0, Slots - 1}, {0, u(Slots)}, {u(Slots), Slots - 1}}[rng.Intn(5)])
			default:
				a, b := u(Slots), u(Slots)
				if a > b {
					a, b = b, a
				}
				out = append(out, []uint16{a, b})
			}
		}
	case "same-left":
		// several ranges sharing their left bound, different right bounds
		l := u(Slots - 3000)
		n := 2 + rng.Intn(4)
		for i := 0; i < n; i++ {
			out = append(out, []uint16{l, l + uint16(rng.Intn(3000))})
		}
	case "only-inverted":
		out = append(out, []uint16{uint16(1 + rng.Intn(Slots-1)), 0})
	}
	return out
}

func distinctSorted(rng *rand.Rand, n, max int) []uint16 {
	seen := map[int]bool{}
	for len(seen) < n {
		seen[rng.Intn(max)] = true
	}
	var l []int
	for v := range seen {
		l = append(l, v)
	}
	sort.Ints(l)
	out := make([]uint16, n)
	for i, v := range l {
		out[i] = uint16(v)
	}
	return out
}

// ClassifyRanges describes the *effective* entries (after dropping ignored ones) by their
// worst structural feature — "nested" (one range contains a different one) > "overlap" >
// "duplicate" > "adjacent" > "disjoint" > "empty"/"absent" — plus "+unsorted" when the
// entries are not given in increasing order of left bound and "+ignored" when some entry was
// dropped.  Used in signatures only.
func ClassifyRanges(raw [][]uint16) string {
	if len(raw) == 0 {
		return "absent"
	}
	type rg struct{ l, r int }
	var eff []rg
	ignored := false
	for _, e := range raw {
		switch {
		case len(e) == 1:
			eff = append(eff, rg{int(e[0]), int(e[0])})
		case len(e) == 2 && e[0] <= e[1]:
			eff = append(eff, rg{int(e[0]), int(e[1])})
		default:
			ignored = true
		}
	}
	c := "disjoint"
	if len(eff) == 0 {
		c = "empty"
	}
	rank := map[string]int{"empty": 0, "disjoint": 1, "adjacent": 2, "duplicate": 3, "overlap": 4, "nested": 5}
	up := func(s string) {
		if rank[s] > rank[c] {
			c = s
		}
	}
	unsorted := false
	for i := range eff {
		if i > 0 && eff[i].l < eff[i-1].l {
			unsorted = true
		}
		for j := range eff {
			if i == j {
				continue
			}
			a, b := eff[i], eff[j]
			switch {
			case a == b:
				up("duplicate")
			case a.l <= b.l && b.r <= a.r:
				up("nested")
			case a.l <= b.r && b.l <= a.r:
				up("overlap")
			case a.r+1 == b.l:
				up("adjacent")
			}
		}
	}
	if unsorted {
		c += "+unsorted"
	}
	if ignored {
		c += "+ignored"
	}
	return c
}

// ---- prefixes, configurations -----------------------------------------------------------

var prefixAtoms = []string{"a", "ab", "abc", "abd", "user:", "user:1", "us", "{", "{t", "{tag}", "é", "éa", "日本", "日",
	"redis", "redis-gunyu", "/redis", "k", "k1", " ", "\x00", "A"}

// GenPrefixList: 0..5 entries with shared prefixes, multi-byte UTF-8 and, rarely, the empty
// string (kind "empty"), U+FFFD or a byte sequence that is not valid UTF-8 (kind "binary").
func GenPrefixList(rng *rand.Rand, allowOdd bool) []string {
	n := rng.Intn(6)
	if rng.Intn(3) == 0 {
		n = 0
	}
	var out []string
	for i := 0; i < n; i++ {
		p := prefixAtoms[rng.Intn(len(prefixAtoms))]
		if rng.Intn(4) == 0 {
			p += prefixAtoms[rng.Intn(len(prefixAtoms))]
		}
		if allowOdd {
			switch rng.Intn(40) {
			case 0:
				p = ""
			case 1:
				p = "\uFFFD" + p
			case 2:
				p = p + "\xff"
			case 3:
				p = "\xc3"
			}
		}
		out = append(out, p)
	}
	return out
}

var cmdBlackPool = []string{"del", "DEL", "flushall", "set", "Expire", "hset", "mset", "eval", "PUBLISH", "unlink", "zadd", "rename"}

// BookkeepingPrefixes must be given by the caller (config.CheckpointKey, config.NamespacePrefixKey)
// so that this package stays independent of the repository.
func GenFilterConfig(rng *rand.Rand, bookkeeping []string) FilterConfig {
	c := FilterConfig{Bookkeeping: bookkeeping}
	for i, n := 0, rng.Intn(4); i < n; i++ {
		c.CmdBlacklist = append(c.CmdBlacklist, cmdBlackPool[rng.Intn(len(cmdBlackPool))])
	}
	for i, n := 0, rng.Intn(3); i < n; i++ {
		c.DbBlacklist = append(c.DbBlacklist, rng.Intn(16))
	}
	switch rng.Intn(4) {
	case 0:
		c.PrefixWhite = GenPrefixList(rng, true)
	case 1:
		c.PrefixBlack = GenPrefixList(rng, true)
	case 2:
		c.PrefixWhite = GenPrefixList(rng, true)
		c.PrefixBlack = GenPrefixList(rng, true)
	}
	pick := func() [][]uint16 { return GenRanges(rng, rng.Intn(len(RangeShapes))) }
	switch rng.Intn(5) {
	case 0:
		c.SlotWhite = pick()
	case 1:
		c.SlotBlack = pick()
	case 2:
		c.SlotWhite = pick()
		c.SlotBlack = pick()
	}
	return c
}

// ---- keys -------------------------------------------------------------------------------

// GenKey draws a key that is likely to be interesting for the configuration: starting with a
// configured or bookkeeping prefix, a proper prefix of one, carrying hash tags of all shapes,
// arbitrary bytes including invalid UTF-8.
func GenKey(rng *rand.Rand, c *FilterConfig) []byte {
	var base []byte
	all := append(append(append([]string{}, c.PrefixWhite...), c.PrefixBlack...), c.Bookkeeping...)
	switch k := rng.Intn(10); {
	case k < 4 && len(all) > 0:
		p := all[rng.Intn(len(all))]
		switch rng.Intn(6) {
		case 0: // proper prefix of a configured prefix
			if len(p) > 1 {
				p = p[:1+rng.Intn(len(p)-1)]
			}
		case 1: // same rune count, last byte replaced by an invalid byte
			if len(p) > 0 {
				p = p[:len(p)-1] + string([]byte{0xfe})
			}
		}
		base = []byte(p)
	case k < 6:
		base = []byte(prefixAtoms[rng.Intn(len(prefixAtoms))])
	}
	base = append(base, BraceString(rng, 1+rng.Intn(10))...)
	return base
}

var braceAlphabet = []byte{'{', '}', '{', '}', 'a', 'b', 'x', ':', 0x00, 0xff, 0xc3, 0xa9, '1'}

// BraceString: n bytes from a brace-dense alphabet, or one of the canonical tricky shapes.
func BraceString(rng *rand.Rand, n int) []byte {
	if rng.Intn(3) == 0 {
		shapes := []string{"{}{x}", "{{x}}", "}{", "{a}{b}", "{a", "a}", "x{t}", "{t}x", "{}", "{}{}", "a{}{b}c", "{a}{}", "}{a}", "{a}}{b}", "{a{b}", "é{日}", "{\xff}", "\xff{a}\xfe{b}"}
		s := shapes[rng.Intn(len(shapes))]
		return []byte(s + fmt.Sprint(rng.Intn(50)))
	}
	b := make([]byte, n)
	for i := range b {
		b[i] = braceAlphabet[rng.Intn(len(braceAlphabet))]
	}
	return b
}

// ---- commands ---------------------------------------------------------------------------

// Benign non-key argument pool: never a keyword of the option grammars of SORT / GEORADIUS /
// XREADGROUP (the quantifier is over keys and configurations, not over hostile option text).
var benign = []string{"1", "10", "0", "v", "field", "value", "NX", "XX", "EX", "100", "3.5", "m", "\x00\r\n$3", "*2\r\n", ""}

func benignArg(rng *rand.Rand) []byte { return []byte(benign[rng.Intn(len(benign))]) }

// GenCommand builds a well-formed instance of cmd (lower case, from Commands()) whose keys
// come from key().  It returns the arguments (without the command name).
func GenCommand(rng *rand.Rand, cmd string, key func() []byte) [][]byte {
	b := func(s string) []byte { return []byte(s) }
	nk := 1 + rng.Intn(5)
	keys := func(n int) [][]byte {
		out := make([][]byte, n)
		for i := range out {
			out[i] = key()
		}
		return out
	}
	extras := func(max int) [][]byte {
		var out [][]byte
		for i, n := 0, rng.Intn(max+1); i < n; i++ {
			out = append(out, benignArg(rng))
		}
		return out
	}
	var args [][]byte
	sp, fixed := fixedSpecs[cmd]
	if !fixed {
		sp, fixed = moduleSpecs[cmd]
	}
	if fixed {
		switch {
		case sp == one:
			args = append(keys(1), extras(4)...)
		case sp == keySpec{1, 2, 1}:
			args = append(keys(2), extras(2)...)
		case sp == keySpec{1, -1, 1}:
			args = keys(nk)
		case sp == keySpec{1, -2, 1}:
			args = append(keys(nk), b("0"))
		case sp == keySpec{2, -1, 1}: // BITOP op dest src...
			args = append([][]byte{b([]string{"AND", "OR", "XOR", "NOT"}[rng.Intn(4)])}, keys(1+nk)...)
		case sp.step > 1: // MSET / MSETNX / JSON.MSET
			for i := 0; i < nk; i++ {
				args = append(args, key())
				for j := 1; j < sp.step; j++ {
					if rng.Intn(4) == 0 {
						args = append(args, key()) // a value that looks like a key
					} else {
						args = append(args, b(fmt.Sprintf("val%d", rng.Intn(1000))))
					}
				}
			}
		}
		return args
	}
	num := b(fmt.Sprint(nk))
	switch cmd {
	case "eval", "evalsha", "fcall", "eval_ro", "evalsha_ro", "fcall_ro":
		if rng.Intn(6) == 0 {
			nk = 0
			num = b("0")
		}
		args = append([][]byte{b("return 1"), num}, keys(nk)...)
		args = append(args, extras(3)...)
	case "zunionstore", "zinterstore", "zdiffstore":
		args = append([][]byte{key(), num}, keys(nk)...)
		if cmd != "zdiffstore" && rng.Intn(2) == 0 {
			args = append(args, b("WEIGHTS"))
			for i := 0; i < nk; i++ {
				args = append(args, b("2"))
			}
		}
	case "zmpop", "lmpop":
		args = append([][]byte{num}, keys(nk)...)
		args = append(args, b(map[string]string{"zmpop": "MIN", "lmpop": "LEFT"}[cmd]))
	case "bzmpop", "blmpop":
		args = append([][]byte{b("0"), num}, keys(nk)...)
		args = append(args, b(map[string]string{"bzmpop": "MAX", "blmpop": "RIGHT"}[cmd]))
	case "msetex":
		args = [][]byte{num}
		for i := 0; i < nk; i++ {
			args = append(args, key(), b(fmt.Sprintf("val%d", rng.Intn(1000))))
		}
		if rng.Intn(2) == 0 {
			args = append(args, b("EX"), b("100"))
		}
	case "sort":
		args = [][]byte{key()}
		switch rng.Intn(4) {
		case 0:
			args = append(args, b("BY"), b("nosort"))
		case 1:
			args = append(args, b("BY"), b("weight_*"))
		}
		if rng.Intn(2) == 0 {
			args = append(args, b("LIMIT"), b("0"), b("10"))
		}
		if rng.Intn(3) == 0 {
			args = append(args, b("GET"), b("#"))
		}
		if rng.Intn(2) == 0 {
			args = append(args, b("ALPHA"))
		}
		args = append(args, b("STORE"), key()) // without STORE the command is never propagated
	case "georadius", "georadiusbymember":
		if cmd == "georadius" {
			args = [][]byte{key(), b("13.36"), b("38.11"), b("200"), b("km")}
		} else {
			args = [][]byte{key(), b("member"), b("200"), b("km")}
		}
		if rng.Intn(2) == 0 {
			args = append(args, b("COUNT"), b("5"))
		}
		if rng.Intn(2) == 0 {
			args = append(args, b("ASC"))
		}
		args = append(args, b([]string{"STORE", "STOREDIST", "store"}[rng.Intn(3)]), key())
	case "xgroup":
		sub := []string{"CREATE", "SETID", "DESTROY", "CREATECONSUMER", "DELCONSUMER", "create"}[rng.Intn(6)]
		args = [][]byte{b(sub), key(), b("grp")}
		switch strings.ToUpper(sub) {
		case "CREATE", "SETID":
			args = append(args, b("$"))
		case "CREATECONSUMER", "DELCONSUMER":
			args = append(args, b("consumer"))
		}
	case "xreadgroup", "xread":
		if cmd == "xreadgroup" {
			args = [][]byte{b("GROUP"), b("grp"), b("consumer")}
		}
		if rng.Intn(2) == 0 {
			args = append(args, b("COUNT"), b("10"))
		}
		args = append(args, b("STREAMS"))
		args = append(args, keys(nk)...)
		for i := 0; i < nk; i++ {
			args = append(args, b(">"))
		}
	default:
		panic("ref.GenCommand: no template for " + cmd)
	}
	return args
}

// CmdShape is a coarse label of a command's key layout for distinct-case signatures.
func CmdShape(cmd string) string {
	lc := strings.ToLower(cmd)
	switch lc {
	case "del", "unlink", "mset":
		return lc
	}
	sp, ok := fixedSpecs[lc]
	if !ok {
		sp, ok = moduleSpecs[lc]
	}
	if !ok {
		return "special:" + lc
	}
	return fmt.Sprintf("spec(%d,%d,%d)", sp.first, sp.last, sp.step)
}
