package ref

import (
	"math/rand"
	"reflect"
	"testing"
)

func TestCRC16CheckValue(t *testing.T) {
	if got := CRC16([]byte("123456789")); got != 0x31C3 {
		t.Fatalf("CRC16 check value: got %#x want 0x31c3", got)
	}
	if CRC16(nil) != 0 {
		t.Fatal("CRC16 of empty input must be 0")
	}
}

func TestCRC64CheckValue(t *testing.T) {
	if got := CRC64Jones([]byte("123456789")); got != 0xe9c6d914c4b8d9ca {
		t.Fatalf("CRC64 check value: got %#x", got)
	}
	// incremental == one-shot
	if CRC64JonesUpdate(CRC64Jones([]byte("12345")), []byte("6789")) != 0xe9c6d914c4b8d9ca {
		t.Fatal("incremental crc64 differs")
	}
}

func TestHashSlotSpecExamples(t *testing.T) {
	// well-known values (redis-cli CLUSTER KEYSLOT)
	for k, want := range map[string]int{"foo": 12182, "bar": 5061, "hello": 866, "": 0, "123456789": 0x31C3 % 16384} {
		if got := HashSlot([]byte(k)); got != want {
			t.Errorf("HashSlot(%q) = %d want %d", k, got, want)
		}
	}
	same := func(a, b string) {
		if HashSlot([]byte(a)) != HashSlot([]byte(b)) {
			t.Errorf("HashSlot(%q) != HashSlot(%q)", a, b)
		}
	}
	// examples of the cluster specification
	same("{user1000}.following", "{user1000}.followers")
	same("{user1000}.following", "user1000")
	same("foo{}{bar}", "foo{}{bar}") // whole key ...
	if string(HashTag([]byte("foo{}{bar}"))) != "foo{}{bar}" {
		t.Error("foo{}{bar}: whole key must be hashed")
	}
	if string(HashTag([]byte("foo{{bar}}zap"))) != "{bar" {
		t.Error("foo{{bar}}zap: {bar must be hashed")
	}
	if string(HashTag([]byte("foo{bar}{zap}"))) != "bar" {
		t.Error("foo{bar}{zap}: bar must be hashed")
	}
	if string(HashTag([]byte("foo{bar"))) != "foo{bar" || string(HashTag([]byte("foo}bar{"))) != "foo}bar{" {
		t.Error("unterminated tags: whole key")
	}
	if string(HashTag([]byte("}{a}"))) != "a" {
		t.Error("}{a}: a")
	}
	same("foo{bar}{zap}", "bar")
	same("foo{{bar}}zap", "{bar")
}

func TestKeyClass(t *testing.T) {
	for k, want := range map[string]string{
		"foo": "no-brace", "foo{": "open-only", "foo}{": "open-only", "{}": "empty-first-tag",
		"foo{}{bar}": "empty-first-tag+later-pair", "{a}": "one-tag", "x{a}y": "one-tag",
		"{a}{b}": "two-tags|first-nonempty+later-pair", "{{bar}}": "two-tags|first-nonempty+nested-open",
		"{a}{": "two-tags|first-nonempty", "{a{b}": "two-tags|first-nonempty+nested-open",
	} {
		if got := KeyClass([]byte(k)); got != want {
			t.Errorf("KeyClass(%q) = %q want %q", k, got, want)
		}
	}
}

func TestKeyForSlot(t *testing.T) {
	ks := KeyForSlot()
	for s, k := range ks {
		if k == "" || HashSlot([]byte(k)) != s {
			t.Fatalf("slot %d: key %q", s, k)
		}
	}
}

func bs(ss ...string) [][]byte {
	out := make([][]byte, len(ss))
	for i, s := range ss {
		out[i] = []byte(s)
	}
	return out
}

func TestKeyIndexes(t *testing.T) {
	type tc struct {
		cmd  string
		args []string
		want []int
		ok   bool
	}
	for _, c := range []tc{
		{"SET", []string{"k", "v"}, []int{0}, true},
		{"set", []string{}, nil, false},
		{"MSET", []string{"a", "1", "b", "2"}, []int{0, 2}, true},
		{"MSET", []string{"a", "1", "b"}, nil, false},
		{"MSETNX", []string{"a", "1"}, []int{0}, true},
		{"DEL", []string{"a", "b", "c"}, []int{0, 1, 2}, true},
		{"UNLINK", []string{"a"}, []int{0}, true},
		{"EXISTS", []string{"a", "b"}, []int{0, 1}, true},
		{"BITOP", []string{"AND", "dst", "s1", "s2"}, []int{1, 2, 3}, true},
		{"ZUNIONSTORE", []string{"dst", "2", "a", "b", "WEIGHTS", "1", "2"}, []int{0, 2, 3}, true},
		{"ZINTERSTORE", []string{"dst", "3", "a", "b"}, nil, false},
		{"EVAL", []string{"script", "2", "a", "b", "arg"}, []int{2, 3}, true},
		{"EVALSHA", []string{"sha", "0", "arg"}, nil, true},
		{"EVAL", []string{"script", "x"}, nil, false},
		{"XADD", []string{"s", "*", "f", "v"}, []int{0}, true},
		{"RENAME", []string{"a", "b"}, []int{0, 1}, true},
		{"SMOVE", []string{"a", "b", "m"}, []int{0, 1}, true},
		{"BLPOP", []string{"a", "b", "0"}, []int{0, 1}, true},
		{"LMPOP", []string{"2", "a", "b", "LEFT"}, []int{1, 2}, true},
		{"BLMPOP", []string{"0", "1", "a", "LEFT"}, []int{2}, true},
		{"SORT", []string{"k", "BY", "w_*", "LIMIT", "0", "5", "STORE", "d"}, []int{0, 7}, true},
		{"SORT", []string{"k"}, []int{0}, true},
		{"GEORADIUS", []string{"k", "1", "2", "3", "km", "COUNT", "5", "STOREDIST", "d"}, []int{0, 8}, true},
		{"GEORADIUSBYMEMBER", []string{"k", "store", "3", "km", "STORE", "d"}, []int{0, 5}, true},
		{"XGROUP", []string{"CREATE", "s", "g", "$"}, []int{1}, true},
		{"XGROUP", []string{"HELP"}, nil, false},
		{"XREADGROUP", []string{"GROUP", "g", "c", "COUNT", "1", "STREAMS", "a", "b", ">", ">"}, []int{6, 7}, true},
		{"JSON.MSET", []string{"a", "$", "1", "b", "$", "2"}, []int{0, 3}, true},
		{"MSETEX", []string{"2", "a", "1", "b", "2", "EX", "10"}, []int{1, 3}, true},
		{"PFMERGE", []string{"d", "a", "b"}, []int{0, 1, 2}, true},
		{"GET", []string{"a"}, nil, false},
	} {
		got, ok := KeyIndexes(c.cmd, bs(c.args...))
		if ok != c.ok || !reflect.DeepEqual(got, c.want) {
			t.Errorf("%s %q: got %v,%v want %v,%v", c.cmd, c.args, got, ok, c.want, c.ok)
		}
	}
}

func TestGenCommandsWellFormed(t *testing.T) {
	rng := rand.New(rand.NewSource(1))
	n := 0
	key := func() []byte { n++; return []byte{'K', byte('a' + n%26), byte(n)} }
	for _, cmd := range Commands() {
		for i := 0; i < 50; i++ {
			args := GenCommand(rng, cmd, key)
			idx, ok := KeyIndexes(cmd, args)
			if !ok {
				t.Fatalf("%s %q: generated command not well-formed for the reference", cmd, args)
			}
			for _, k := range idx {
				if len(args[k]) != 3 || args[k][0] != 'K' {
					t.Fatalf("%s %q: index %d is not a generated key", cmd, args, k)
				}
			}
			// every generated key is found
			cnt := 0
			for _, a := range args {
				if len(a) == 3 && a[0] == 'K' {
					cnt++
				}
			}
			// MSET-like values may be drawn from key(): they are not keys
			if cnt < len(idx) {
				t.Fatalf("%s: more indexes than keys", cmd)
			}
		}
	}
}

func TestFilterStatement(t *testing.T) {
	f := NewFilter(FilterConfig{
		CmdBlacklist: []string{"FlushAll"}, DbBlacklist: []int{3},
		PrefixWhite: []string{"user:", "sess"}, PrefixBlack: []string{"user:tmp"},
		Bookkeeping: []string{"redis-gunyu-checkpoint"},
		SlotBlack:   [][]uint16{{12182}}, // "foo"
	})
	if !f.CmdRejected("flushall") || f.CmdRejected("set") || !f.DbRejected(3) || f.DbRejected(0) {
		t.Fatal("cmd/db rules")
	}
	for k, rej := range map[string]bool{"user:1": false, "user:tmp1": true, "other": true, "sess{foo}": true,
		"sess{bar}": false, "redis-gunyu-checkpoint-x": true, "use": true} {
		if f.KeyRejected([]byte(k)) != rej {
			t.Errorf("KeyRejected(%q) != %v", k, rej)
		}
	}
	out, fwd, judged := f.Command(0, "DEL", bs("user:1", "other", "user:2"))
	if !fwd || !judged || !reflect.DeepEqual(out, bs("user:1", "user:2")) {
		t.Errorf("DEL projection: %q %v", out, fwd)
	}
	out, fwd, _ = f.Command(0, "mset", bs("user:1", "a", "other", "b", "sess1", "c"))
	if !fwd || !reflect.DeepEqual(out, bs("user:1", "a", "sess1", "c")) {
		t.Errorf("MSET projection: %q %v", out, fwd)
	}
	if _, fwd, _ = f.Command(0, "rename", bs("user:1", "other")); fwd {
		t.Error("RENAME with a rejected key must be withheld")
	}
	if _, fwd, _ = f.Command(0, "del", bs("other")); fwd {
		t.Error("DEL with only rejected keys must be withheld")
	}
	if _, fwd, _ = f.Command(3, "set", bs("user:1", "v")); fwd {
		t.Error("db blacklist")
	}
	if _, fwd, _ = f.Command(0, "msetnx", bs("user:1", "a", "other", "b")); fwd {
		t.Error("MSETNX is not projected")
	}
	// union semantics for nested / unsorted ranges
	u := Union([][]uint16{{10, 20}, {0, 1000}, {30, 40}, {5000, 4000}, {7}, {1, 2, 3}})
	for s, want := range map[int]bool{0: true, 500: true, 1000: true, 1001: false, 4500: false, 7: true} {
		if u[s] != want {
			t.Errorf("union[%d] = %v", s, u[s])
		}
	}
	// white list made only of ignored entries: configured, empty union, rejects everything
	g := NewFilter(FilterConfig{SlotWhite: [][]uint16{{9, 1}}})
	if !g.SlotRejected([]byte("foo")) {
		t.Error("configured-but-empty white list rejects")
	}
}

func TestClassifyRanges(t *testing.T) {
	for _, c := range []struct {
		r    [][]uint16
		want string
	}{
		{nil, "absent"}, {[][]uint16{{5, 1}}, "empty+ignored"},
		{[][]uint16{{0, 10}, {20, 30}}, "disjoint"}, {[][]uint16{{20, 30}, {0, 10}}, "disjoint+unsorted"},
		{[][]uint16{{0, 10}, {11, 30}}, "adjacent"}, {[][]uint16{{0, 10}, {5, 30}}, "overlap"},
		{[][]uint16{{0, 100}, {5, 30}}, "nested"}, {[][]uint16{{5, 30}, {5, 30}}, "duplicate"},
		{[][]uint16{{5, 30}, {5, 10}}, "nested"},
	} {
		if got := ClassifyRanges(c.r); got != c.want {
			t.Errorf("%v: %q want %q", c.r, got, c.want)
		}
	}
	rng := rand.New(rand.NewSource(2))
	for sh := range RangeShapes {
		for i := 0; i < 200; i++ {
			r := GenRanges(rng, sh)
			c := ClassifyRanges(r)
			switch RangeShapes[sh] {
			case "nested", "same-left":
				if RangeShapes[sh] == "nested" && c[:6] != "nested" {
					t.Fatalf("shape nested classified %s: %v", c, r)
				}
			case "overlap-chain":
				if len(r) > 1 && c[:7] != "overlap" {
					t.Fatalf("shape overlap-chain classified %s: %v", c, r)
				}
			case "disjoint-sorted":
				if c != "disjoint" && c != "adjacent" {
					t.Fatalf("shape disjoint-sorted classified %s: %v", c, r)
				}
			}
		}
	}
}
