package ref

// CRC64Jones is the CRC-64 used by Redis (crc64.c): Jones polynomial 0xad93d23594c935a9,
// width 64, init 0, reflected input and output, xorout 0.
// Check value CRC64Jones("123456789") = 0xe9c6d914c4b8d9ca.
//
// Bit-wise, reflected form: the register is shifted right and the *bit-reversed* polynomial
// is xor-ed in.
func CRC64Jones(data []byte) uint64 {
	return CRC64JonesUpdate(0, data)
}

// CRC64JonesUpdate continues a running CRC (Redis computes the RDB checksum incrementally).
func CRC64JonesUpdate(crc uint64, data []byte) uint64 {
	const poly = 0xad93d23594c935a9
	rpoly := reverse64(poly)
	for _, b := range data {
		crc ^= uint64(b)
		for i := 0; i < 8; i++ {
			if crc&1 != 0 {
				crc = crc>>1 ^ rpoly
			} else {
				crc >>= 1
			}
		}
	}
	return crc
}

func reverse64(v uint64) uint64 {
	var r uint64
	for i := 0; i < 64; i++ {
		r = r<<1 | v&1
		v >>= 1
	}
	return r
}
