// Package ref holds independent reference oracles written from the published specifications
// (Redis Cluster specification, Redis command reference, Redis crc64.c description), never
// from the code under test.  Everything here is deliberately slow and obvious: bit-wise CRCs,
// linear scans, bitmaps.
package ref

// Slots is the number of Redis Cluster hash slots.
const Slots = 16384

// CRC16 is CRC-16/XMODEM: width 16, poly 0x1021, init 0x0000, no reflection, xorout 0.
// Check value CRC16("123456789") = 0x31C3 (Redis Cluster specification, appendix A).
func CRC16(data []byte) uint16 {
	var crc uint16
	for _, b := range data {
		crc ^= uint16(b) << 8
		for i := 0; i < 8; i++ {
			if crc&0x8000 != 0 {
				crc = crc<<1 ^ 0x1021
			} else {
				crc <<= 1
			}
		}
	}
	return crc
}

// HashTag returns the part of key that Redis Cluster hashes (cluster spec, "Hash tags"):
// if the key contains a '{', and there is a '}' to the right of the FIRST '{', and there are
// one or more bytes between the first '{' and the first '}' to its right, only those bytes
// are hashed; otherwise the whole key.
func HashTag(key []byte) []byte {
	s := -1
	for i, b := range key {
		if b == '{' {
			s = i
			break
		}
	}
	if s < 0 {
		return key
	}
	e := -1
	for i := s + 1; i < len(key); i++ {
		if key[i] == '}' {
			e = i
			break
		}
	}
	if e < 0 || e == s+1 {
		return key
	}
	return key[s+1 : e]
}

// HashSlot is HASH_SLOT = CRC16(hashtag(key)) mod 16384.
func HashSlot(key []byte) int {
	return int(CRC16(HashTag(key))) % Slots
}

// KeyClass is a structural classification of a key with respect to hash tags; it is used in
// distinct-case and violation signatures (never in the oracle itself).
//
//	no-brace            no '{' at all
//	open-only           a '{' but no '}' after the first '{'
//	empty-first-tag     first '{' immediately followed by '}'  ("{}…"): whole key is hashed
//	one-tag             exactly one '{' and a non-empty tag
//	two-tags|first-nonempty   several '{' , the first tag is non-empty
//
// suffixes: "+later-pair" when another "{…}" pair exists to the right of the first '{'
// (an implementation that takes the last pair diverges there), "+nested-open" when the tag
// itself contains a '{' ("{{bar}}").
func KeyClass(key []byte) string {
	nOpen := 0
	first := -1
	for i, b := range key {
		if b == '{' {
			nOpen++
			if first < 0 {
				first = i
			}
		}
	}
	if nOpen == 0 {
		return "no-brace"
	}
	e := -1
	for i := first + 1; i < len(key); i++ {
		if key[i] == '}' {
			e = i
			break
		}
	}
	// is there a later '{' that has a '}' somewhere to its right?
	laterPair := false
	for i := first + 1; i < len(key) && !laterPair; i++ {
		if key[i] == '{' {
			for k := i + 1; k < len(key); k++ {
				if key[k] == '}' {
					laterPair = true
					break
				}
			}
		}
	}
	var c string
	switch {
	case e < 0:
		return "open-only"
	case e == first+1:
		c = "empty-first-tag"
	case nOpen == 1:
		c = "one-tag"
	default:
		c = "two-tags|first-nonempty"
	}
	if laterPair {
		nested := false
		for i := first + 1; i < e; i++ {
			if key[i] == '{' {
				nested = true
			}
		}
		if nested {
			c += "+nested-open"
		} else {
			c += "+later-pair"
		}
	}
	return c
}

// KeyForSlot returns, for every slot, a brace-free printable key that hashes to it
// ("k<n>" for the smallest n).  Deterministic; used for 16384-slot sweeps.
func KeyForSlot() [Slots]string {
	var out [Slots]string
	remaining := Slots
	buf := make([]byte, 0, 16)
	for n := 0; remaining > 0; n++ {
		buf = append(buf[:0], 'k')
		buf = appendUint(buf, n)
		s := HashSlot(buf)
		if out[s] == "" {
			out[s] = string(buf)
			remaining--
		}
	}
	return out
}

func appendUint(b []byte, n int) []byte {
	if n == 0 {
		return append(b, '0')
	}
	var tmp [20]byte
	i := len(tmp)
	for n > 0 {
		i--
		tmp[i] = byte('0' + n%10)
		n /= 10
	}
	return append(b, tmp[i:]...)
}
