package fullsync

import (
	"bytes"
	"context"
	"encoding/binary"
	"fmt"
	"github.com/mgtv-tech/redis-GunYu/syncer"
	"math/rand"
	"sort"
	"strings"
	"time"

	"verif/internal/drive"
	"verif/internal/fakeredis"
	"verif/internal/rdbx"

	"github.com/mgtv-tech/redis-GunYu/config"
	"github.com/mgtv-tech/redis-GunYu/pkg/rdb"
	"github.com/mgtv-tech/redis-GunYu/pkg/redis/checkpoint"
	"github.com/mgtv-tech/redis-GunYu/pkg/redis/client"
)

// Scenario is one snapshot replay.
type Scenario struct {
	Key    string
	DS     []rdbx.Key
	FO     rdbx.FileOptions
	File   []byte
	Ser    []rdbx.Serialized
	Offset int64

	Restore       bool
	MaxBulk       int
	Parallel      int
	PipeSize      int
	TargetVersion string
	TargetDb      int
	DbMap         map[int]int
	DbBlack       []int
	PrefixBlack   []string
	Chunk         int // value-chunking threshold in bytes (0 = production default)
	KeyExists     string
	// PolicyGiven, when set, is the keyExists value handed to the output (what the tool's
	// configuration loader made of the operator's YAML); KeyExists stays the intended policy
	PolicyGiven *string
	// CancelAtByte > 0: the replay context is cancelled at the moment the tool's reader has taken
	// that many snapshot bytes (the rest is handed out as usual)
	CancelAtByte int
	Bisync        bool
	BisyncMode    string // replay mode of a bisync scenario: "" / sync, pipeline, parallel
	Prime         bool   // an earlier, completed (empty) snapshot at a lower offset left a root checkpoint, and the instance has looked it up once
	PlanStyle     int

	Pre []fakeredis.DB // prior target contents (nil = empty)
}

func (s *Scenario) String() string {
	return fmt.Sprintf("restore=%v maxbulk=%d parallel=%d pipe=%d target=%s tdb=%d map=%v dbblack=%v prefixblack=%v chunk=%d policy=%s bisync=%v rdbver=%d keys=%d bytes=%d",
		s.Restore, s.MaxBulk, s.Parallel, s.PipeSize, s.TargetVersion, s.TargetDb, s.DbMap, s.DbBlack, s.PrefixBlack, s.Chunk, s.KeyExists, s.Bisync, s.FO.Version, len(s.DS), len(s.File))
}

func (s *Scenario) MapDB(src int) int {
	if s.TargetDb != -1 {
		return s.TargetDb
	}
	if t, ok := s.DbMap[src]; ok {
		return t
	}
	return src
}

// Filtered reports whether the reference rules configure key k out.
func (s *Scenario) Filtered(k *rdbx.Key) bool {
	for _, d := range s.DbBlack {
		if d == k.DB {
			return true
		}
	}
	for _, p := range s.PrefixBlack {
		if bytes.HasPrefix(k.Key, []byte(p)) {
			return true
		}
	}
	return drive.Reserved(k.Key)
}

// Outcome of a replay.
type Outcome struct {
	Err      error
	Returned bool
	Slow     bool // not returned after 15 min but still making progress (inconclusive, not a hang)
	Final    []fakeredis.DB
	Apps     []fakeredis.App
	Reqs     []fakeredis.Req
	T0, T1   int64 // wall ms around Send
	CpWrites []int64
	RunID    string
	// what the SAME instance answers when it is asked for the start point after Send returned
	// (RedisInput.Run re-uses its output: StartPoint → Send → StartPoint → …); nil if that failed
	AfterSP *syncer.StartPoint
}

var defaultChunk = -1

// ChunkOf derives the value-chunking threshold of a case from its key ("case-N"): the threshold
// is a process-global of the tool, so all cases of one worker process share it (see
// harness.ShardOptions.Group).  0 = production default (16 MiB, no chunking at these sizes).
func ChunkOf(key string) int {
	n := 0
	for _, c := range key {
		if c >= '0' && c <= '9' {
			n = n*10 + int(c-'0')
		}
	}
	switch n % 8 {
	case 1:
		return 1024
	case 3:
		return 2048
	case 5:
		return 4096
	}
	return 0
}

// Run replays the scenario's snapshot through a fresh RedisOutput into a fresh double.
// hooks (optional) can install fault injection on the double before the replay starts and
// receives the cancel function of the replay context.
func Run(sc *Scenario, hooks func(srv *fakeredis.Server, cancel context.CancelFunc, f *drive.Feeder)) (*Outcome, string) {
	if defaultChunk < 0 {
		// set once per process, before any parser goroutine exists
		defaultChunk = sc.Chunk
		if sc.Chunk > 0 {
			rdb.VerifSetMaxBinEntryBuffer(sc.Chunk)
		}
	} else if defaultChunk != sc.Chunk {
		return nil, "chunk threshold differs from the one this process was started with"
	}
	if sc.PipeSize > 0 {
		config.RdbPipeSize = sc.PipeSize
	} else {
		config.RdbPipeSize = 1024
	}
	srv := fakeredis.MustStart(fakeredis.Options{Version: sc.TargetVersion, RestoreDecoder: RestoreDecoder(sc.TargetVersion)})
	defer srv.Close()
	if sc.Pre != nil {
		srv.Load(sc.Pre)
	}
	runID := fmt.Sprintf("%040x", rand.New(rand.NewSource(int64(len(sc.File))+sc.Offset)).Uint64())
	ids := []string{runID, strings.Repeat("0", 40)}
	cfg := drive.OutputConfig(srv.Addr(), runID)
	cfg.Redis.Version = sc.TargetVersion
	cfg.ReplayRdbEnableRestore = sc.Restore
	cfg.MaxProtoBulkLen = sc.MaxBulk
	cfg.ReplayRdbParallel = sc.Parallel
	cfg.TargetDb = sc.TargetDb
	cfg.TargetDbMap = sc.DbMap
	cfg.KeyExists = sc.KeyExists
	if sc.PolicyGiven != nil {
		cfg.KeyExists = *sc.PolicyGiven
	}
	cfg.BisyncEnabled = sc.Bisync
	cfg.Filter = config.FilterConfig{DbBlacklist: sc.DbBlack}
	if len(sc.PrefixBlack) > 0 {
		cfg.Filter.KeyFilter = &config.FilterKeyConfig{PrefixKeyBlacklist: sc.PrefixBlack}
	}
	if sc.Bisync {
		// what syncer.newOutput does for bisync: resolve (or create) the bisync namespace and use
		// it as the checkpoint name; replay mode sync (the snapshot path is the same in all modes)
		cli, err := client.NewRedis(cfg.Redis)
		if err != nil {
			return nil, "bisync namespace: " + err.Error()
		}
		name, err := checkpoint.ResolveOrCreateBisyncCheckpointName(cli, ids)
		cli.Close()
		if err != nil {
			return nil, "bisync namespace: " + err.Error()
		}
		cfg.CheckpointName = name
		cfg.ReplayMode = config.ReplayModeSync
		switch sc.BisyncMode {
		case "pipeline":
			cfg.ReplayMode = config.ReplayModePipeline
			cfg.ReplayPipeline = true
		case "parallel":
			cfg.ReplayMode = config.ReplayModeParallel
		}
	}
	ss, err := drive.NewSession(cfg, ids)
	if err != nil {
		return nil, "session: " + err.Error()
	}
	ctx, cancel := context.WithCancel(context.Background())
	defer cancel()
	if _, err := ss.Out.StartPoint(ctx, ids); err != nil {
		return nil, "startpoint: " + err.Error()
	}
	if sc.Prime {
		prime := sc.Offset - 1000
		if prime < 1 {
			prime = 1
		}
		if err := ss.FullSync(ctx, drive.EmptyRDB, prime); err != nil {
			return nil, "priming full sync: " + err.Error()
		}
		if sp, err := ss.Out.StartPoint(ctx, ids); err != nil || sp.Offset != prime {
			return nil, fmt.Sprintf("start point after the priming full sync: %+v %v", sp, err)
		}
	}
	n0 := len(srv.Applied())
	r0 := len(srv.Requests())
	f := drive.NewFeeder(runID, sc.Offset, int64(len(sc.File)), false, 4096)
	rng := rand.New(rand.NewSource(int64(len(sc.File)) * 7919))
	if b := sc.CancelAtByte; b > 0 && b < len(sc.File) {
		f.Play([]drive.Step{{Data: sc.File[:b], Then: cancel}, {Data: sc.File[b:]}}, true)
	} else {
		f.Play(drive.Plan(rng, sc.File, 0, sc.PlanStyle), true)
	}
	defer f.Abort()
	if hooks != nil {
		hooks(srv, cancel, f)
	}
	out := &Outcome{RunID: runID}
	out.T0 = time.Now().UnixMilli()
	done := make(chan error, 1)
	go func() { done <- ss.Out.Send(ctx, f) }()
	// A replay that has not returned after 75 s is either slow (large values, loaded machine) or
	// hung.  That is decided on logical progress, not on the clock: as long as the double keeps
	// receiving requests or the feeder keeps handing out bytes the replay is alive and is waited
	// for (up to 15 min); two consecutive 3 s windows without any progress = hung.
	wait := 75 * time.Second
	idle := 0
	startWait := time.Now()
waitLoop:
	for {
		select {
		case err := <-done:
			out.Err = err
			out.Returned = true
			break waitLoop
		case <-time.After(wait):
		}
		seq1, h1 := srv.Seq(), f.Handed()
		select {
		case err := <-done:
			out.Err = err
			out.Returned = true
			break waitLoop
		case <-time.After(3 * time.Second):
		}
		if srv.Seq() == seq1 && f.Handed() == h1 {
			idle++
		} else {
			idle = 0
		}
		if idle >= 2 {
			out.Returned = false // hung: no request and no byte consumed for two windows
			break
		}
		if time.Since(startWait) > 15*time.Minute {
			out.Returned = false
			out.Slow = true // still progressing: inconclusive, not a hang
			break
		}
		wait = 3 * time.Second
	}
	out.T1 = time.Now().UnixMilli()
	if out.Returned {
		spCtx, spCancel := context.WithTimeout(context.Background(), 20*time.Second)
		if sp, err := ss.Out.StartPoint(spCtx, ids); err == nil {
			out.AfterSP = &sp
		}
		spCancel()
	}
	out.Final = srv.Snapshot()
	out.Apps = srv.Applied()[n0:]
	out.Reqs = srv.Requests()[r0:]
	for _, a := range out.Apps {
		if a.Cmd == "HSET" && !a.IsErr && len(a.Args) >= 3 && strings.HasPrefix(string(a.Args[0]), config.CheckpointKey) {
			for i := 1; i+1 < len(a.Args); i += 2 {
				if string(a.Args[i]) == runID+"_offset" {
					var v int64
					fmt.Sscan(string(a.Args[i+1]), &v)
					out.CpWrites = append(out.CpWrites, v)
				}
			}
		}
	}
	return out, ""
}

// Finding of an oracle.
type Finding struct {
	Sig  string
	What string
}

// keyAffecting lists the applied write commands that touched key k in db.
func keyAffecting(apps []fakeredis.App, db int, k []byte) []fakeredis.App {
	var out []fakeredis.App
	for _, a := range apps {
		if !a.Write || a.DB != db || len(a.Args) == 0 {
			continue
		}
		ki := 0
		if a.Cmd == "XGROUP" {
			ki = 1
		}
		if ki < len(a.Args) && bytes.Equal(a.Args[ki], k) {
			out = append(out, a)
		}
	}
	return out
}

// CheckDataset: C03 clauses for a completed replay (err == nil) with the replace policy or an
// initially empty target.  skip: keys judged elsewhere (pre-existing keys under ignore/error).
func CheckDataset(sc *Scenario, out *Outcome, skip map[string]bool) []Finding {
	var fs []Finding
	add := func(sig, what string) { fs = append(fs, Finding{sig, what}) }
	path := "expand"
	if sc.Restore {
		path = "restore"
	}
	expectKeys := map[string]bool{}
	// datasets may repeat a key name in one DB? generator names are unique
	for i := range sc.DS {
		k := &sc.DS[i]
		lab := k.Enc.Describe()
		tdb := sc.MapDB(k.DB)
		id := fmt.Sprintf("%d/%s", tdb, k.Key)
		if sc.Filtered(k) {
			if !skip[id] {
				if aff := keyAffecting(out.Apps, tdb, k.Key); len(aff) > 0 {
					add("filtered-key-written|"+path, fmt.Sprintf("configured-out key %q (db %d) was written: %s", k.Key, k.DB, aff[0].String()))
				}
			}
			continue
		}
		expectKeys[id] = true
		if skip[id] {
			continue
		}
		aff := keyAffecting(out.Apps, tdb, k.Key)
		usedRestore := false
		for _, a := range aff {
			if a.Cmd == "RESTORE" && !a.IsErr {
				usedRestore = true
			}
		}
		kpath := "expand"
		if usedRestore {
			kpath = "restore"
		}
		chunked := sc.Chunk > 0 && len(sc.Ser[i].ValueBytes) > sc.Chunk
		ctx := fmt.Sprintf("%s|%s", lab, kpath)
		if chunked {
			ctx += "|chunked"
		}
		got := out.Final[tdb][string(k.Key)]
		past := k.ExpireAtMs != 0 && k.ExpireAtMs <= out.T0
		if got == nil {
			if past {
				continue // a key already past its expiry may be absent
			}
			// where did it go?
			other := -1
			for d := range out.Final {
				if d != tdb && out.Final[d][string(k.Key)] != nil {
					other = d
				}
			}
			if other >= 0 {
				add("key-in-wrong-db|"+ctx, fmt.Sprintf("key %q of source db %d found in target db %d, expected db %d", k.Key, k.DB, other, tdb))
			} else {
				add("key-missing|"+ctx, fmt.Sprintf("key %q (%s) is missing on the target although Send returned nil", k.Key, lab))
			}
			continue
		}
		if past {
			// the key must expire at once (ttl 1 ms from the moment its last command arrived);
			// what it holds during that millisecond is not observable and not judged
			var recv int64
			for _, a := range aff {
				recv = a.AtMs
			}
			if got.ExpireAt == 0 || got.ExpireAt > recv+2 {
				add("expired-key-kept-alive|"+ctx, fmt.Sprintf("key %q was past its expiry (%d) but lives until %d on the target (received %d)", k.Key, k.ExpireAtMs, got.ExpireAt, recv))
			}
			continue
		}
		want := ToObj(k.Value, k.ExpireAtMs)
		if ok, why := want.Equal(got); !ok {
			add("content-differs|"+ctx, fmt.Sprintf("key %q (%s): %s", k.Key, lab, why))
			continue
		}
		// expiry
		switch {
		case k.ExpireAtMs == 0:
			if got.ExpireAt != 0 {
				add("expiry-invented|"+ctx, fmt.Sprintf("key %q has no expiry in the snapshot but %d on the target", k.Key, got.ExpireAt))
			}
		default:
			slack := out.T1 - out.T0 + 2
			if got.ExpireAt == 0 {
				add("expiry-lost|"+ctx, fmt.Sprintf("key %q: snapshot expiry %d, none on the target", k.Key, k.ExpireAtMs))
			} else if got.ExpireAt < k.ExpireAtMs-2 || got.ExpireAt > k.ExpireAtMs+slack {
				add("expiry-differs|"+ctx, fmt.Sprintf("key %q: snapshot expiry %d, target %d (tool ran %d ms)", k.Key, k.ExpireAtMs, got.ExpireAt, out.T1-out.T0))
			}
		}
		// RESTORE payload framing
		for _, a := range aff {
			if a.Cmd != "RESTORE" || len(a.Args) < 3 {
				continue
			}
			p := a.Args[2]
			ser := sc.Ser[i]
			_, rdbVer := MaxTypeOfVersion(sc.TargetVersion)
			switch {
			case len(p) < 11:
				add("restore-payload-short|"+lab, fmt.Sprintf("key %q: payload of %d bytes", k.Key, len(p)))
			case p[0] != ser.TypeByte || !bytes.Equal(p[1:len(p)-10], ser.ValueBytes):
				add("restore-payload-not-the-serialization|"+lab, fmt.Sprintf("key %q: payload body differs from the snapshot's type+value bytes", k.Key))
			case int(binary.LittleEndian.Uint16(p[len(p)-10:])) > rdbVer || binary.LittleEndian.Uint16(p[len(p)-10:]) == 0:
				add("restore-payload-version|"+lab, fmt.Sprintf("key %q: footer version %d (target accepts ≤ %d)", k.Key, binary.LittleEndian.Uint16(p[len(p)-10:]), rdbVer))
			case rdbx.CRC64(0, p[:len(p)-8]) != binary.LittleEndian.Uint64(p[len(p)-8:]):
				add("restore-payload-crc|"+lab, fmt.Sprintf("key %q: footer CRC64 wrong", k.Key))
			}
		}
	}
	// nothing else was written
	for d, db := range out.Final {
		names := make([]string, 0, len(db))
		for name := range db {
			names = append(names, name)
		}
		sort.Strings(names)
		for _, name := range names {
			if drive.Reserved([]byte(name)) {
				continue
			}
			id := fmt.Sprintf("%d/%s", d, name)
			if expectKeys[id] {
				continue
			}
			if sc.Pre != nil && d < len(sc.Pre) && sc.Pre[d][name] != nil {
				continue
			}
			add("stray-key|"+path, fmt.Sprintf("target db %d holds key %q which is not in the snapshot (or not in that database)", d, name))
			break
		}
	}
	return fs
}
