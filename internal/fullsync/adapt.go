// Package fullsync: engine for the snapshot-replay checks (C03, C04, C20): builds snapshots with
// the independent codec rdbx, replays them through the real RedisOutput.Send into the target
// double and compares the outcome with the dataset.
package fullsync

import (
	"encoding/binary"
	"fmt"
	"strings"

	"verif/internal/fakeredis"
	"verif/internal/rdbx"
)

// ToObj converts a dataset value into the object the target must end up holding.
func ToObj(v rdbx.Value, expireAtMs int64) *fakeredis.Obj {
	o := &fakeredis.Obj{ExpireAt: expireAtMs}
	switch v.Kind {
	case rdbx.KindString:
		o.Kind = fakeredis.KString
		o.Str = v.Str
	case rdbx.KindList:
		o.Kind = fakeredis.KList
		o.List = v.List
	case rdbx.KindSet:
		o.Kind = fakeredis.KSet
		o.Set = map[string]struct{}{}
		for _, m := range v.Set {
			o.Set[string(m)] = struct{}{}
		}
	case rdbx.KindZSet:
		o.Kind = fakeredis.KZSet
		o.ZSet = map[string]float64{}
		for _, m := range v.ZSet {
			o.ZSet[string(m.Member)] = m.Score
		}
	case rdbx.KindHash:
		o.Kind = fakeredis.KHash
		o.Hash = map[string][]byte{}
		for _, f := range v.Hash {
			o.Hash[string(f[0])] = f[1]
		}
	case rdbx.KindStream:
		o.Kind = fakeredis.KStream
		st := &fakeredis.Stream{LastID: fakeredis.StreamID{MS: v.Stream.LastMS, Seq: v.Stream.LastSeq},
			MaxDeleted: fakeredis.StreamID{MS: v.Stream.MaxDelMS, Seq: v.Stream.MaxDelSeq}, EntriesAdded: int64(v.Stream.EntriesAdded)}
		for _, e := range v.Stream.Entries {
			if e.Deleted {
				continue
			}
			ne := fakeredis.StreamEntry{ID: fakeredis.StreamID{MS: e.MS, Seq: e.Seq}}
			for _, f := range e.Fields {
				ne.Fields = append(ne.Fields, f[0], f[1])
			}
			st.Entries = append(st.Entries, ne)
		}
		for _, g := range v.Stream.Groups {
			ng := &fakeredis.StreamGroup{Name: string(g.Name), LastID: fakeredis.StreamID{MS: g.LastMS, Seq: g.LastSeq}, EntriesRead: int64(g.EntriesRead)}
			st.Groups = append(st.Groups, ng)
		}
		o.Stream = st
	}
	return o
}

// MaxTypeOfVersion: the newest RDB value type a Redis of that version can load from a DUMP payload.
func MaxTypeOfVersion(ver string) (maxType byte, rdbVer int) {
	switch {
	case strings.HasPrefix(ver, "4."):
		return rdbx.TypeQuicklist, 8
	case strings.HasPrefix(ver, "5."), strings.HasPrefix(ver, "6."):
		return rdbx.TypeStreamListpacks, 9
	case strings.HasPrefix(ver, "7.0"):
		return rdbx.TypeStreamListpacks2, 10
	case strings.HasPrefix(ver, "7."):
		return rdbx.TypeStreamListpacks3, 11
	}
	return rdbx.TypeStreamListpacks4, 13
}

// RestoreDecoder returns the RESTORE payload decoder of a target of the given version: footer
// version / CRC problems are errors ("DUMP payload version or checksum are wrong"), a payload
// whose value type or inner encoding the version does not know yields (nil, nil) = "Bad data format".
func RestoreDecoder(targetVersion string) func(payload []byte, _ int) (*fakeredis.Obj, error) {
	maxType, rdbVer := MaxTypeOfVersion(targetVersion)
	return func(payload []byte, _ int) (*fakeredis.Obj, error) {
		if len(payload) < 10 {
			return nil, fmt.Errorf("short payload")
		}
		ver := binary.LittleEndian.Uint16(payload[len(payload)-10:])
		if int(ver) > rdbVer {
			return nil, fmt.Errorf("payload version %d > %d", ver, rdbVer)
		}
		if rdbx.CRC64(0, payload[:len(payload)-8]) != binary.LittleEndian.Uint64(payload[len(payload)-8:]) {
			return nil, fmt.Errorf("crc")
		}
		if payload[0] > maxType {
			return nil, nil
		}
		v, _, _, err := rdbx.DecodeDump(payload)
		if err != nil {
			return nil, nil // body does not parse: Bad data format
		}
		return ToObj(v, 0), nil
	}
}
