package fakeredis

// Additions for C18 (bisync replay against a cluster target).  Everything here is opt-in: a
// process that never calls RegisterRefCommands sees exactly the command table it saw before.

import (
	"sort"
	"strings"

	"verif/internal/ref"
)

// RegisterRefCommands registers, for every command of the reference key table
// (ref.Commands()) that the double does not model, a data-modifying stub: arity "at least one
// argument", reply +OK, key arguments = ref.Keys (the published key positions, not the first
// argument).  A cluster node then routes those commands — and answers COMMAND GETKEYS for them —
// by their real keys, instead of treating them as unknown (Permissive mode routes an unknown
// command by its first argument, which is wrong for BITOP, ZUNIONSTORE, EVAL, XREADGROUP, …).
//
// The command table is process-global and is read without synchronisation by every Server:
// call this once, before the first Server / Cluster is started.  It returns the (sorted, upper
// case) names it added; calling it again adds nothing.
func RegisterRefCommands() (added []string) {
	for _, lc := range ref.Commands() {
		name := strings.ToUpper(lc)
		if _, ok := commands[name]; ok {
			continue
		}
		cmd := lc
		ci := reg(name, -2, true, func(cx *ctx, a [][]byte) Reply { return OK })
		ci.keys = func(args [][]byte) [][]byte {
			ks, ok := ref.Keys(cmd, args)
			if !ok {
				return nil
			}
			return ks
		}
		added = append(added, name)
	}
	sort.Strings(added)
	return added
}

// ArityOK reports whether the double models cmd (any case) and, if so, whether a request with
// argc arguments (not counting the command name) passes its arity check.  Generators use it to
// emit only requests a Redis master could have propagated.
func ArityOK(cmd string, argc int) (known, ok bool) {
	ci, found := commands[strings.ToUpper(cmd)]
	if !found {
		return false, false
	}
	return true, arityOK(ci, argc+1)
}

// RoutingKeys returns the key arguments the double's cluster role routes cmd by (what
// getNodeByQuery would look at) and whether the double models the command at all.
func RoutingKeys(cmd string, args [][]byte) (keys [][]byte, known bool) {
	ci, found := commands[strings.ToUpper(cmd)]
	if !found {
		return nil, false
	}
	return keysOf(ci, args), true
}
