package fakeredis

import (
	"bytes"
	"fmt"
	"math"
	"sort"
	"strconv"
)

const NumDBs = 16

type Kind string

const (
	KString Kind = "string"
	KList   Kind = "list"
	KHash   Kind = "hash"
	KSet    Kind = "set"
	KZSet   Kind = "zset"
	KStream Kind = "stream"
)

type StreamID struct{ MS, Seq uint64 }

func (a StreamID) Less(b StreamID) bool { return a.MS < b.MS || (a.MS == b.MS && a.Seq < b.Seq) }
func (a StreamID) String() string       { return fmt.Sprintf("%d-%d", a.MS, a.Seq) }

type StreamEntry struct {
	ID     StreamID
	Fields [][]byte // f1 v1 f2 v2 ...
}

type StreamPending struct {
	ID            StreamID
	Consumer      string
	DeliveryTime  int64
	DeliveryCount int64
}

type StreamGroup struct {
	Name        string
	LastID      StreamID
	EntriesRead int64 // -1 unknown
	Pending     []StreamPending
	Consumers   []string
}

type Stream struct {
	Entries      []StreamEntry
	LastID       StreamID
	MaxDeleted   StreamID
	EntriesAdded int64
	Groups       []*StreamGroup
}

// Obj is one value.  Exactly the field for Kind is used.
type Obj struct {
	Kind     Kind
	Str      []byte
	List     [][]byte
	Hash     map[string][]byte
	Set      map[string]struct{}
	ZSet     map[string]float64
	Stream   *Stream
	ExpireAt int64 // absolute unix ms; 0 = no expiry
}

func (o *Obj) Clone() *Obj {
	n := &Obj{Kind: o.Kind, ExpireAt: o.ExpireAt}
	switch o.Kind {
	case KString:
		n.Str = append([]byte{}, o.Str...)
	case KList:
		n.List = make([][]byte, len(o.List))
		for i, e := range o.List {
			n.List[i] = append([]byte{}, e...)
		}
	case KHash:
		n.Hash = make(map[string][]byte, len(o.Hash))
		for k, v := range o.Hash {
			n.Hash[k] = append([]byte{}, v...)
		}
	case KSet:
		n.Set = make(map[string]struct{}, len(o.Set))
		for k := range o.Set {
			n.Set[k] = struct{}{}
		}
	case KZSet:
		n.ZSet = make(map[string]float64, len(o.ZSet))
		for k, v := range o.ZSet {
			n.ZSet[k] = v
		}
	case KStream:
		s := &Stream{LastID: o.Stream.LastID, MaxDeleted: o.Stream.MaxDeleted, EntriesAdded: o.Stream.EntriesAdded}
		for _, e := range o.Stream.Entries {
			ne := StreamEntry{ID: e.ID}
			for _, f := range e.Fields {
				ne.Fields = append(ne.Fields, append([]byte{}, f...))
			}
			s.Entries = append(s.Entries, ne)
		}
		for _, g := range o.Stream.Groups {
			ng := *g
			ng.Pending = append([]StreamPending{}, g.Pending...)
			ng.Consumers = append([]string{}, g.Consumers...)
			s.Groups = append(s.Groups, &ng)
		}
		n.Stream = s
	}
	return n
}

// Equal compares two objects semantically (lists ordered, sets/hashes unordered, zset scores
// bit-identical with NaN == NaN, stream entries ordered + last id).  Expiry is not compared.
func (o *Obj) Equal(p *Obj) (bool, string) {
	if o.Kind != p.Kind {
		return false, fmt.Sprintf("kind %s != %s", o.Kind, p.Kind)
	}
	switch o.Kind {
	case KString:
		if !bytes.Equal(o.Str, p.Str) {
			return false, fmt.Sprintf("string %q != %q", trunc(o.Str), trunc(p.Str))
		}
	case KList:
		if len(o.List) != len(p.List) {
			return false, fmt.Sprintf("list len %d != %d", len(o.List), len(p.List))
		}
		for i := range o.List {
			if !bytes.Equal(o.List[i], p.List[i]) {
				return false, fmt.Sprintf("list[%d] %q != %q", i, trunc(o.List[i]), trunc(p.List[i]))
			}
		}
	case KHash:
		if len(o.Hash) != len(p.Hash) {
			return false, fmt.Sprintf("hash len %d != %d", len(o.Hash), len(p.Hash))
		}
		for k, v := range o.Hash {
			w, ok := p.Hash[k]
			if !ok || !bytes.Equal(v, w) {
				return false, fmt.Sprintf("hash field %q: %q != %q (present=%v)", trunc([]byte(k)), trunc(v), trunc(w), ok)
			}
		}
	case KSet:
		if len(o.Set) != len(p.Set) {
			return false, fmt.Sprintf("set len %d != %d", len(o.Set), len(p.Set))
		}
		for k := range o.Set {
			if _, ok := p.Set[k]; !ok {
				return false, fmt.Sprintf("set member %q missing", trunc([]byte(k)))
			}
		}
	case KZSet:
		if len(o.ZSet) != len(p.ZSet) {
			return false, fmt.Sprintf("zset len %d != %d", len(o.ZSet), len(p.ZSet))
		}
		for k, v := range o.ZSet {
			w, ok := p.ZSet[k]
			if !ok {
				return false, fmt.Sprintf("zset member %q missing", trunc([]byte(k)))
			}
			if math.Float64bits(v) != math.Float64bits(w) && !(math.IsNaN(v) && math.IsNaN(w)) {
				return false, fmt.Sprintf("zset member %q score %v != %v", trunc([]byte(k)), v, w)
			}
		}
	case KStream:
		a, b := o.Stream, p.Stream
		if len(a.Entries) != len(b.Entries) {
			return false, fmt.Sprintf("stream entries %d != %d", len(a.Entries), len(b.Entries))
		}
		for i := range a.Entries {
			if a.Entries[i].ID != b.Entries[i].ID {
				return false, fmt.Sprintf("stream entry %d id %v != %v", i, a.Entries[i].ID, b.Entries[i].ID)
			}
			if len(a.Entries[i].Fields) != len(b.Entries[i].Fields) {
				return false, fmt.Sprintf("stream entry %d nfields", i)
			}
			for j := range a.Entries[i].Fields {
				if !bytes.Equal(a.Entries[i].Fields[j], b.Entries[i].Fields[j]) {
					return false, fmt.Sprintf("stream entry %d field %d", i, j)
				}
			}
		}
		if a.LastID != b.LastID {
			return false, fmt.Sprintf("stream last id %v != %v", a.LastID, b.LastID)
		}
	}
	return true, ""
}

func trunc(b []byte) []byte {
	if len(b) > 48 {
		return append(append([]byte{}, b[:48]...), "..."...)
	}
	return b
}

// DB is one keyspace.
type DB map[string]*Obj

func cloneDBs(dbs []DB) []DB {
	out := make([]DB, len(dbs))
	for i, d := range dbs {
		out[i] = make(DB, len(d))
		for k, v := range d {
			out[i][k] = v.Clone()
		}
	}
	return out
}

func sortedKeys(d DB) []string {
	ks := make([]string, 0, len(d))
	for k := range d {
		ks = append(ks, k)
	}
	sort.Strings(ks)
	return ks
}

// formatScore renders a double the way Redis replies to ZSCORE / ZRANGE WITHSCORES (%.17g).
func formatScore(f float64) string {
	if math.IsInf(f, 1) {
		return "inf"
	}
	if math.IsInf(f, -1) {
		return "-inf"
	}
	if math.IsNaN(f) {
		return "nan"
	}
	return strconv.FormatFloat(f, 'g', 17, 64)
}

// parseScore accepts what Redis' strtod-based parser accepts for ZADD scores.
func parseScore(b []byte) (float64, bool) {
	s := string(b)
	switch s {
	case "inf", "+inf", "Inf", "+Inf", "INF", "+INF", "infinity", "+infinity":
		return math.Inf(1), true
	case "-inf", "-Inf", "-INF", "-infinity":
		return math.Inf(-1), true
	}
	if len(s) == 0 {
		return 0, false
	}
	f, err := strconv.ParseFloat(s, 64)
	if err != nil {
		// ParseFloat reports ErrRange for denormal underflow/overflow but still returns a value
		if ne, ok := err.(*strconv.NumError); ok && ne.Err == strconv.ErrRange {
			return f, true
		}
		return 0, false
	}
	if math.IsNaN(f) {
		return 0, false
	}
	return f, true
}
