package fakeredis

import (
	"bufio"
	"fmt"
	"net"
	"strconv"
	"strings"
	"testing"
	"time"

	"verif/internal/ref"
)

// ---- a minimal RESP client for the tests

type tErr string

type tClient struct {
	t  *testing.T
	nc net.Conn
	rd *bufio.Reader
}

func dialT(t *testing.T, addr string) *tClient {
	t.Helper()
	nc, err := net.DialTimeout("tcp", addr, 2*time.Second)
	if err != nil {
		t.Fatal(err)
	}
	t.Cleanup(func() { nc.Close() })
	return &tClient{t: t, nc: nc, rd: bufio.NewReader(nc)}
}

func (c *tClient) send(args ...string) {
	var sb strings.Builder
	fmt.Fprintf(&sb, "*%d\r\n", len(args))
	for _, a := range args {
		fmt.Fprintf(&sb, "$%d\r\n%s\r\n", len(a), a)
	}
	if _, err := c.nc.Write([]byte(sb.String())); err != nil {
		c.t.Fatal(err)
	}
}

func (c *tClient) recv() any {
	c.nc.SetReadDeadline(time.Now().Add(5 * time.Second))
	line, err := c.rd.ReadString('\n')
	if err != nil {
		c.t.Fatalf("recv: %v", err)
	}
	line = strings.TrimRight(line, "\r\n")
	switch line[0] {
	case '+':
		return line[1:]
	case '-':
		return tErr(line[1:])
	case ':':
		n, _ := strconv.ParseInt(line[1:], 10, 64)
		return n
	case '$':
		n, _ := strconv.Atoi(line[1:])
		if n < 0 {
			return nil
		}
		buf := make([]byte, n+2)
		for got := 0; got < len(buf); {
			m, err := c.rd.Read(buf[got:])
			if err != nil {
				c.t.Fatal(err)
			}
			got += m
		}
		return string(buf[:n])
	case '*':
		n, _ := strconv.Atoi(line[1:])
		if n < 0 {
			return nil
		}
		out := make([]any, n)
		for i := range out {
			out[i] = c.recv()
		}
		return out
	}
	c.t.Fatalf("bad reply line %q", line)
	return nil
}

func (c *tClient) do(args ...string) any {
	c.send(args...)
	return c.recv()
}

func wantErrPrefix(t *testing.T, got any, prefix string) {
	t.Helper()
	e, ok := got.(tErr)
	if !ok || !strings.HasPrefix(string(e), prefix) {
		t.Fatalf("want error %q..., got %#v", prefix, got)
	}
}

func wantEq(t *testing.T, got, want any) {
	t.Helper()
	if fmt.Sprint(got) != fmt.Sprint(want) {
		t.Fatalf("want %#v, got %#v", want, got)
	}
}

// keyOn returns a brace-free key owned by node.
func keyOn(cl *Cluster, node int, salt string) string {
	for i := 0; ; i++ {
		k := fmt.Sprintf("%s%d", salt, i)
		if cl.OwnerOfKey([]byte(k)) == node {
			return k
		}
	}
}

func TestClusterLayoutCommands(t *testing.T) {
	cl := NewCluster(3, Options{})
	defer cl.Close()
	c := dialT(t, cl.Addr(1))

	slots := c.do("CLUSTER", "SLOTS").([]any)
	if len(slots) != 3 {
		t.Fatalf("CLUSTER SLOTS: %d ranges", len(slots))
	}
	total := int64(0)
	for i, e := range slots {
		r := e.([]any)
		total += r[1].(int64) - r[0].(int64) + 1
		nd := r[2].([]any)
		addr := fmt.Sprintf("%s:%d", nd[0], nd[1])
		if addr != cl.Addr(i) {
			t.Fatalf("range %d served by %s, want %s", i, addr, cl.Addr(i))
		}
		if len(nd[2].(string)) != 40 {
			t.Fatalf("node id %q", nd[2])
		}
	}
	if total != NumSlots {
		t.Fatalf("coverage %d", total)
	}

	nodes := c.do("CLUSTER", "NODES").(string)
	lines := strings.Split(strings.TrimSpace(nodes), "\n")
	if len(lines) != 3 {
		t.Fatalf("CLUSTER NODES: %q", nodes)
	}
	myself := 0
	for i, l := range lines {
		f := strings.Split(l, " ")
		if len(f) < 9 || f[7] != "connected" || !strings.HasPrefix(f[1], cl.Addr(i)+"@") {
			t.Fatalf("line %q", l)
		}
		if strings.Contains(f[2], "myself") {
			myself++
			if i != 1 {
				t.Fatalf("myself on line %d", i)
			}
		}
	}
	if myself != 1 {
		t.Fatalf("myself count %d", myself)
	}

	shards := c.do("CLUSTER", "SHARDS").([]any)
	if len(shards) != 3 {
		t.Fatalf("shards %d", len(shards))
	}
	sh := shards[0].([]any)
	wantEq(t, sh[0], "slots")
	wantEq(t, sh[2], "nodes")

	info := c.do("CLUSTER", "INFO").(string)
	if !strings.Contains(info, "cluster_state:ok") || !strings.Contains(info, "cluster_known_nodes:3") {
		t.Fatalf("info %q", info)
	}
	for _, k := range []string{"foo", "{user1000}.following", "foo{}{bar}", "foo{{bar}}zap", "foo{bar}{zap}", "123456789"} {
		wantEq(t, c.do("CLUSTER", "KEYSLOT", k), int64(ref.HashSlot([]byte(k))))
	}
	wantEq(t, c.do("CLUSTER", "KEYSLOT", "123456789"), int64(0x31C3%16384))
	if s := c.do("INFO", "cluster").(string); !strings.Contains(s, "cluster_enabled:1") {
		t.Fatalf("INFO cluster: %q", s)
	}
	wantErrPrefix(t, c.do("SELECT", "1"), "ERR SELECT is not allowed in cluster mode")
	wantEq(t, c.do("SELECT", "0"), "OK")
	wantEq(t, c.do("READONLY"), "OK")
}

func TestClusterMovedAndOwnerExecutes(t *testing.T) {
	cl := NewCluster(3, Options{})
	defer cl.Close()
	k := keyOn(cl, 2, "k")
	c0, c2 := dialT(t, cl.Addr(0)), dialT(t, cl.Addr(2))
	wantEq(t, c0.do("SET", k, "v"), tErr(fmt.Sprintf("MOVED %d %s", Slot([]byte(k)), cl.Addr(2))))
	wantEq(t, c0.do("GET", k), tErr(fmt.Sprintf("MOVED %d %s", Slot([]byte(k)), cl.Addr(2))))
	wantEq(t, c2.do("SET", k, "v"), "OK")
	wantEq(t, c2.do("GET", k), "v")
	apps := cl.Applied()
	if len(apps) != 2 || apps[0].Node != 2 || apps[0].Cmd != "SET" || apps[1].Cmd != "GET" {
		t.Fatalf("applied: %+v", apps)
	}
	if r := cl.Redirects(); r["MOVED"] != 2 {
		t.Fatalf("redirect counters %v", r)
	}
	// keyless commands are served everywhere
	wantEq(t, c0.do("PING"), "PONG")
	wantEq(t, c0.do("DBSIZE"), int64(0))
}

func TestClusterCrossSlot(t *testing.T) {
	cl := NewCluster(3, Options{})
	defer cl.Close()
	a, b := keyOn(cl, 0, "a"), keyOn(cl, 0, "b")
	if Slot([]byte(a)) == Slot([]byte(b)) {
		t.Skip("same slot")
	}
	c := dialT(t, cl.Addr(0))
	wantErrPrefix(t, c.do("MSET", a, "1", b, "2"), "CROSSSLOT Keys in request don't hash to the same slot")
	wantErrPrefix(t, c.do("DEL", a, b), "CROSSSLOT")
	t1, t2 := "{"+a+"}x", "{"+a+"}y"
	wantEq(t, c.do("MSET", t1, "1", t2, "2"), "OK")
	wantEq(t, c.do("DEL", t1, t2), int64(2))
	// cross-slot is detected before ownership: also on a node that owns neither key
	c1 := dialT(t, cl.Addr(1))
	wantErrPrefix(t, c1.do("MSET", a, "1", b, "2"), "CROSSSLOT")
	if len(cl.Applied()) != 2 {
		t.Fatalf("applied %d", len(cl.Applied()))
	}
}

func TestClusterMigratingAskImporting(t *testing.T) {
	cl := NewCluster(3, Options{})
	defer cl.Close()
	have := keyOn(cl, 0, "have")
	slot := Slot([]byte(have))
	miss := "{" + have + "}missing"
	src, dst := dialT(t, cl.Addr(0)), dialT(t, cl.Addr(1))
	wantEq(t, src.do("SET", have, "1"), "OK")
	cl.Update(func(tp *Topo) { tp.SetMigrating(slot, 1) })

	// MIGRATING: existing keys are served, missing keys are ASK-redirected
	wantEq(t, src.do("APPEND", have, "2"), int64(2))
	ask := tErr(fmt.Sprintf("ASK %d %s", slot, cl.Addr(1)))
	wantEq(t, src.do("SET", miss, "x"), ask)
	wantEq(t, src.do("GET", miss), ask)
	// multi-key: some present, some missing -> TRYAGAIN; all missing -> ASK
	wantErrPrefix(t, src.do("DEL", have, miss), "TRYAGAIN")
	wantEq(t, src.do("DEL", miss, "{"+have+"}other"), ask)
	wantEq(t, src.do("EXISTS", have, have), int64(2))

	// IMPORTING: only after ASKING (one shot), otherwise MOVED to the owner
	moved := tErr(fmt.Sprintf("MOVED %d %s", slot, cl.Addr(0)))
	wantEq(t, dst.do("SET", miss, "x"), moved)
	wantEq(t, dst.do("ASKING"), "OK")
	wantEq(t, dst.do("SET", miss, "x"), "OK")
	wantEq(t, dst.do("GET", miss), moved) // flag consumed
	wantEq(t, dst.do("ASKING"), "OK")
	wantEq(t, dst.do("GET", miss), "x")
	// ASKING is consumed by whatever command follows it
	wantEq(t, dst.do("ASKING"), "OK")
	wantEq(t, dst.do("PING"), "PONG")
	wantEq(t, dst.do("GET", miss), moved)
	// importing + ASKING + several keys not all present -> TRYAGAIN
	wantEq(t, dst.do("ASKING"), "OK")
	wantErrPrefix(t, dst.do("DEL", miss, have), "TRYAGAIN")
	wantEq(t, dst.do("ASKING"), "OK")
	wantEq(t, dst.do("DEL", miss, miss), int64(1))
	// a third node only ever says MOVED
	wantEq(t, dialT(t, cl.Addr(2)).do("GET", have), moved)

	// MIGRATE one key, then finish
	cl.Update(func(tp *Topo) {
		if n := tp.MoveKeys(slot, have); n != 1 {
			t.Errorf("moved %d", n)
		}
	})
	wantEq(t, src.do("GET", have), ask)
	wantEq(t, dst.do("ASKING"), "OK")
	wantEq(t, dst.do("GET", have), "12")
	cl.Update(func(tp *Topo) { tp.SetSlotOwner(slot, 1) })
	wantEq(t, src.do("GET", have), tErr(fmt.Sprintf("MOVED %d %s", slot, cl.Addr(1))))
	wantEq(t, dst.do("GET", have), "12")
	if r := cl.Redirects(); r["ASK"] != 4 || r["TRYAGAIN"] != 2 || r["MOVED"] < 4 {
		t.Fatalf("redirect counters %v", r)
	}
	for _, a := range cl.Applied() {
		if a.IsErr {
			t.Fatalf("error applied: %s", a.String())
		}
	}
}

func TestClusterMultiRedirects(t *testing.T) {
	cl := NewCluster(3, Options{})
	defer cl.Close()
	mine, other := keyOn(cl, 0, "m"), keyOn(cl, 1, "o")
	c := dialT(t, cl.Addr(0))

	// redirect at queue time, EXEC aborts, nothing applied
	wantEq(t, c.do("MULTI"), "OK")
	wantEq(t, c.do("SET", mine, "1"), "QUEUED")
	wantErrPrefix(t, c.do("SET", other, "1"), "MOVED")
	wantErrPrefix(t, c.do("EXEC"), "EXECABORT")
	if n := len(cl.Applied()); n != 0 {
		t.Fatalf("applied %d", n)
	}

	// EXEC re-validates: the slot moves between queueing and EXEC
	wantEq(t, c.do("MULTI"), "OK")
	wantEq(t, c.do("SET", mine, "1"), "QUEUED")
	cl.MigrateSlot(Slot([]byte(mine)), 2)
	wantEq(t, c.do("EXEC"), tErr(fmt.Sprintf("MOVED %d %s", Slot([]byte(mine)), cl.Addr(2))))
	wantErrPrefix(t, c.do("EXEC"), "ERR EXEC without MULTI")
	if n := len(cl.Applied()); n != 0 {
		t.Fatalf("applied %d", n)
	}

	// two slots inside one transaction: each command is fine, the EXEC is CROSSSLOT
	m2 := keyOn(cl, 0, "n")
	m3 := keyOn(cl, 0, "p")
	wantEq(t, c.do("MULTI"), "OK")
	wantEq(t, c.do("SET", m2, "1"), "QUEUED")
	wantEq(t, c.do("SET", m3, "1"), "QUEUED")
	if Slot([]byte(m2)) != Slot([]byte(m3)) {
		wantErrPrefix(t, c.do("EXEC"), "CROSSSLOT")
	} else {
		c.do("EXEC")
	}

	// ASKING, MULTI, ..., EXEC on an importing node: the flag lasts until EXEC
	k := keyOn(cl, 1, "q")
	slot := Slot([]byte(k))
	cl.Update(func(tp *Topo) { tp.SetMigrating(slot, 0) })
	wantEq(t, c.do("ASKING"), "OK")
	wantEq(t, c.do("MULTI"), "OK")
	wantEq(t, c.do("SET", k, "1"), "QUEUED")
	wantEq(t, c.do("APPEND", k, "2"), "QUEUED")
	r := c.do("EXEC").([]any)
	wantEq(t, r[0], "OK")
	wantEq(t, r[1], int64(2))
	wantErrPrefix(t, c.do("GET", k), "MOVED") // cleared after EXEC
	// without ASKING the MULTI body is redirected at queue time
	wantEq(t, c.do("MULTI"), "OK")
	wantErrPrefix(t, c.do("SET", k, "3"), "MOVED")
	wantErrPrefix(t, c.do("EXEC"), "EXECABORT")
	// on the migrating side a transaction touching a missing key is ASK-redirected at queue time
	c1 := dialT(t, cl.Addr(1))
	wantEq(t, c1.do("MULTI"), "OK")
	wantErrPrefix(t, c1.do("SET", "{"+k+"}zz", "3"), "ASK")
	wantErrPrefix(t, c1.do("EXEC"), "EXECABORT")

	apps := cl.Applied()
	last := apps[len(apps)-2:]
	if last[0].Node != 0 || last[0].Txn == 0 || last[1].Cmd != "APPEND" || last[0].GSeq+1 != last[1].GSeq || last[0].GReq != last[1].GReq {
		t.Fatalf("transaction members: %+v", last)
	}
}

func TestClusterScheduleMidPipeline(t *testing.T) {
	cl := NewCluster(3, Options{})
	defer cl.Close()
	k := keyOn(cl, 0, "k")
	slot := Slot([]byte(k))
	c := dialT(t, cl.Addr(0))
	base := cl.ReqCount()
	cl.At(base+2, func(tp *Topo) { tp.MigrateSlot(slot, 1) })
	if cl.Pending() != 1 {
		t.Fatal("not pending")
	}
	for i := 0; i < 4; i++ {
		c.send("RPUSH", k, fmt.Sprint(i))
	}
	var got []any
	for i := 0; i < 4; i++ {
		got = append(got, c.recv())
	}
	wantEq(t, got[0], int64(1))
	wantEq(t, got[1], int64(2))
	wantErrPrefix(t, got[2], "MOVED")
	wantErrPrefix(t, got[3], "MOVED")
	if cl.Pending() != 0 {
		t.Fatal("still pending")
	}
	// the list travelled with the slot
	c1 := dialT(t, cl.Addr(1))
	wantEq(t, c1.do("RPUSH", k, "x"), int64(3))
	ev := cl.Events()
	if len(ev) != 1 || ev[0].AfterGReq != base+2 {
		t.Fatalf("events %+v", ev)
	}
	nodes, obj := cl.Lookup(k)
	if len(nodes) != 1 || nodes[0] != 1 || len(obj.List) != 3 {
		t.Fatalf("lookup %v %+v", nodes, obj)
	}
	// At in the past fires at once
	fired := false
	cl.At(1, func(tp *Topo) { fired = true })
	if !fired {
		t.Fatal("past At did not fire")
	}
}

func TestClusterGlobalOrderAndBackAndForth(t *testing.T) {
	cl := NewCluster(2, Options{})
	defer cl.Close()
	a, b := keyOn(cl, 0, "a"), keyOn(cl, 1, "b")
	c0, c1 := dialT(t, cl.Addr(0)), dialT(t, cl.Addr(1))
	for i := 0; i < 10; i++ {
		wantEq(t, c0.do("RPUSH", a, fmt.Sprint(i)), int64(i+1))
		wantEq(t, c1.do("RPUSH", b, fmt.Sprint(i)), int64(i+1))
	}
	apps := cl.Applied()
	if len(apps) != 20 {
		t.Fatalf("applied %d", len(apps))
	}
	for i, ap := range apps {
		if ap.GSeq != int64(i+1) || ap.Node != i%2 {
			t.Fatalf("entry %d: %+v", i, ap)
		}
		if i > 0 && ap.GReq <= apps[i-1].GReq {
			t.Fatalf("GReq not increasing at %d", i)
		}
	}
	// back and forth
	slot := Slot([]byte(a))
	cl.MigrateSlot(slot, 1)
	wantErrPrefix(t, c0.do("LLEN", a), "MOVED")
	wantEq(t, c1.do("LLEN", a), int64(10))
	cl.MigrateSlot(slot, 0)
	wantErrPrefix(t, c1.do("LLEN", a), "MOVED")
	wantEq(t, c0.do("LLEN", a), int64(10))
	if rs := cl.SlotRanges(0); len(rs) != 1 || rs[0] != [2]int{0, 8191} {
		t.Fatalf("ranges %v", rs)
	}
	// concurrent traffic keeps a total order
	done := make(chan bool, 2)
	for n, c := range []*tClient{c0, c1} {
		k := []string{a, b}[n]
		go func(c *tClient) {
			for i := 0; i < 200; i++ {
				c.send("RPUSH", k, "x")
			}
			for i := 0; i < 200; i++ {
				c.recv()
			}
			done <- true
		}(c)
	}
	<-done
	<-done
	apps = cl.Applied()
	for i := 1; i < len(apps); i++ {
		if apps[i].GSeq != apps[i-1].GSeq+1 {
			t.Fatalf("gap at %d", i)
		}
	}
	if !cl.WaitIdle(50*time.Millisecond, 2*time.Second) {
		t.Fatal("not idle")
	}
}

func TestClusterNodeAdded(t *testing.T) {
	cl := NewCluster(3, Options{})
	defer cl.Close()
	k := keyOn(cl, 1, "k")
	slot := Slot([]byte(k))
	c := dialT(t, cl.Addr(1))
	wantEq(t, c.do("SET", k, "v"), "OK")
	n := cl.AddNode()
	if n != 3 || cl.NumNodes() != 4 {
		t.Fatalf("AddNode %d", n)
	}
	if len(c.do("CLUSTER", "SLOTS").([]any)) != 3 {
		t.Fatal("an empty master must not appear in CLUSTER SLOTS")
	}
	if l := strings.Split(strings.TrimSpace(c.do("CLUSTER", "NODES").(string)), "\n"); len(l) != 4 || len(strings.Split(l[3], " ")) != 8 {
		t.Fatalf("nodes: %q", l)
	}
	cn := dialT(t, cl.Addr(3))
	wantErrPrefix(t, cn.do("GET", k), "MOVED")
	cl.MigrateSlot(slot, 3)
	wantEq(t, c.do("GET", k), tErr(fmt.Sprintf("MOVED %d %s", slot, cl.Addr(3))))
	wantEq(t, cn.do("GET", k), "v")
	if len(c.do("CLUSTER", "SLOTS").([]any)) < 4 {
		t.Fatal("new owner missing in CLUSTER SLOTS")
	}
	total := 0
	for i := 0; i < 4; i++ {
		for _, r := range cl.SlotRanges(i) {
			total += r[1] - r[0] + 1
		}
	}
	if total != NumSlots {
		t.Fatalf("coverage %d", total)
	}
}

func TestClusterSetSlotCommands(t *testing.T) {
	cl := NewCluster(2, Options{})
	defer cl.Close()
	k := keyOn(cl, 0, "k")
	slot := fmt.Sprint(Slot([]byte(k)))
	c0, c1 := dialT(t, cl.Addr(0)), dialT(t, cl.Addr(1))
	wantEq(t, c0.do("SET", k, "v"), "OK")
	wantEq(t, c1.do("CLUSTER", "SETSLOT", slot, "IMPORTING", cl.NodeID(0)), "OK")
	wantEq(t, c0.do("CLUSTER", "SETSLOT", slot, "MIGRATING", cl.NodeID(1)), "OK")
	if s := c0.do("CLUSTER", "NODES").(string); !strings.Contains(s, "["+slot+"->-"+cl.NodeID(1)+"]") {
		t.Fatalf("migrating marker missing: %q", s)
	}
	if s := c1.do("CLUSTER", "NODES").(string); !strings.Contains(s, "["+slot+"-<-"+cl.NodeID(0)+"]") || strings.Contains(s, "->-") {
		t.Fatalf("importing marker: %q", s)
	}
	wantEq(t, c0.do("CLUSTER", "COUNTKEYSINSLOT", slot), int64(1))
	wantErrPrefix(t, c0.do("CLUSTER", "SETSLOT", slot, "NODE", cl.NodeID(1)), "ERR Can't assign hashslot")
	cl.Update(func(tp *Topo) { tp.MoveKeys(Slot([]byte(k))) })
	wantEq(t, c0.do("CLUSTER", "SETSLOT", slot, "NODE", cl.NodeID(1)), "OK")
	wantEq(t, c1.do("GET", k), "v")
	if s := c0.do("CLUSTER", "NODES").(string); strings.Contains(s, "[") {
		t.Fatalf("open slot left: %q", s)
	}
}

func TestClusterLogOnlyAndPermissiveRouteFirst(t *testing.T) {
	cl := NewCluster(3, Options{Permissive: true, LogOnly: func(cmd string, args [][]byte) bool { return true }})
	defer cl.Close()
	k := keyOn(cl, 2, "k")
	c0, c2 := dialT(t, cl.Addr(0)), dialT(t, cl.Addr(2))
	wantErrPrefix(t, c0.do("SET", k, "v"), "MOVED")
	wantErrPrefix(t, c0.do("PFADD", k, "v"), "MOVED") // not modelled: routed by first argument
	wantEq(t, c2.do("SET", k, "v"), "OK")
	wantEq(t, c2.do("PFADD", k, "v"), "OK")
	apps := cl.Applied()
	if len(apps) != 2 || apps[0].Node != 2 || apps[1].Cmd != "PFADD" {
		t.Fatalf("applied %+v", apps)
	}
	if nodes, _ := cl.Lookup(k); len(nodes) != 0 {
		t.Fatal("LogOnly executed the write")
	}
}

func TestStandaloneUnchangedByClusterRole(t *testing.T) {
	p := MustStart(Options{Permissive: true})
	defer p.Close()
	c := dialT(t, p.Addr())
	wantEq(t, c.do("CLUSTER", "NODES"), "OK")
	wantEq(t, c.do("ASKING"), "OK")
	wantEq(t, c.do("SELECT", "3"), "OK")
	wantEq(t, c.do("MSET", "a", "1", "b", "2"), "OK") // no slots in standalone
	if apps := p.Applied(); len(apps) != 3 || apps[0].Cmd != "CLUSTER" || apps[1].Cmd != "ASKING" {
		t.Fatalf("applied %+v", apps)
	}
	s := MustStart(Options{})
	defer s.Close()
	c = dialT(t, s.Addr())
	wantErrPrefix(t, c.do("CLUSTER", "NODES"), "ERR unknown command 'cluster'")
	wantErrPrefix(t, c.do("ASKING"), "ERR unknown command 'asking'")
	if str := c.do("INFO", "cluster").(string); !strings.Contains(str, "cluster_enabled:0") {
		t.Fatalf("%q", str)
	}
	rq := s.Requests()
	if rq[0].Kind != ReqRejected {
		t.Fatalf("kind %v", rq[0].Kind)
	}
}
