package fakeredis

import (
	"strconv"
	"strings"
)

func parseStreamID(b []byte, defSeq uint64) (StreamID, bool) {
	s := string(b)
	i := strings.IndexByte(s, '-')
	if i < 0 {
		ms, err := strconv.ParseUint(s, 10, 64)
		return StreamID{ms, defSeq}, err == nil
	}
	ms, err1 := strconv.ParseUint(s[:i], 10, 64)
	sq, err2 := strconv.ParseUint(s[i+1:], 10, 64)
	return StreamID{ms, sq}, err1 == nil && err2 == nil
}

func cmdXadd(cx *ctx, a [][]byte) Reply {
	i := 1
	maxlen := int64(-1)
	nomk := false
	for i < len(a) {
		switch up(a[i]) {
		case "NOMKSTREAM":
			nomk = true
			i++
			continue
		case "MAXLEN", "MINID":
			isMax := up(a[i]) == "MAXLEN"
			i++
			if i < len(a) && (string(a[i]) == "=" || string(a[i]) == "~") {
				i++
			}
			if i >= len(a) {
				return syntaxErr
			}
			if isMax {
				v, ok := atoi(a[i])
				if !ok || v < 0 {
					return notInt
				}
				maxlen = v
			}
			i++
			if i+1 < len(a) && up(a[i]) == "LIMIT" {
				i += 2
			}
			continue
		}
		break
	}
	if i >= len(a) {
		return syntaxErr
	}
	idArg := a[i]
	idIdx := i
	i++
	if (len(a)-i)%2 != 0 || len(a)-i == 0 {
		return Err("ERR wrong number of arguments for 'xadd' command")
	}
	o, e := cx.getKind(a[0], KStream)
	if e != nil {
		return e
	}
	if o == nil {
		if nomk {
			cx.noop = true
			return nil
		}
		o = &Obj{Kind: KStream, Stream: &Stream{}}
		cx.set(a[0], o)
	}
	st := o.Stream
	var id StreamID
	if string(idArg) == "*" {
		ms := uint64(cx.now)
		if ms <= st.LastID.MS {
			id = StreamID{st.LastID.MS, st.LastID.Seq + 1}
		} else {
			id = StreamID{ms, 0}
		}
	} else if strings.HasSuffix(string(idArg), "-*") {
		ms, err := strconv.ParseUint(strings.TrimSuffix(string(idArg), "-*"), 10, 64)
		if err != nil {
			return Err("ERR Invalid stream ID specified as stream command argument")
		}
		if ms == st.LastID.MS {
			id = StreamID{ms, st.LastID.Seq + 1}
		} else {
			id = StreamID{ms, 0}
		}
	} else {
		var ok bool
		id, ok = parseStreamID(idArg, 0)
		if !ok {
			return Err("ERR Invalid stream ID specified as stream command argument")
		}
	}
	if id == (StreamID{}) {
		return Err("ERR The ID specified in XADD must be greater than 0-0")
	}
	if !st.LastID.Less(id) {
		return Err("ERR The ID specified in XADD is equal or smaller than the target stream top item")
	}
	fields := make([][]byte, 0, len(a)-i)
	for ; i < len(a); i++ {
		fields = append(fields, a[i])
	}
	st.Entries = append(st.Entries, StreamEntry{ID: id, Fields: fields})
	st.LastID = id
	st.EntriesAdded++
	if maxlen >= 0 && int64(len(st.Entries)) > maxlen {
		cut := int64(len(st.Entries)) - maxlen
		if st.MaxDeleted.Less(st.Entries[cut-1].ID) {
			// trimming does not update max-deleted in Redis (only XDEL does); keep as is
		}
		st.Entries = append([]StreamEntry{}, st.Entries[cut:]...)
	}
	if string(idArg) == "*" || strings.HasSuffix(string(idArg), "-*") {
		// a master propagates the concrete id
		rw := [][]byte{[]byte("XADD")}
		for j := 0; j < len(a); j++ {
			if j == idIdx {
				rw = append(rw, []byte(id.String()))
			} else {
				rw = append(rw, a[j])
			}
		}
		cx.rewrite = rw
	}
	return []byte(id.String())
}

func cmdXsetid(cx *ctx, a [][]byte) Reply {
	o, e := cx.getKind(a[0], KStream)
	if e != nil {
		return e
	}
	if o == nil {
		return Err("ERR no such key")
	}
	id, ok := parseStreamID(a[1], 0)
	if !ok {
		return Err("ERR Invalid stream ID specified as stream command argument")
	}
	added := int64(-1)
	maxDel := StreamID{}
	haveMaxDel := false
	for i := 2; i < len(a); i++ {
		switch up(a[i]) {
		case "ENTRIESADDED":
			if i+1 >= len(a) {
				return syntaxErr
			}
			v, ok := atoi(a[i+1])
			if !ok || v < 0 {
				return notInt
			}
			added = v
			i++
		case "MAXDELETEDID":
			if i+1 >= len(a) {
				return syntaxErr
			}
			m, ok := parseStreamID(a[i+1], 0)
			if !ok {
				return Err("ERR Invalid stream ID specified as stream command argument")
			}
			maxDel, haveMaxDel = m, true
			i++
		default:
			return syntaxErr
		}
	}
	if (added >= 0) != haveMaxDel {
		return syntaxErr
	}
	st := o.Stream
	if haveMaxDel && id.Less(maxDel) {
		return Err("ERR The ID specified in XSETID is smaller than the provided max_deleted_entry_id")
	}
	if len(st.Entries) > 0 {
		top := st.Entries[len(st.Entries)-1].ID
		if id.Less(top) {
			return Err("ERR The ID specified in XSETID is smaller than the target stream top item")
		}
		if added >= 0 && added < int64(len(st.Entries)) {
			return Err("ERR The entries_added specified in XSETID is smaller than the target stream length")
		}
	}
	st.LastID = id
	if added >= 0 {
		st.EntriesAdded = added
		st.MaxDeleted = maxDel
	}
	return OK
}

func cmdXgroup(cx *ctx, a [][]byte) Reply {
	sub := up(a[0])
	switch sub {
	case "CREATE":
		if len(a) < 4 {
			return syntaxErr
		}
		mk := false
		read := int64(-1)
		for i := 4; i < len(a); i++ {
			switch up(a[i]) {
			case "MKSTREAM":
				mk = true
			case "ENTRIESREAD":
				if i+1 >= len(a) {
					return syntaxErr
				}
				v, ok := atoi(a[i+1])
				if !ok {
					// the tool may send uint64(-1) for "unknown"; Redis rejects values < -1 / non-integers
					return notInt
				}
				read = v
				i++
			default:
				return syntaxErr
			}
		}
		o, e := cx.getKind(a[1], KStream)
		if e != nil {
			return e
		}
		if o == nil {
			if !mk {
				return Err("ERR The XGROUP subcommand requires the key to exist. Note that for CREATE you may want to use the MKSTREAM option to create an empty stream automatically.")
			}
			o = &Obj{Kind: KStream, Stream: &Stream{}}
			cx.set(a[1], o)
		}
		var id StreamID
		if string(a[3]) == "$" {
			id = o.Stream.LastID
		} else {
			var ok bool
			id, ok = parseStreamID(a[3], 0)
			if !ok {
				return Err("ERR Invalid stream ID specified as stream command argument")
			}
		}
		for _, g := range o.Stream.Groups {
			if g.Name == string(a[2]) {
				return Err("BUSYGROUP Consumer Group name already exists")
			}
		}
		o.Stream.Groups = append(o.Stream.Groups, &StreamGroup{Name: string(a[2]), LastID: id, EntriesRead: read})
		return OK
	case "CREATECONSUMER":
		if len(a) != 4 {
			return syntaxErr
		}
		o, e := cx.getKind(a[1], KStream)
		if e != nil {
			return e
		}
		if o == nil {
			return Err("ERR The XGROUP subcommand requires the key to exist.")
		}
		for _, g := range o.Stream.Groups {
			if g.Name == string(a[2]) {
				for _, c := range g.Consumers {
					if c == string(a[3]) {
						return int64(0)
					}
				}
				g.Consumers = append(g.Consumers, string(a[3]))
				return int64(1)
			}
		}
		return Err("NOGROUP No such consumer group")
	}
	return Err("ERR unknown XGROUP subcommand")
}

func cmdXclaim(cx *ctx, a [][]byte) Reply {
	// XCLAIM key group consumer min-idle id [id ...] [TIME ms] [RETRYCOUNT n] [FORCE] [JUSTID]
	o, e := cx.getKind(a[0], KStream)
	if e != nil {
		return e
	}
	if o == nil {
		return Err("NOGROUP No such key or consumer group")
	}
	var grp *StreamGroup
	for _, g := range o.Stream.Groups {
		if g.Name == string(a[1]) {
			grp = g
		}
	}
	if grp == nil {
		return Err("NOGROUP No such key or consumer group")
	}
	if _, ok := atoi(a[3]); !ok {
		return Err("ERR Invalid min-idle-time argument for XCLAIM")
	}
	var ids []StreamID
	i := 4
	for ; i < len(a); i++ {
		id, ok := parseStreamID(a[i], 0)
		if !ok {
			break
		}
		ids = append(ids, id)
	}
	if len(ids) == 0 {
		return Err("ERR Invalid stream ID specified as stream command argument")
	}
	tm, retry := cx.now, int64(1)
	force, justid := false, false
	for ; i < len(a); i++ {
		switch up(a[i]) {
		case "TIME", "IDLE", "RETRYCOUNT", "LASTID":
			if i+1 >= len(a) {
				return syntaxErr
			}
			if up(a[i]) != "LASTID" {
				v, ok := atoi(a[i+1])
				if !ok {
					return notInt
				}
				if up(a[i]) == "TIME" {
					tm = v
				} else if up(a[i]) == "RETRYCOUNT" {
					retry = v
				}
			}
			i++
		case "FORCE":
			force = true
		case "JUSTID":
			justid = true
		default:
			return syntaxErr
		}
	}
	_ = justid
	out := []Reply{}
	for _, id := range ids {
		found := false
		for pi := range grp.Pending {
			if grp.Pending[pi].ID == id {
				grp.Pending[pi].Consumer = string(a[2])
				grp.Pending[pi].DeliveryTime = tm
				grp.Pending[pi].DeliveryCount = retry
				found = true
			}
		}
		if !found {
			if !force {
				continue
			}
			// FORCE creates the PEL entry only if the entry exists in the stream
			exists := false
			for _, en := range o.Stream.Entries {
				if en.ID == id {
					exists = true
				}
			}
			if !exists {
				continue
			}
			grp.Pending = append(grp.Pending, StreamPending{ID: id, Consumer: string(a[2]), DeliveryTime: tm, DeliveryCount: retry})
		}
		hasC := false
		for _, c := range grp.Consumers {
			if c == string(a[2]) {
				hasC = true
			}
		}
		if !hasC {
			grp.Consumers = append(grp.Consumers, string(a[2]))
		}
		out = append(out, []byte(id.String()))
	}
	return out
}

// cmdRestore: RESTORE key ttl payload [REPLACE] [ABSTTL] [IDLETIME s] [FREQ f]
func cmdRestore(cx *ctx, a [][]byte) Reply {
	ttl, ok := atoi(a[1])
	if !ok || ttl < 0 {
		return Err("ERR Invalid TTL value, must be >= 0")
	}
	replace, abs := false, false
	for i := 3; i < len(a); i++ {
		switch up(a[i]) {
		case "REPLACE":
			replace = true
		case "ABSTTL":
			abs = true
		case "IDLETIME", "FREQ":
			if i+1 >= len(a) {
				return syntaxErr
			}
			if _, ok := atoi(a[i+1]); !ok {
				return Err("ERR Invalid IDLETIME/FREQ value")
			}
			i++
		default:
			return syntaxErr
		}
	}
	// Redis order: busy-key check first, then payload verification
	if !replace && cx.get(a[0]) != nil {
		return Err("BUSYKEY Target key name already exists.")
	}
	var o *Obj
	if cx.s.opt.RestoreDecoder != nil {
		var err error
		o, err = cx.s.opt.RestoreDecoder(a[2], cx.s.opt.MaxRdbVersion)
		if err != nil {
			return Err("ERR DUMP payload version or checksum are wrong")
		}
		if o == nil {
			return Err("ERR Bad data format")
		}
	} else {
		o = &Obj{Kind: KString, Str: append([]byte("\x00RESTORED\x00"), a[2]...)}
	}
	if ttl != 0 {
		if abs {
			o.ExpireAt = ttl
		} else {
			o.ExpireAt = cx.now + ttl
		}
		if o.ExpireAt <= cx.now {
			// already expired: Redis deletes the old key (REPLACE) and does not create the new one
			delete(cx.d(), string(a[0]))
			cx.rewrite = [][]byte{[]byte("DEL"), a[0]}
			return OK
		}
		rw := [][]byte{[]byte("RESTORE"), a[0], []byte(strconv.FormatInt(o.ExpireAt, 10)), a[2]}
		if replace {
			rw = append(rw, []byte("REPLACE"))
		}
		rw = append(rw, []byte("ABSTTL"))
		cx.rewrite = rw
	}
	cx.set(a[0], o)
	return OK
}
