package fakeredis

// Propagation module: turns the commands executed on the double into the replication stream a
// Redis master would emit for them (DESIGN.md §2.1).
//
//	p := srv.EnablePropagation()                    // before traffic
//	p.Bytes() / p.Since(off) / p.End() / p.Base()   // the stream, absolute offsets
//	p.OnAppend(func(off int64, b []byte){ src.Append(b) })   // callback per appended chunk (e.g. into the source role)
//	rd := p.Reader(off)                             // blocking io.Reader over the live stream (Hold/Limit/Close)
//	p.Log()                                         // parsed log of what was propagated (and what was omitted)
//
// Rules (replication.c / multi.c / the commands' own rewrites):
//   - only data-modifying commands that succeeded and changed something are propagated
//     (cx.noop = true → omitted; recorded in the log as PropNoop without bytes);
//   - what is propagated is cx.rewrite when the command set one (SET … PX → SET … PXAT, EXPIRE →
//     PEXPIREAT, RESTORE ttl → RESTORE abs ABSTTL, XADD * → XADD <id>, expired-at-once → DEL),
//     else the command as received.  DEL/UNLINK are propagated verbatim (delGenericCommand never
//     rewrites its argument vector, whatever subset of the keys existed);
//   - `SELECT <db>` is emitted whenever the DB of the executing client differs from the DB of
//     the last propagated command (server.slaveseldb; initially unknown, so the stream starts
//     with a SELECT);
//   - the writes of one EXEC are wrapped in MULTI … EXEC.  A transaction all of whose commands
//     were no-ops, reads or errors propagates nothing.  Redis ≥ 7 (propagatePendingCommands) does
//     not wrap a transaction that propagates exactly one command ("the single command is
//     atomic"); Redis < 7 (execCommandPropagateMulti) wraps as soon as one command is propagated.
//     The double follows Options.Version unless PropagationOptions.WrapSingle overrides it.
//     Where the SELECT a transaction needs goes depends on the version as well: Redis ≥ 7 feeds
//     MULTI with dbid -1 ("we do not want to replicate SELECT. It'll be inserted together with the
//     next command (inside the MULTI)"), so the lazy SELECT stands INSIDE the block in front of
//     the first member; Redis < 7 (execCommandPropagateMulti(c->db->id)) emits it before MULTI.
//     A SELECT executed by the client inside the transaction shows up inside the block in both.
//   - the stream's current database is server.slaveseldb: -1 on a fresh stream and again whenever
//     a replica attaches (ReplicaAttached), so the next propagated command is preceded by a SELECT.
//
// Not modelled: lazy-expiry DELs a master emits when a command finds a key expired (checks keep
// TTLs far in the future), active expiry, eviction, script effects replication.

import (
	"bytes"
	"errors"
	"io"
	"strconv"
	"strings"
	"sync"
)

type PropKind int

const (
	PropWrite  PropKind = iota // a data command (possibly rewritten)
	PropSelect                 // SELECT <db> emitted by the master
	PropMulti                  // MULTI
	PropExec                   // EXEC
	PropNoop                   // an executed write that changed nothing: omitted (no bytes)
	PropPing                   // the master's periodic PING (AppendPing)
)

func (k PropKind) String() string {
	return [...]string{"write", "select", "multi", "exec", "noop", "ping"}[k]
}

// Rewrite kinds reported in PropCmd.Rewrite.
const (
	RwPXAT      = "set-pxat"       // SET/SETEX/PSETEX with a relative or second-resolution expiry → SET k v PXAT ms
	RwSetPlain  = "set-flags"      // SET … NX|XX|GET → SET k v [KEEPTTL]
	RwPExpireAt = "pexpireat"      // EXPIRE/PEXPIRE/EXPIREAT → PEXPIREAT ms
	RwAbsTTL    = "restore-absttl" // RESTORE k ttl … → RESTORE k abs … ABSTTL
	RwXaddID    = "xadd-id"        // XADD k * … → XADD k <ms-seq> …
	RwDelExpire = "del-expired"    // a command that makes the key expire at once → DEL k
	RwOther     = "other"
)

// PropCmd is one entry of the propagation log.
type PropCmd struct {
	Idx   int
	Kind  PropKind
	Start int64    // absolute offset of the first byte
	End   int64    // absolute offset just past the last byte (== Start for PropNoop)
	DB    int      // DB in force for the command
	Args  [][]byte // as emitted, command name first (nil for PropNoop)
	// the command as the client sent it (PropWrite / PropNoop)
	OrigCmd  string
	OrigArgs [][]byte
	Rewrite  string // "" = verbatim, else one of the Rw* kinds
	Conn     int64  // connection that executed it
	ReqSeq   int64  // request that made it take effect (the EXEC for transaction members)
	Txn      int64  // source transaction (Seq of the EXEC) or 0
	Pos      int    // position inside the source transaction
	Unit     int    // propagation unit: a bare command or one MULTI … EXEC block (SELECTs belong to the unit they precede); -1 for PropNoop
	Wrapped  bool   // emitted inside a MULTI … EXEC block
}

// Name returns the emitted command name in upper case ("" for a no-op entry).
func (c *PropCmd) Name() string {
	if len(c.Args) == 0 {
		return ""
	}
	return strings.ToUpper(string(c.Args[0]))
}

// PropagationOptions configure EnablePropagation.
type PropagationOptions struct {
	// Base is the absolute offset of the first stream byte (a master's repl offset before it).
	Base int64
	// WrapSingle: 0 = follow Options.Version (wrap single-command transactions iff major < 7),
	// +1 = always wrap a transaction that propagates at least one command, -1 = never wrap a
	// transaction that propagates exactly one command.
	WrapSingle int
	// SelectInMulti: 0 = follow Options.Version (the lazy SELECT of a wrapped transaction stands
	// inside the MULTI block iff major >= 7), +1 = inside, -1 = before MULTI.
	SelectInMulti int
}

type propOp struct {
	db      int
	cmd     string
	args    [][]byte
	out     [][]byte
	rewrite string
	conn    int64
	reqSeq  int64
	txn     int64
	pos     int
}

// Propagation is the handle returned by EnablePropagation.
type Propagation struct {
	srv           *Server
	wrapSingle    bool
	selectInMulti bool

	mu     sync.Mutex
	base   int64
	buf    []byte
	log    []PropCmd
	lastDB int
	units  int
	wake   chan struct{}
	closed bool
	onApp  []func(off int64, b []byte)
	stats  map[string]int64

	// transaction being executed (touched only with the server lock held)
	inTxn   bool
	txnSeq  int64
	pending []propOp
}

// propagator is the name server.go knows the role by.
type propagator = Propagation

// EnablePropagation gives the server the propagation role.  Call before the traffic whose
// stream is wanted; commands executed earlier are not part of the stream.
func (s *Server) EnablePropagation(opts ...PropagationOptions) *Propagation {
	var o PropagationOptions
	if len(opts) > 0 {
		o = opts[0]
	}
	p := &Propagation{srv: s, base: o.Base, lastDB: -1, wake: make(chan struct{}), stats: map[string]int64{}}
	switch {
	case o.WrapSingle > 0:
		p.wrapSingle = true
	case o.WrapSingle < 0:
		p.wrapSingle = false
	default:
		p.wrapSingle = majorVersion(s.opt.Version) < 7
	}
	switch {
	case o.SelectInMulti > 0:
		p.selectInMulti = true
	case o.SelectInMulti < 0:
		p.selectInMulti = false
	default:
		p.selectInMulti = majorVersion(s.opt.Version) >= 7
	}
	s.mu.Lock()
	s.prop = p
	s.mu.Unlock()
	return p
}

// Propagation returns the propagation role (nil when not enabled).
func (s *Server) Propagation() *Propagation {
	s.mu.Lock()
	defer s.mu.Unlock()
	return s.prop
}

func majorVersion(v string) int {
	if i := strings.IndexByte(v, '.'); i >= 0 {
		v = v[:i]
	}
	n, err := strconv.Atoi(v)
	if err != nil {
		return 7
	}
	return n
}

// SelectsInMulti reports whether the lazy SELECT of a wrapped transaction stands inside the block.
func (p *Propagation) SelectsInMulti() bool { return p.selectInMulti }

// ReplicaAttached models a replica attaching to the master (PSYNC / full sync): the master
// forgets the stream's current database (server.slaveseldb = -1), so the next propagated command
// is preceded by a SELECT whatever the database.
func (p *Propagation) ReplicaAttached() {
	p.mu.Lock()
	p.lastDB = -1
	p.mu.Unlock()
}

// WrapsSingle reports whether a transaction that propagates exactly one command is wrapped.
func (p *Propagation) WrapsSingle() bool { return p.wrapSingle }

// ---------------------------------------------------------------------------------------------
// hooks called by server.go with the server lock held

// txnBegin / txnEnd bracket the EXEC loop.
func (p *Propagation) txnBegin(c *conn, execSeq int64) {
	p.inTxn, p.txnSeq, p.pending = true, execSeq, p.pending[:0]
}

func (p *Propagation) txnEnd(c *conn) {
	ops := p.pending
	p.inTxn, p.pending = false, nil
	if len(ops) == 0 {
		return
	}
	p.emit(ops, len(ops) > 1 || p.wrapSingle)
}

// onApplied is called for every data-modifying command that executed without an error reply.
func (p *Propagation) onApplied(s *Server, c *conn, cmd string, args [][]byte, txn int64, pos int, cx *ctx) {
	reqSeq := s.seq
	if cx.noop {
		p.mu.Lock()
		p.log = append(p.log, PropCmd{Idx: len(p.log), Kind: PropNoop, Start: p.base + int64(len(p.buf)), End: p.base + int64(len(p.buf)),
			DB: cx.db, OrigCmd: cmd, OrigArgs: args, Conn: c.id, ReqSeq: reqSeq, Txn: txn, Pos: pos, Unit: -1})
		p.stats["noop_omitted"]++
		p.mu.Unlock()
		return
	}
	var outs [][][]byte
	switch {
	case len(cx.rewrites) > 0:
		outs = cx.rewrites
	case cx.rewrite != nil && !((cmd == "DEL" || cmd == "UNLINK") && up(cx.rewrite[0]) == "DEL"):
		outs = [][][]byte{cx.rewrite}
	default:
		outs = [][][]byte{append([][]byte{[]byte(cmd)}, args...)}
	}
	ops := make([]propOp, 0, len(outs))
	for _, o := range outs {
		ops = append(ops, propOp{db: cx.db, cmd: cmd, args: args, out: o, rewrite: rewriteKind(cmd, args, o), conn: c.id, reqSeq: reqSeq, txn: txn, pos: pos})
	}
	if p.inTxn && txn != 0 {
		p.pending = append(p.pending, ops...)
		return
	}
	// a command outside MULTI that propagates several commands is wrapped (also_propagate)
	p.emit(ops, len(ops) > 1)
}

// rewriteKind classifies what the master did to the command ("" = propagated verbatim).
func rewriteKind(cmd string, args [][]byte, out [][]byte) string {
	if len(out) == len(args)+1 && up(out[0]) == cmd {
		same := true
		for i := range args {
			if !bytes.Equal(args[i], out[i+1]) {
				same = false
				break
			}
		}
		if same {
			return ""
		}
	}
	name := up(out[0])
	has := func(v [][]byte, w string) bool {
		for _, a := range v {
			if up(a) == w {
				return true
			}
		}
		return false
	}
	switch {
	case name == "DEL" && cmd != "DEL" && cmd != "UNLINK":
		return RwDelExpire
	case name == "PEXPIREAT":
		return RwPExpireAt
	case name == "SET" && has(out[3:], "PXAT"):
		return RwPXAT
	case name == "SET" && cmd == "SET":
		return RwSetPlain
	case name == "RESTORE" && has(out[4:], "ABSTTL"):
		return RwAbsTTL
	case name == "XADD":
		return RwXaddID
	}
	return RwOther
}

func encodeCmd(b *bytes.Buffer, args [][]byte) {
	b.WriteByte('*')
	b.WriteString(strconv.Itoa(len(args)))
	b.WriteString("\r\n")
	for _, a := range args {
		b.WriteByte('$')
		b.WriteString(strconv.Itoa(len(a)))
		b.WriteString("\r\n")
		b.Write(a)
		b.WriteString("\r\n")
	}
}

// emit appends one propagation unit.
func (p *Propagation) emit(ops []propOp, wrap bool) {
	var out bytes.Buffer
	p.mu.Lock()
	start := p.base + int64(len(p.buf))
	unit := p.units
	p.units++
	add := func(kind PropKind, db int, args [][]byte, op *propOp) {
		s0 := start + int64(out.Len())
		encodeCmd(&out, args)
		e := PropCmd{Idx: len(p.log), Kind: kind, Start: s0, End: start + int64(out.Len()), DB: db, Args: args, Unit: unit, Wrapped: wrap,
			Conn: op.conn, ReqSeq: op.reqSeq, Txn: op.txn, Pos: op.pos}
		if kind == PropWrite {
			e.OrigCmd, e.OrigArgs, e.Rewrite = op.cmd, op.args, op.rewrite
		}
		p.log = append(p.log, e)
	}
	sel := func(db int, op *propOp) {
		if db != p.lastDB {
			add(PropSelect, db, [][]byte{[]byte("SELECT"), []byte(strconv.Itoa(db))}, op)
			p.lastDB = db
			p.stats["select_emitted"]++
		}
	}
	if wrap {
		if !p.selectInMulti {
			sel(ops[0].db, &ops[0])
		}
		add(PropMulti, ops[0].db, [][]byte{[]byte("MULTI")}, &ops[0])
		p.stats["multi_emitted"]++
	} else if ops[0].txn != 0 {
		p.stats["txn_unwrapped_single"]++
	}
	for i := range ops {
		op := &ops[i]
		sel(op.db, op)
		add(PropWrite, op.db, op.out, op)
		p.stats["write_propagated"]++
		if op.rewrite != "" {
			p.stats["rewrite|"+op.rewrite]++
		}
	}
	if wrap {
		add(PropExec, p.lastDB, [][]byte{[]byte("EXEC")}, &ops[len(ops)-1])
	}
	chunk := out.Bytes()
	p.buf = append(p.buf, chunk...)
	close(p.wake)
	p.wake = make(chan struct{})
	cbs := p.onApp
	p.mu.Unlock()
	for _, fn := range cbs {
		fn(start, chunk)
	}
}

// MasterConn is the connection number the log attributes the master's own traffic to (AppendPing).
const MasterConn int64 = -2

// AppendPing appends the PING a master sends to its replicas every repl-ping-replica-period
// (replicationCron → replicationFeedSlaves with dictid -1: no SELECT, never inside a MULTI block).
func (p *Propagation) AppendPing() {
	p.srv.mu.Lock()
	defer p.srv.mu.Unlock()
	var out bytes.Buffer
	p.mu.Lock()
	start := p.base + int64(len(p.buf))
	args := [][]byte{[]byte("PING")}
	encodeCmd(&out, args)
	p.log = append(p.log, PropCmd{Idx: len(p.log), Kind: PropPing, Start: start, End: start + int64(out.Len()), DB: p.lastDB, Args: args,
		Unit: p.units, Conn: MasterConn})
	p.units++
	p.stats["ping_emitted"]++
	chunk := out.Bytes()
	p.buf = append(p.buf, chunk...)
	close(p.wake)
	p.wake = make(chan struct{})
	cbs := p.onApp
	p.mu.Unlock()
	for _, fn := range cbs {
		fn(start, chunk)
	}
}

// AppendUnit injects one propagation unit into the stream as if connection conn had executed
// cmds (command name first) in database db: a directed probe for stream shapes the double's
// command model does not produce by itself (e.g. the lazy-expiry DEL a master places in front
// of a command that found its key expired).  wrap = inside MULTI … EXEC.
func (p *Propagation) AppendUnit(db int, conn int64, cmds [][][]byte, wrap bool) {
	if len(cmds) == 0 {
		return
	}
	p.srv.mu.Lock()
	defer p.srv.mu.Unlock()
	p.srv.seq++ // a request number of its own, so that the unit is not confused with a real request
	ops := make([]propOp, 0, len(cmds))
	for i, c := range cmds {
		txn := int64(0)
		if wrap {
			txn = p.srv.seq
		}
		ops = append(ops, propOp{db: db, cmd: up(c[0]), args: c[1:], out: c, conn: conn, reqSeq: p.srv.seq, txn: txn, pos: i})
	}
	p.emit(ops, wrap)
}

// ---------------------------------------------------------------------------------------------
// output API

// Base returns the absolute offset of the first stream byte.
func (p *Propagation) Base() int64 {
	p.mu.Lock()
	defer p.mu.Unlock()
	return p.base
}

// End returns the absolute offset just past the last byte produced so far.
func (p *Propagation) End() int64 {
	p.mu.Lock()
	defer p.mu.Unlock()
	return p.base + int64(len(p.buf))
}

// Bytes returns a copy of the whole stream (offsets Base() … End()).
func (p *Propagation) Bytes() []byte {
	p.mu.Lock()
	defer p.mu.Unlock()
	return append([]byte{}, p.buf...)
}

// Since returns a copy of the bytes from absolute offset off (clamped to [Base, End]).
func (p *Propagation) Since(off int64) []byte {
	p.mu.Lock()
	defer p.mu.Unlock()
	i := off - p.base
	if i < 0 {
		i = 0
	}
	if i > int64(len(p.buf)) {
		i = int64(len(p.buf))
	}
	return append([]byte{}, p.buf[i:]...)
}

// OnAppend registers fn, called (with the server lock held, in stream order) for every chunk
// appended: off is the absolute offset of b[0].  A chunk is one whole propagation unit.
func (p *Propagation) OnAppend(fn func(off int64, b []byte)) {
	p.mu.Lock()
	p.onApp = append(p.onApp, fn)
	p.mu.Unlock()
}

// Log returns a copy of the propagation log.
func (p *Propagation) Log() []PropCmd {
	p.mu.Lock()
	defer p.mu.Unlock()
	return append([]PropCmd{}, p.log...)
}

// LogSince returns the log entries with Idx >= idx.
func (p *Propagation) LogSince(idx int) []PropCmd {
	p.mu.Lock()
	defer p.mu.Unlock()
	if idx < 0 {
		idx = 0
	}
	if idx > len(p.log) {
		idx = len(p.log)
	}
	return append([]PropCmd{}, p.log[idx:]...)
}

// Stats returns counters: write_propagated, noop_omitted, select_emitted, multi_emitted,
// txn_unwrapped_single, rewrite|<kind>.
func (p *Propagation) Stats() map[string]int64 {
	p.mu.Lock()
	defer p.mu.Unlock()
	m := make(map[string]int64, len(p.stats))
	for k, v := range p.stats {
		m[k] = v
	}
	return m
}

// Wait blocks until End() > off, the propagation is closed, or stop is closed; it returns End().
func (p *Propagation) Wait(off int64, stop <-chan struct{}) int64 {
	for {
		p.mu.Lock()
		end := p.base + int64(len(p.buf))
		w, closed := p.wake, p.closed
		p.mu.Unlock()
		if end > off || closed {
			return end
		}
		select {
		case <-w:
		case <-stop:
			return end
		}
	}
}

// Close ends the stream: blocked readers return io.EOF after the bytes produced so far.
func (p *Propagation) Close() {
	p.mu.Lock()
	if !p.closed {
		p.closed = true
		close(p.wake)
		p.wake = make(chan struct{})
	}
	p.mu.Unlock()
}

// ErrPropReaderClosed is returned by a PropReader closed with Close.
var ErrPropReaderClosed = errors.New("fakeredis: propagation reader closed")

// PropReader is a blocking io.Reader over the live stream.
type PropReader struct {
	p      *Propagation
	pos    int64 // absolute offset of the next byte (guarded by p.mu)
	limit  int64 // never hand out bytes at or beyond this absolute offset; -1 = none
	closed bool
	handed int64
}

// Reader returns a reader positioned at absolute offset from (clamped to [Base, End]).  Read
// blocks while no byte is available and returns io.EOF once the propagation was closed and
// everything was read.
func (p *Propagation) Reader(from int64) *PropReader {
	p.mu.Lock()
	defer p.mu.Unlock()
	if from < p.base {
		from = p.base
	}
	if end := p.base + int64(len(p.buf)); from > end {
		from = end
	}
	return &PropReader{p: p, pos: from, limit: -1}
}

func (r *PropReader) Read(b []byte) (int, error) {
	if len(b) == 0 {
		return 0, nil
	}
	p := r.p
	for {
		p.mu.Lock()
		if r.closed {
			p.mu.Unlock()
			return 0, ErrPropReaderClosed
		}
		end := p.base + int64(len(p.buf))
		hi := end
		if r.limit >= 0 && r.limit < hi {
			hi = r.limit
		}
		if hi > r.pos {
			n := copy(b, p.buf[r.pos-p.base:hi-p.base])
			r.pos += int64(n)
			r.handed += int64(n)
			p.mu.Unlock()
			return n, nil
		}
		if p.closed && r.pos >= end {
			p.mu.Unlock()
			return 0, io.EOF
		}
		w := p.wake
		p.mu.Unlock()
		<-w
	}
}

func (r *PropReader) wakeAllLocked() {
	close(r.p.wake)
	r.p.wake = make(chan struct{})
}

// Pos returns the absolute offset of the next byte the reader will hand out.
func (r *PropReader) Pos() int64 {
	r.p.mu.Lock()
	defer r.p.mu.Unlock()
	return r.pos
}

// Handed returns the number of bytes handed out so far.
func (r *PropReader) Handed() int64 {
	r.p.mu.Lock()
	defer r.p.mu.Unlock()
	return r.handed
}

// SetLimit: bytes at absolute offsets >= limit are withheld (replication lag / partition);
// -1 removes the limit.
func (r *PropReader) SetLimit(limit int64) {
	r.p.mu.Lock()
	r.limit = limit
	r.wakeAllLocked()
	r.p.mu.Unlock()
}

// Hold withholds everything not handed out yet; it returns the position held at.
func (r *PropReader) Hold() int64 {
	r.p.mu.Lock()
	defer r.p.mu.Unlock()
	r.limit = r.pos
	return r.pos
}

// Release removes the limit.
func (r *PropReader) Release() { r.SetLimit(-1) }

// Close makes pending and later Reads fail.
func (r *PropReader) Close() error {
	r.p.mu.Lock()
	if !r.closed {
		r.closed = true
		r.wakeAllLocked()
	}
	r.p.mu.Unlock()
	return nil
}
