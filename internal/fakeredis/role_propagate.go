package fakeredis

// Propagation module (placeholder until built): turns applied commands into the replication
// stream a master would emit.  See DESIGN.md §2.1.

type propagator struct{}

func (p *propagator) onApplied(s *Server, c *conn, cmd string, args [][]byte, txn int64, pos int, cx *ctx) {
}
