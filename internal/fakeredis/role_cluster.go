package fakeredis

// Cluster role (placeholder until built): see DESIGN.md §2.1 "Cluster role".

type ClusterNode struct{}

func (n *ClusterNode) check(s *Server, c *conn, cmd string, args [][]byte) Reply { return nil }
func (n *ClusterNode) checkTxn(s *Server, c *conn, q []queued) Reply             { return nil }
