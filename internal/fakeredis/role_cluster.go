package fakeredis

// Cluster role: several Servers form one Redis Cluster sharing a slot table (DESIGN.md §2.1).
//
//	cl := fakeredis.NewCluster(3, fakeredis.Options{})        // 3 masters, slots split evenly
//	defer cl.Close()
//	cl.Addrs()                                                // loop-back addresses of the nodes
//	cl.At(cl.ReqCount()+40, func(t *fakeredis.Topo) {         // scripted topology change
//		t.SetMigrating(slot, to)                              //   owner: MIGRATING(to), to: IMPORTING(owner)
//		t.MoveKeys(slot, "k1")                                //   MIGRATE some (or all) keys
//		t.SetSlotOwner(slot, to)                              //   CLUSTER SETSLOT <slot> NODE <to> everywhere
//	})
//	cl.Applied()                                              // globally ordered effect log (Node on each entry)
//
// Ordering: every request of every node is processed while holding ONE cluster-wide lock
// (taken in Server.handleLocked through ClusterNode.enter/leave), so requests, effects and
// topology changes are totally ordered; GReq is the 1-based cluster-wide request number, GSeq
// the cluster-wide effect number.
//
// Routing is decided before execution exactly where Redis decides it (getNodeByQuery): slots are
// computed with ref.HashSlot (the independent spec implementation), never with code of the
// repository under test.

import (
	"fmt"
	"sort"
	"strings"
	"sync"
	"time"

	"verif/internal/ref"
)

// NumSlots is the number of hash slots.
const NumSlots = ref.Slots

// CApp is one entry of the cluster-wide effect log.
type CApp struct {
	GSeq int64 // cluster-wide effect sequence number (1-based, total order)
	GReq int64 // cluster-wide number of the request that made it take effect
	Node int   // index of the node that executed it
	App
}

// CReq is one entry of the cluster-wide request log.
type CReq struct {
	GReq int64
	Node int
	Req
}

// TopoEvent records a topology change (for witnesses).
type TopoEvent struct {
	AfterGReq int64 // happened after this many requests had been processed cluster-wide
	AfterGSeq int64 // ... and after this many effects
	What      string
}

type schedItem struct {
	at int64
	fn func(t *Topo)
}

// Cluster is a set of Servers sharing one slot table.
type Cluster struct {
	mu    sync.Mutex // THE cluster-wide lock (order: Server.mu, then Cluster.mu)
	opt   Options
	nodes []*Server

	owner [NumSlots]int // slot -> node index

	reqN int64
	gseq int64

	applied []CApp
	reqs    []CReq
	events  []TopoEvent
	redir   map[string]int64 // MOVED / ASK / TRYAGAIN / CROSSSLOT replies served

	sched []schedItem

	onApplied func(a *CApp)
	onRequest func(r *CReq)
	keepReqs  bool
	closed    bool
}

// ClusterNode is the per-Server part of the cluster role.
type ClusterNode struct {
	cl        *Cluster
	idx       int
	id        string      // 40 hex characters
	migrating map[int]int // slot -> target node (I own the slot and am migrating it away)
	importing map[int]int // slot -> source node (I am receiving the slot)
	appMark   int         // len(s.applied) already merged into the cluster log
}

// Topo is the handle for topology manipulation; it is only valid inside Cluster.Update /
// Cluster.At callbacks (the cluster-wide lock is held).  Do not call locking methods of Cluster
// or of the node Servers (Do, Snapshot, Kill, ...) from inside a callback.
type Topo struct {
	cl    *Cluster
	quiet bool // composite operations log one event instead of one per step
}

// NewCluster starts n master nodes on loop-back ports; the 16384 slots are split evenly
// (node i owns [i*16384/n, (i+1)*16384/n) ).
func NewCluster(n int, opt Options) *Cluster {
	if n < 1 {
		panic("fakeredis: NewCluster needs at least one node")
	}
	cl := &Cluster{opt: opt, redir: map[string]int64{}, keepReqs: true}
	for i := 0; i < n; i++ {
		cl.addNodeLocked()
	}
	for s := 0; s < NumSlots; s++ {
		cl.owner[s] = s * n / NumSlots
	}
	return cl
}

func (cl *Cluster) addNodeLocked() int {
	s := New(cl.opt)
	idx := len(cl.nodes)
	s.cluster = &ClusterNode{cl: cl, idx: idx, id: fmt.Sprintf("%040x", idx+1),
		migrating: map[int]int{}, importing: map[int]int{}}
	if err := s.Start(); err != nil {
		panic(err)
	}
	cl.nodes = append(cl.nodes, s)
	return idx
}

// Close stops every node.
func (cl *Cluster) Close() {
	cl.mu.Lock()
	cl.closed = true
	nodes := append([]*Server{}, cl.nodes...)
	cl.mu.Unlock()
	for _, s := range nodes {
		s.Close()
	}
}

// ---- read accessors (take the cluster lock)

func (cl *Cluster) NumNodes() int {
	cl.mu.Lock()
	defer cl.mu.Unlock()
	return len(cl.nodes)
}

// Node returns the i-th node's Server (for CutAfter/Kill/SetHooks...).  Its keyspace and logs
// should be read through the Cluster accessors while traffic is running.
func (cl *Cluster) Node(i int) *Server {
	cl.mu.Lock()
	defer cl.mu.Unlock()
	return cl.nodes[i]
}

func (cl *Cluster) Addr(i int) string { return cl.Node(i).Addr() }

func (cl *Cluster) Addrs() []string {
	cl.mu.Lock()
	defer cl.mu.Unlock()
	out := make([]string, len(cl.nodes))
	for i, s := range cl.nodes {
		out[i] = s.addr
	}
	return out
}

// NodeID returns the 40-character node id of node i.
func (cl *Cluster) NodeID(i int) string { return cl.Node(i).cluster.id }

// Slot is HASH_SLOT(key) by the reference implementation.
func Slot(key []byte) int { return ref.HashSlot(key) }

func (cl *Cluster) Owner(slot int) int {
	cl.mu.Lock()
	defer cl.mu.Unlock()
	return cl.owner[slot]
}

// OwnerOfKey returns the node index currently owning key's slot.
func (cl *Cluster) OwnerOfKey(key []byte) int { return cl.Owner(Slot(key)) }

// SlotRanges returns the sorted, maximal [left,right] slot ranges owned by node i.
func (cl *Cluster) SlotRanges(i int) [][2]int {
	cl.mu.Lock()
	defer cl.mu.Unlock()
	return cl.rangesLocked(i)
}

func (cl *Cluster) rangesLocked(i int) [][2]int {
	var out [][2]int
	start := -1
	for s := 0; s <= NumSlots; s++ {
		mine := s < NumSlots && cl.owner[s] == i
		if mine && start < 0 {
			start = s
		}
		if !mine && start >= 0 {
			out = append(out, [2]int{start, s - 1})
			start = -1
		}
	}
	return out
}

// ReqCount is the number of requests processed cluster-wide so far.
func (cl *Cluster) ReqCount() int64 {
	cl.mu.Lock()
	defer cl.mu.Unlock()
	return cl.reqN
}

// Applied returns a copy of the cluster-wide effect log in global order.
func (cl *Cluster) Applied() []CApp {
	cl.mu.Lock()
	defer cl.mu.Unlock()
	return append([]CApp{}, cl.applied...)
}

// Requests returns a copy of the cluster-wide request log in global order.
func (cl *Cluster) Requests() []CReq {
	cl.mu.Lock()
	defer cl.mu.Unlock()
	return append([]CReq{}, cl.reqs...)
}

// Events returns the topology changes made so far.
func (cl *Cluster) Events() []TopoEvent {
	cl.mu.Lock()
	defer cl.mu.Unlock()
	return append([]TopoEvent{}, cl.events...)
}

// Redirects returns how many MOVED / ASK / TRYAGAIN / CROSSSLOT replies the nodes served.
func (cl *Cluster) Redirects() map[string]int64 {
	cl.mu.Lock()
	defer cl.mu.Unlock()
	out := map[string]int64{}
	for k, v := range cl.redir {
		out[k] = v
	}
	return out
}

// Snapshot deep-copies node i's keyspace.
func (cl *Cluster) Snapshot(i int) []DB {
	cl.mu.Lock()
	defer cl.mu.Unlock()
	return cloneDBs(cl.nodes[i].dbs)
}

// Lookup finds key in DB 0 of the nodes: the nodes holding it and a copy of the first object.
func (cl *Cluster) Lookup(key string) (nodes []int, obj *Obj) {
	cl.mu.Lock()
	defer cl.mu.Unlock()
	for i, s := range cl.nodes {
		if o, ok := s.dbs[0][key]; ok {
			nodes = append(nodes, i)
			if obj == nil {
				obj = o.Clone()
			}
		}
	}
	return
}

// SetOnApplied installs a callback invoked under the cluster lock for every applied command.
func (cl *Cluster) SetOnApplied(fn func(a *CApp)) {
	cl.mu.Lock()
	cl.onApplied = fn
	cl.mu.Unlock()
}

// SetOnRequest installs a callback invoked under the cluster lock after every request.
func (cl *Cluster) SetOnRequest(fn func(r *CReq)) {
	cl.mu.Lock()
	cl.onRequest = fn
	cl.mu.Unlock()
}

// OpenConns returns the number of open client connections over all nodes.
func (cl *Cluster) OpenConns() int {
	cl.mu.Lock()
	nodes := append([]*Server{}, cl.nodes...)
	cl.mu.Unlock()
	n := 0
	for _, s := range nodes {
		s.mu.Lock()
		n += len(s.conns)
		s.mu.Unlock()
	}
	return n
}

// WaitIdle waits until no client connection is open any more, or — when connections linger —
// until no request arrived for `quiet`; false if neither happened within max.
func (cl *Cluster) WaitIdle(quiet, max time.Duration) bool {
	deadline := time.Now().Add(max)
	last := cl.ReqCount()
	lastChange := time.Now()
	for time.Now().Before(deadline) {
		if cl.OpenConns() == 0 {
			// connections are removed after their last request was processed
			return true
		}
		if n := cl.ReqCount(); n != last {
			last, lastChange = n, time.Now()
		} else if time.Since(lastChange) >= quiet {
			return true
		}
		time.Sleep(2 * time.Millisecond)
	}
	return false
}

// ---- scripting

// Update runs fn with the cluster lock held (an immediate topology change).
func (cl *Cluster) Update(fn func(t *Topo)) {
	cl.mu.Lock()
	defer cl.mu.Unlock()
	fn(&Topo{cl: cl})
}

// At schedules fn to run (under the cluster lock) as soon as n requests have been processed
// cluster-wide, i.e. after request n and before request n+1 is routed.  Use
// cl.At(cl.ReqCount()+k, ...) to place a change k requests from now.
func (cl *Cluster) At(n int64, fn func(t *Topo)) {
	cl.mu.Lock()
	defer cl.mu.Unlock()
	if cl.reqN >= n {
		fn(&Topo{cl: cl})
		return
	}
	cl.sched = append(cl.sched, schedItem{n, fn})
	sort.SliceStable(cl.sched, func(i, j int) bool { return cl.sched[i].at < cl.sched[j].at })
}

// Pending returns the number of scheduled changes that have not fired yet.
func (cl *Cluster) Pending() int {
	cl.mu.Lock()
	defer cl.mu.Unlock()
	return len(cl.sched)
}

// convenience wrappers (immediate)
func (cl *Cluster) MigrateSlot(slot, to int) { cl.Update(func(t *Topo) { t.MigrateSlot(slot, to) }) }
func (cl *Cluster) AddNode() (idx int) {
	cl.Update(func(t *Topo) { idx = t.AddNode() })
	return
}

func (t *Topo) event(format string, a ...any) {
	if t.quiet {
		return
	}
	t.cl.events = append(t.cl.events, TopoEvent{AfterGReq: t.cl.reqN, AfterGSeq: t.cl.gseq, What: fmt.Sprintf(format, a...)})
}

func (t *Topo) NumNodes() int      { return len(t.cl.nodes) }
func (t *Topo) Owner(slot int) int { return t.cl.owner[slot] }
func (t *Topo) Addr(i int) string  { return t.cl.nodes[i].addr }
func (t *Topo) ReqCount() int64    { return t.cl.reqN }

// MigratingTo returns the target of slot's migration at its owner, or -1.
func (t *Topo) MigratingTo(slot int) int {
	if to, ok := t.cl.nodes[t.cl.owner[slot]].cluster.migrating[slot]; ok {
		return to
	}
	return -1
}

// AddNode starts a new empty master (no slots) and returns its index.
func (t *Topo) AddNode() int {
	i := t.cl.addNodeLocked()
	t.event("node %d (%s) added", i, t.cl.nodes[i].addr)
	return i
}

// Unreachable makes a node announce an address at which nothing listens (127.0.0.1:1: connection
// attempts are refused): a node whose announced address cannot be reached from where the client
// runs.  MOVED/ASK answers and CLUSTER SLOTS/NODES name that address from now on; the node keeps
// its slots.  (Its real listener stays open and unknown to the client, so that the port cannot be
// taken over by somebody else's server while the case runs.)
func (t *Topo) Unreachable(node int) {
	t.cl.nodes[node].addr = "127.0.0.1:1"
	t.event("node %d announces %s, where connections are refused", node, t.cl.nodes[node].addr)
}

// SetMigrating puts slot into MIGRATING(to) at its owner and IMPORTING(owner) at `to`
// (CLUSTER SETSLOT <slot> IMPORTING on the target, then MIGRATING on the source).
func (t *Topo) SetMigrating(slot, to int) {
	from := t.cl.owner[slot]
	if from == to {
		return
	}
	t.cl.nodes[from].cluster.migrating[slot] = to
	t.cl.nodes[to].cluster.importing[slot] = from
	t.event("slot %d: node %d MIGRATING -> node %d IMPORTING", slot, from, to)
}

// SetNodeMigrating / SetNodeImporting set one side only (half-open states).
func (t *Topo) SetNodeMigrating(node, slot, to int) {
	t.cl.nodes[node].cluster.migrating[slot] = to
	t.event("slot %d: node %d MIGRATING -> %d (one side)", slot, node, to)
}
func (t *Topo) SetNodeImporting(node, slot, from int) {
	t.cl.nodes[node].cluster.importing[slot] = from
	t.event("slot %d: node %d IMPORTING <- %d (one side)", slot, node, from)
}

// SetStable clears the MIGRATING / IMPORTING state of slot on every node (CLUSTER SETSLOT STABLE).
func (t *Topo) SetStable(slot int) {
	for _, s := range t.cl.nodes {
		delete(s.cluster.migrating, slot)
		delete(s.cluster.importing, slot)
	}
	t.event("slot %d: STABLE", slot)
}

// KeysInSlot lists (sorted) the live keys of slot held in DB 0 of node.
func (t *Topo) KeysInSlot(node, slot int) []string {
	var out []string
	s := t.cl.nodes[node]
	now := s.nowMs()
	for k, o := range s.dbs[0] {
		if o.ExpireAt != 0 && o.ExpireAt <= now {
			continue
		}
		if ref.HashSlot([]byte(k)) == slot {
			out = append(out, k)
		}
	}
	sort.Strings(out)
	return out
}

// Exists reports whether node holds key (DB 0).
func (t *Topo) Exists(node int, key string) bool {
	s := t.cl.nodes[node]
	o, ok := s.dbs[0][key]
	return ok && !(o.ExpireAt != 0 && o.ExpireAt <= s.nowMs())
}

func (t *Topo) moveKey(from, to int, key string) bool {
	src, dst := t.cl.nodes[from], t.cl.nodes[to]
	o, ok := src.dbs[0][key]
	if !ok {
		return false
	}
	delete(src.dbs[0], key)
	dst.dbs[0][key] = o
	return true
}

// MoveKeys is MIGRATE: moves the listed keys (all keys of the slot when none are listed) of a
// MIGRATING slot from its owner to the migration target; returns the number of keys moved.
func (t *Topo) MoveKeys(slot int, keys ...string) int {
	from := t.cl.owner[slot]
	to, ok := t.cl.nodes[from].cluster.migrating[slot]
	if !ok {
		return 0
	}
	if len(keys) == 0 {
		keys = t.KeysInSlot(from, slot)
	}
	n := 0
	for _, k := range keys {
		if ref.HashSlot([]byte(k)) == slot && t.moveKey(from, to, k) {
			n++
		}
	}
	t.event("slot %d: %d key(s) moved node %d -> node %d %q", slot, n, from, to, keys)
	return n
}

// SetSlotOwner is CLUSTER SETSLOT <slot> NODE <to> seen by every node at once: the owner
// changes, MIGRATING/IMPORTING states of the slot are cleared.  Keys of the slot still held by
// the old owner are carried over (the double never orphans data).
func (t *Topo) SetSlotOwner(slot, to int) {
	from := t.cl.owner[slot]
	moved := 0
	if from != to {
		for _, k := range t.KeysInSlot(from, slot) {
			if t.moveKey(from, to, k) {
				moved++
			}
		}
	}
	t.cl.owner[slot] = to
	for _, s := range t.cl.nodes {
		delete(s.cluster.migrating, slot)
		delete(s.cluster.importing, slot)
	}
	t.event("slot %d: owner node %d -> node %d (%d leftover key(s) carried)", slot, from, to, moved)
}

// MigrateSlot performs a complete migration of slot to node `to` atomically.
func (t *Topo) MigrateSlot(slot, to int) {
	from := t.cl.owner[slot]
	if from == to {
		return
	}
	q := &Topo{cl: t.cl, quiet: true}
	q.SetMigrating(slot, to)
	keys := q.KeysInSlot(from, slot)
	q.MoveKeys(slot)
	q.SetSlotOwner(slot, to)
	t.event("slot %d: migrated node %d -> node %d with %d key(s) %q", slot, from, to, len(keys), keys)
}

// ---- the per-request hooks called from Server.handleLocked (Server.mu held)

func (n *ClusterNode) enter(s *Server) {
	cl := n.cl
	cl.mu.Lock()
	// scheduled changes that are due fire before this request is routed
	for len(cl.sched) > 0 && cl.sched[0].at <= cl.reqN {
		it := cl.sched[0]
		cl.sched = cl.sched[1:]
		it.fn(&Topo{cl: cl})
	}
	cl.reqN++
}

func (n *ClusterNode) leave(s *Server, c *conn) {
	cl := n.cl
	defer cl.mu.Unlock()
	var last *Req
	if len(s.reqs) > 0 {
		last = &s.reqs[len(s.reqs)-1]
	}
	// ASKING is one-shot: cleared by the next command, except while a MULTI is open
	if last != nil && last.Cmd != "ASKING" && !c.inMulti {
		c.asking = false
	}
	for i := n.appMark; i < len(s.applied); i++ {
		cl.gseq++
		cl.applied = append(cl.applied, CApp{GSeq: cl.gseq, GReq: cl.reqN, Node: n.idx, App: s.applied[i]})
		if cl.onApplied != nil {
			cl.onApplied(&cl.applied[len(cl.applied)-1])
		}
	}
	n.appMark = len(s.applied)
	if last != nil {
		if e, ok := last.Reply.(Err); ok {
			w := string(e)
			if i := strings.IndexByte(w, ' '); i > 0 {
				w = w[:i]
			}
			switch w {
			case "MOVED", "ASK", "TRYAGAIN", "CROSSSLOT":
				cl.redir[w]++
			}
		}
		cr := CReq{GReq: cl.reqN, Node: n.idx, Req: *last}
		if cl.keepReqs {
			cl.reqs = append(cl.reqs, cr)
		}
		if cl.onRequest != nil {
			cl.onRequest(&cr)
		}
	}
}

// ---- routing (Redis: getNodeByQuery)

const (
	errCrossSlot = Err("CROSSSLOT Keys in request don't hash to the same slot")
	errTryAgain  = Err("TRYAGAIN Multiple keys request during rehashing of slot")
)

// keysForRouting returns the key arguments of a command as the cluster sees them.
func keysForRouting(cmd string, args [][]byte) [][]byte {
	ci, ok := commands[cmd]
	if !ok {
		// permissive mode: a command the double does not model is routed by its first argument
		if len(args) > 0 {
			return args[:1]
		}
		return nil
	}
	return keysOf(ci, args)
}

// route decides whether this node executes a request touching keys; nil = execute here.
func (n *ClusterNode) route(s *Server, c *conn, keys [][]byte) Reply {
	if len(keys) == 0 {
		return nil
	}
	cl := n.cl
	slot := ref.HashSlot(keys[0])
	multiple := false
	for _, k := range keys[1:] {
		if ref.HashSlot(k) != slot {
			return errCrossSlot
		}
		if string(k) != string(keys[0]) {
			multiple = true
		}
	}
	owner := cl.owner[slot]
	migTo, migrating := n.migrating[slot]
	migrating = migrating && owner == n.idx
	_, importing := n.importing[slot]
	importing = importing && !migrating

	missing, existing := 0, 0
	if migrating || importing {
		now := s.nowMs()
		for _, k := range keys {
			o, ok := s.dbs[0][string(k)]
			if ok && !(o.ExpireAt != 0 && o.ExpireAt <= now) {
				existing++
			} else {
				missing++
			}
		}
	}
	if migrating && missing > 0 {
		if existing > 0 {
			return errTryAgain
		}
		return Err(fmt.Sprintf("ASK %d %s", slot, cl.nodes[migTo].addr))
	}
	if importing && c.asking {
		if multiple && missing > 0 {
			return errTryAgain
		}
		return nil
	}
	if owner != n.idx {
		return Err(fmt.Sprintf("MOVED %d %s", slot, cl.nodes[owner].addr))
	}
	return nil
}

// check is called before a command is executed or queued.
func (n *ClusterNode) check(s *Server, c *conn, cmd string, args [][]byte) Reply {
	return n.route(s, c, keysForRouting(cmd, args))
}

// checkTxn is called by EXEC: the transaction is re-validated as a whole (all keys of all
// queued commands must hash to one slot served here); on a redirect the EXEC is answered with
// it and the transaction is discarded.
func (n *ClusterNode) checkTxn(s *Server, c *conn, q []queued) Reply {
	var keys [][]byte
	for _, qc := range q {
		keys = append(keys, keysForRouting(qc.cmd, qc.args)...)
	}
	return n.route(s, c, keys)
}
