// Package fakeredis is the in-harness Redis double: a RESP2 server on loop-back with a small
// but faithful data model, MULTI/EXEC, request/effect logs, crash-cut injection, fault
// injection, and optional replication-source and cluster roles.
package fakeredis

import (
	"bufio"
	"errors"
	"fmt"
	"io"
	"strconv"
)

// Reply values: Status, Err, int64, []byte (bulk), nil (null bulk), []Reply (array), NilArray.
type Reply interface{}
type Status string
type Err string
type nilArray struct{}

var NilArray = nilArray{}

const OK = Status("OK")

func writeReply(w *bufio.Writer, r Reply) {
	switch v := r.(type) {
	case Status:
		w.WriteByte('+')
		w.WriteString(string(v))
		w.WriteString("\r\n")
	case Err:
		w.WriteByte('-')
		w.WriteString(string(v))
		w.WriteString("\r\n")
	case int64:
		w.WriteByte(':')
		w.WriteString(strconv.FormatInt(v, 10))
		w.WriteString("\r\n")
	case int:
		w.WriteByte(':')
		w.WriteString(strconv.Itoa(v))
		w.WriteString("\r\n")
	case []byte:
		if v == nil {
			w.WriteString("$-1\r\n")
			return
		}
		w.WriteByte('$')
		w.WriteString(strconv.Itoa(len(v)))
		w.WriteString("\r\n")
		w.Write(v)
		w.WriteString("\r\n")
	case string:
		w.WriteByte('$')
		w.WriteString(strconv.Itoa(len(v)))
		w.WriteString("\r\n")
		w.WriteString(v)
		w.WriteString("\r\n")
	case nil:
		w.WriteString("$-1\r\n")
	case nilArray:
		w.WriteString("*-1\r\n")
	case []Reply:
		w.WriteByte('*')
		w.WriteString(strconv.Itoa(len(v)))
		w.WriteString("\r\n")
		for _, e := range v {
			writeReply(w, e)
		}
	case [][]byte:
		w.WriteByte('*')
		w.WriteString(strconv.Itoa(len(v)))
		w.WriteString("\r\n")
		for _, e := range v {
			writeReply(w, e)
		}
	default:
		panic(fmt.Sprintf("fakeredis: bad reply type %T", r))
	}
}

var errProto = errors.New("protocol error")

func readLine(r *bufio.Reader) ([]byte, error) {
	line, err := r.ReadBytes('\n')
	if err != nil {
		return nil, err
	}
	if len(line) >= 2 && line[len(line)-2] == '\r' {
		return line[:len(line)-2], nil
	}
	return line[:len(line)-1], nil
}

// readRequest parses one multi-bulk (or inline) request.
func readRequest(r *bufio.Reader) ([][]byte, error) {
	for {
		b, err := r.Peek(1)
		if err != nil {
			return nil, err
		}
		if b[0] == '\r' || b[0] == '\n' {
			r.ReadByte()
			continue
		}
		break
	}
	line, err := readLine(r)
	if err != nil {
		return nil, err
	}
	if len(line) == 0 {
		return nil, errProto
	}
	if line[0] != '*' {
		// inline
		var args [][]byte
		cur := []byte{}
		for _, c := range line {
			if c == ' ' {
				if len(cur) > 0 {
					args = append(args, cur)
					cur = []byte{}
				}
			} else {
				cur = append(cur, c)
			}
		}
		if len(cur) > 0 {
			args = append(args, cur)
		}
		if len(args) == 0 {
			return nil, errProto
		}
		return args, nil
	}
	n, err := strconv.Atoi(string(line[1:]))
	if err != nil || n < 0 || n > 1<<20 {
		return nil, errProto
	}
	args := make([][]byte, 0, n)
	for i := 0; i < n; i++ {
		line, err := readLine(r)
		if err != nil {
			return nil, err
		}
		if len(line) == 0 || line[0] != '$' {
			return nil, errProto
		}
		l, err := strconv.Atoi(string(line[1:]))
		if err != nil || l < 0 || l > 1<<30 {
			return nil, errProto
		}
		buf := make([]byte, l+2)
		if _, err := io.ReadFull(r, buf); err != nil {
			return nil, err
		}
		args = append(args, buf[:l])
	}
	return args, nil
}
