package fakeredis

import (
	"bufio"
	"bytes"
	"fmt"
	"strconv"
	"strings"
	"sync"
)

// Replication-source role: see DESIGN.md §2.1 "Source role" and README.md.
//
// Offsets are Redis' own: master_repl_offset = number of stream bytes produced so far, the
// stream byte number k is the k-th byte ever produced, a replica that processed n bytes asks for
// `PSYNC <id> n+1`.  The admission rule is a transcription of masterTryPartialResynchronization
// (replication.c): accept iff (id == replid, or id == replid2 and offset <= second_replid_offset)
// and a backlog exists and backlog_off <= offset <= backlog_off + histlen.

// SourceConfig is the replication identity, history and dataset of a source double.
type SourceConfig struct {
	ReplID             string // master_replid
	ReplID2            string // master_replid2 ("" = forty zeros)
	SecondReplidOffset int64  // second_replid_offset; forced to -1 when ReplID2 is empty / all zeros and this is 0
	MasterReplOffset   int64  // master_repl_offset: offset of the last stream byte produced so far
	// Backlog: the bytes numbered BacklogOff .. BacklogOff+len(Backlog)-1.  Must end at
	// MasterReplOffset (BacklogOff+len(Backlog) == MasterReplOffset+1).  Backlog == nil and
	// BacklogOff == 0 means an allocated but empty backlog (backlog_off = MasterReplOffset+1).
	BacklogOff int64
	Backlog    []byte
	NoBacklog  bool // no backlog allocated at all: every PSYNC is answered with a full resync
	// Snapshot served on FULLRESYNC: RDBFunc(master_repl_offset at that moment) when set, else RDB.
	RDB     []byte
	RDBFunc func(masterReplOffset int64) []byte
	// Heart-beats ("\n") written before the PSYNC reply line / between the reply line and "$<len>".
	HeartbeatsBeforeReply int
	HeartbeatsBeforeRDB   int
	// Stamp, when set, is called (with the server lock held) for every PSYNC; the value is stored
	// in the event (harnesses use one shared counter to order events of several doubles).
	Stamp func() int64
	// OnPsync, when set, is called (with the server lock and the source's lock held: it must not
	// call back into this server or its Source) once a PSYNC has been decided, before the answer
	// is written.
	OnPsync func(ev PsyncEvent)
}

// PsyncEvent is one PSYNC request and its answer.
type PsyncEvent struct {
	Idx        int
	ReqSeq     int64 // request sequence number of the PSYNC on this server
	Conn       int64
	ReplID     string // as asked
	Offset     int64  // as asked (the NEXT byte the replica wants); -1 when not a number
	RawOffset  string
	Refused    bool   // answered with a transient error reply (RefusePsyncs); the connection stays a normal one
	Continue   bool   // true: +CONTINUE, false: +FULLRESYNC
	Reply      string // reply line without "+" / CRLF
	Reason     string // why: "ok", "replid-unknown", "replid2-beyond-second-offset", "no-backlog", "offset-before-backlog", "offset-after-backlog", "bad-offset"
	StartAt    int64  // number of the first stream byte sent on this connection after the answer
	RDBLen     int    // FULLRESYNC: length of the snapshot served
	CapaPsync2 bool
	Stamp      int64
	// the source's state when it answered
	MasterReplID       string
	MasterReplID2      string
	SecondReplidOffset int64
	MasterReplOffset   int64
	BacklogOff         int64
	BacklogHistLen     int64
}

func (e PsyncEvent) String() string {
	sign := "+"
	if e.Refused {
		sign = "-"
	}
	return fmt.Sprintf("PSYNC %s %s -> "+sign+"%s [%s; replid=%s replid2=%s second=%d mro=%d backlog=%d+%d]", e.ReplID, e.RawOffset, e.Reply, e.Reason,
		short(e.MasterReplID), short(e.MasterReplID2), e.SecondReplidOffset, e.MasterReplOffset, e.BacklogOff, e.BacklogHistLen)
}

func short(id string) string {
	if len(id) > 8 {
		return id[:8]
	}
	return id
}

// AckEvent is the newest REPLCONF ACK of a replica connection.
type AckEvent struct {
	Conn   int64
	Offset int64
	Count  int
}

type replConnInfo struct {
	listeningPort string
	capaEOF       bool
	capaPsync2    bool
}

type replSess struct {
	c        *conn
	epoch    int
	full     bool
	line     string
	hbReply  int
	hbRDB    int
	rdb      []byte
	next     int64 // number of the next stream byte to send
	sent     int64 // payload bytes (snapshot + stream) sent so far
	dropAt   int64 // close the connection once `sent` reaches it; -1 = never
	dropNow  bool
	joinTail bool // the tail of the snapshot and the stream queued behind it go out in ONE write
	eventIdx int
}

type Source struct {
	srv *Server

	mu         sync.Mutex
	replid     string
	replid2    string
	secondOff  int64
	mro        int64
	histOff    int64 // number of hist[0]
	hist       []byte
	backlogOff int64
	noBacklog  bool
	rdb        []byte
	rdbFunc    func(int64) []byte
	hbReply    int
	hbRDB      int
	stamp      func() int64
	onPsync    func(PsyncEvent)
	afterFull  []byte
	refuseLeft int
	refuseLine string

	wake     chan struct{}
	stopped  bool
	epoch    int
	log      []PsyncEvent
	conns    map[*conn]*replConnInfo
	pending  map[*conn]*replSess
	replicas map[*conn]*replSess
	acks     map[int64]*AckEvent
	armDrop  int64 // DropReplicaAfter for the next replica; -1 = none
	sentAll  int64 // total payload bytes sent to replicas
}

const zeroReplID = "0000000000000000000000000000000000000000"

// EnableSource gives the server the replication-source role.  Call before the tool connects.
func (s *Server) EnableSource(cfg SourceConfig) *Source {
	src := &Source{srv: s, wake: make(chan struct{}), conns: map[*conn]*replConnInfo{}, pending: map[*conn]*replSess{},
		replicas: map[*conn]*replSess{}, acks: map[int64]*AckEvent{}, armDrop: -1}
	src.apply(cfg)
	s.mu.Lock()
	s.source = src
	s.mu.Unlock()
	return src
}

// Source returns the source role (nil when not enabled).
func (s *Server) Source() *Source {
	s.mu.Lock()
	defer s.mu.Unlock()
	return s.source
}

func (src *Source) apply(cfg SourceConfig) {
	if cfg.ReplID == "" {
		panic("fakeredis: SourceConfig.ReplID is empty")
	}
	if cfg.ReplID2 == "" {
		cfg.ReplID2 = zeroReplID
	}
	if cfg.ReplID2 == zeroReplID && cfg.SecondReplidOffset == 0 {
		cfg.SecondReplidOffset = -1
	}
	if cfg.Backlog == nil && cfg.BacklogOff == 0 {
		cfg.BacklogOff = cfg.MasterReplOffset + 1
	}
	if cfg.BacklogOff+int64(len(cfg.Backlog)) != cfg.MasterReplOffset+1 {
		panic(fmt.Sprintf("fakeredis: inconsistent SourceConfig: backlog %d+%d does not end at master_repl_offset %d",
			cfg.BacklogOff, len(cfg.Backlog), cfg.MasterReplOffset))
	}
	src.replid, src.replid2, src.secondOff = cfg.ReplID, cfg.ReplID2, cfg.SecondReplidOffset
	src.mro = cfg.MasterReplOffset
	src.histOff, src.backlogOff = cfg.BacklogOff, cfg.BacklogOff
	src.hist = append([]byte{}, cfg.Backlog...)
	src.noBacklog = cfg.NoBacklog
	src.rdb, src.rdbFunc = cfg.RDB, cfg.RDBFunc
	src.hbReply, src.hbRDB = cfg.HeartbeatsBeforeReply, cfg.HeartbeatsBeforeRDB
	src.stamp = cfg.Stamp
	src.onPsync = cfg.OnPsync
}

// Reconfigure replaces identity, history and dataset (a failover / restart of the source seen at
// the same address).  Every attached replica is disconnected.  The PSYNC log is kept.
func (src *Source) Reconfigure(cfg SourceConfig) {
	src.mu.Lock()
	src.apply(cfg)
	src.epoch++
	src.dropAllLocked()
	src.broadcastLocked()
	src.mu.Unlock()
}

func (src *Source) broadcastLocked() {
	close(src.wake)
	src.wake = make(chan struct{})
}

func (src *Source) dropAllLocked() {
	for _, r := range src.replicas {
		r.dropNow = true
	}
}

func (src *Source) stop() {
	src.mu.Lock()
	src.stopped = true
	src.broadcastLocked()
	src.mu.Unlock()
}

// Append adds live stream bytes: master_repl_offset advances, the backlog grows, attached
// replicas are served.  Returns the new master_repl_offset.
func (src *Source) Append(b []byte) int64 {
	src.mu.Lock()
	defer src.mu.Unlock()
	src.hist = append(src.hist, b...)
	src.mro += int64(len(b))
	src.broadcastLocked()
	return src.mro
}

// TrimBacklog drops the backlog's head: afterwards the first byte it holds is number `first`
// (clamped to [current backlog_off, master_repl_offset+1]).  Bytes already owed to attached
// replicas are still delivered (they sit in the replicas' output buffers in a real master).
func (src *Source) TrimBacklog(first int64) {
	src.mu.Lock()
	defer src.mu.Unlock()
	if first > src.mro+1 {
		first = src.mro + 1
	}
	if first > src.backlogOff {
		src.backlogOff = first
	}
}

// SetRDB replaces the snapshot served by later FULLRESYNCs.
func (src *Source) SetRDB(rdb []byte) {
	src.mu.Lock()
	src.rdb = rdb
	src.mu.Unlock()
}

// MasterReplOffset returns master_repl_offset.
func (src *Source) MasterReplOffset() int64 {
	src.mu.Lock()
	defer src.mu.Unlock()
	return src.mro
}

// Backlog returns (backlog_off, histlen).
func (src *Source) Backlog() (int64, int64) {
	src.mu.Lock()
	defer src.mu.Unlock()
	return src.backlogOff, src.mro - src.backlogOff + 1
}

// PsyncLog returns every PSYNC request seen so far with its answer.
func (src *Source) PsyncLog() []PsyncEvent {
	src.mu.Lock()
	defer src.mu.Unlock()
	return append([]PsyncEvent{}, src.log...)
}

// Acks returns the newest REPLCONF ACK per replica connection.
func (src *Source) Acks() []AckEvent {
	src.mu.Lock()
	defer src.mu.Unlock()
	out := make([]AckEvent, 0, len(src.acks))
	for _, a := range src.acks {
		out = append(out, *a)
	}
	return out
}

// Replicas returns the number of attached replica connections.
func (src *Source) Replicas() int {
	src.mu.Lock()
	defer src.mu.Unlock()
	return len(src.replicas)
}

// PayloadSent returns the total number of payload bytes (snapshot + stream) written to replicas.
func (src *Source) PayloadSent() int64 {
	src.mu.Lock()
	defer src.mu.Unlock()
	return src.sentAll
}

// DropReplicaAfter injects a connection drop: the attached replica connections are closed after
// n more payload bytes (snapshot + stream bytes, not counting the reply line / "$len" header)
// have been written to them; when no replica is attached the next one to attach is closed after
// n payload bytes.  One-shot.
func (src *Source) DropReplicaAfter(n int64) {
	src.mu.Lock()
	defer src.mu.Unlock()
	live := 0
	for _, r := range src.replicas {
		if r.dropNow || r.epoch != src.epoch {
			continue // already on its way out (Reconfigure / DropReplicas)
		}
		live++
		r.dropAt = r.sent + n
		if n <= 0 {
			r.dropNow = true
		}
	}
	if live == 0 {
		src.armDrop = n
		return
	}
	src.broadcastLocked()
}

// RefusePsyncs makes the source answer the next n PSYNCs with the error reply `line` (without the
// leading "-", e.g. "NOMASTERLINK Can't SYNC while not connected with my master") and keep the
// connection open; afterwards it serves normally.  The refusals are logged (PsyncEvent.Refused).
func (src *Source) RefusePsyncs(n int, line string) {
	src.mu.Lock()
	src.refuseLeft, src.refuseLine = n, line
	src.mu.Unlock()
}

// QueueAfterFullresync: b becomes stream (bytes master_repl_offset+1 …) at the very moment the next
// +FULLRESYNC is decided, i.e. it is already waiting when the snapshot payload has been written and
// follows it on the wire without any pause (a master under write load): the last part of the payload
// and the queued stream are written to the connection in one Write.  One-shot.
func (src *Source) QueueAfterFullresync(b []byte) {
	src.mu.Lock()
	src.afterFull = append([]byte{}, b...)
	src.mu.Unlock()
}

// DropReplicas closes every attached replica connection now.
func (src *Source) DropReplicas() {
	src.mu.Lock()
	src.dropAllLocked()
	src.broadcastLocked()
	src.mu.Unlock()
}

// info writes the replication fields of INFO (called with the server lock held).
func (src *Source) info(b *bytes.Buffer) {
	src.mu.Lock()
	defer src.mu.Unlock()
	active, first, histlen := 1, src.backlogOff, src.mro-src.backlogOff+1
	if src.noBacklog {
		active, first, histlen = 0, 0, 0
	}
	fmt.Fprintf(b, "master_failover_state:no-failover\r\nmaster_replid:%s\r\nmaster_replid2:%s\r\nmaster_repl_offset:%d\r\nsecond_repl_offset:%d\r\n"+
		"repl_backlog_active:%d\r\nrepl_backlog_size:1048576\r\nrepl_backlog_first_byte_offset:%d\r\nrepl_backlog_histlen:%d\r\n",
		src.replid, src.replid2, src.mro, src.secondOff, active, first, histlen)
}

func (s *Server) unknownCommand(c *conn, req *Req) (Reply, action) {
	// what dispatchLocked does for a command it does not know (the standalone double without the
	// source role keeps exactly that behaviour for PSYNC / REPLCONF)
	if s.opt.Permissive {
		s.logApp(c, req.Cmd, req.Args, req.Seq, req.Seq, 0, 0, OK, true, req.AtMs)
		return OK, actNone
	}
	req.Kind = ReqRejected
	return Err(fmt.Sprintf("ERR unknown command '%s', with args beginning with: ", strings.ToLower(req.Cmd))), actNone
}

func init() {
	regConn("REPLCONF", -1, cmdReplconf)
	regConn("PSYNC", -1, cmdPsync)
}

func (src *Source) connInfoLocked(c *conn) *replConnInfo {
	ci := src.conns[c]
	if ci == nil {
		ci = &replConnInfo{}
		src.conns[c] = ci
	}
	return ci
}

// cmdReplconf: REPLCONF <option> <value> ... as replconfCommand (replication.c).
func cmdReplconf(s *Server, c *conn, req *Req) (Reply, action) {
	src := s.source
	if src == nil {
		return s.unknownCommand(c, req)
	}
	if len(req.Args)%2 != 0 || len(req.Args) == 0 {
		return syntaxErr, actNone
	}
	src.mu.Lock()
	defer src.mu.Unlock()
	ci := src.connInfoLocked(c)
	for i := 0; i < len(req.Args); i += 2 {
		opt, val := strings.ToLower(string(req.Args[i])), string(req.Args[i+1])
		switch opt {
		case "listening-port":
			if _, err := strconv.Atoi(val); err != nil {
				return notInt, actNone
			}
			ci.listeningPort = val
		case "ip-address":
		case "capa":
			switch strings.ToLower(val) {
			case "eof":
				ci.capaEOF = true
			case "psync2":
				ci.capaPsync2 = true
			}
		case "ack":
			off, err := strconv.ParseInt(val, 10, 64)
			if err != nil {
				return noReply, actNone
			}
			src.ackLocked(c.id, off)
			return noReply, actNone
		case "getack":
			// only meaningful from a master to its replica; a master ignores it
			return noReply, actNone
		case "rdb-only", "rdb-filter-only", "version":
		default:
			return Err("ERR Unrecognized REPLCONF option: " + string(req.Args[i])), actNone
		}
	}
	return OK, actNone
}

func (src *Source) ackLocked(connID, off int64) {
	a := src.acks[connID]
	if a == nil {
		a = &AckEvent{Conn: connID}
		src.acks[connID] = a
	}
	a.Offset = off
	a.Count++
}

// cmdPsync: PSYNC <replid> <offset>, decided as syncCommand / masterTryPartialResynchronization do.
func cmdPsync(s *Server, c *conn, req *Req) (Reply, action) {
	src := s.source
	if src == nil {
		return s.unknownCommand(c, req)
	}
	if len(req.Args) != 2 {
		return Err("ERR wrong number of arguments for 'psync' command"), actNone
	}
	src.mu.Lock()
	defer src.mu.Unlock()
	ci := src.connInfoLocked(c)
	id, raw := string(req.Args[0]), string(req.Args[1])
	ev := PsyncEvent{Idx: len(src.log), ReqSeq: req.Seq, Conn: c.id, ReplID: id, RawOffset: raw, Offset: -1, CapaPsync2: ci.capaPsync2,
		MasterReplID: src.replid, MasterReplID2: src.replid2, SecondReplidOffset: src.secondOff, MasterReplOffset: src.mro,
		BacklogOff: src.backlogOff, BacklogHistLen: src.mro - src.backlogOff + 1}
	if src.noBacklog {
		ev.BacklogOff, ev.BacklogHistLen = 0, 0
	}
	if src.stamp != nil {
		ev.Stamp = src.stamp()
	}
	off, err := strconv.ParseInt(raw, 10, 64)
	if src.refuseLeft > 0 {
		// a source that cannot serve a replica right now (-NOMASTERLINK, -LOADING) answers with an
		// error and keeps the connection open, as Redis does
		src.refuseLeft--
		if err == nil {
			ev.Offset = off
		}
		ev.Refused, ev.Reason, ev.Reply = true, "refused", src.refuseLine
		src.log = append(src.log, ev)
		if src.onPsync != nil {
			src.onPsync(ev)
		}
		return Err(src.refuseLine), actNone
	}
	histlen := src.mro - src.backlogOff + 1
	switch {
	case err != nil:
		ev.Reason = "bad-offset"
	case !strings.EqualFold(id, src.replid) && !strings.EqualFold(id, src.replid2):
		ev.Offset = off
		ev.Reason = "replid-unknown"
	case !strings.EqualFold(id, src.replid) && off > src.secondOff:
		ev.Offset = off
		ev.Reason = "replid2-beyond-second-offset"
	case src.noBacklog:
		ev.Offset = off
		ev.Reason = "no-backlog"
	case off < src.backlogOff:
		ev.Offset = off
		ev.Reason = "offset-before-backlog"
	case off > src.backlogOff+histlen:
		ev.Offset = off
		ev.Reason = "offset-after-backlog"
	default:
		ev.Offset = off
		ev.Reason = "ok"
		ev.Continue = true
	}
	sess := &replSess{c: c, epoch: src.epoch, dropAt: -1, eventIdx: ev.Idx, hbReply: src.hbReply}
	if ev.Continue {
		// Redis >= 4: "+CONTINUE <replid>" for replicas that announced capa psync2
		if ci.capaPsync2 {
			ev.Reply = "CONTINUE " + src.replid
		} else {
			ev.Reply = "CONTINUE"
		}
		sess.next = off
	} else {
		ev.Reply = fmt.Sprintf("FULLRESYNC %s %d", src.replid, src.mro)
		sess.full = true
		sess.hbRDB = src.hbRDB
		if src.rdbFunc != nil {
			sess.rdb = src.rdbFunc(src.mro)
		} else {
			sess.rdb = src.rdb
		}
		if sess.rdb == nil {
			panic("fakeredis: source has no snapshot to serve (SourceConfig.RDB / RDBFunc)")
		}
		ev.RDBLen = len(sess.rdb)
		sess.next = src.mro + 1
		if len(src.afterFull) > 0 {
			// a busy master: writes executed while the snapshot is produced are in the replica's
			// output buffer right behind the payload
			src.hist = append(src.hist, src.afterFull...)
			src.mro += int64(len(src.afterFull))
			src.afterFull = nil
			sess.joinTail = true
		}
	}
	ev.StartAt = sess.next
	sess.line = ev.Reply
	if src.armDrop >= 0 {
		sess.dropAt = src.armDrop
		if src.armDrop == 0 {
			sess.dropNow = true
		}
		src.armDrop = -1
	}
	src.log = append(src.log, ev)
	if src.onPsync != nil {
		src.onPsync(ev)
	}
	src.pending[c] = sess
	c.repl = true
	return Status(ev.Reply), actReplStream
}

// serveReplica owns the connection after a PSYNC: it writes the answer, the snapshot (full
// resync) and then the stream from the agreed offset, live bytes included, until the connection
// drops; REPLCONF ACKs sent by the replica are recorded.
func (src *Source) serveReplica(c *conn, rd *bufio.Reader, wr *bufio.Writer, first Reply) {
	src.mu.Lock()
	sess := src.pending[c]
	delete(src.pending, c)
	if sess != nil {
		src.replicas[c] = sess
	}
	src.mu.Unlock()
	if sess == nil {
		return
	}
	readerDone := make(chan struct{})
	go func() {
		defer close(readerDone)
		for {
			args, err := readRequest(rd)
			if err != nil {
				return
			}
			if len(args) >= 3 && strings.EqualFold(string(args[0]), "REPLCONF") && strings.EqualFold(string(args[1]), "ACK") {
				if off, err := strconv.ParseInt(string(args[2]), 10, 64); err == nil {
					src.mu.Lock()
					src.ackLocked(c.id, off)
					src.mu.Unlock()
				}
			}
			// anything else a replica says on its replication link is ignored, as a master does
		}
	}()
	defer func() {
		src.mu.Lock()
		delete(src.replicas, c)
		delete(src.conns, c)
		src.mu.Unlock()
		src.srv.closeConn(c)
		<-readerDone
	}()

	write := func(b []byte) bool {
		if _, err := wr.Write(b); err != nil {
			return false
		}
		return wr.Flush() == nil
	}
	// payload: bytes that count for DropReplicaAfter; returns false when the connection must end
	payload := func(b []byte) bool {
		for len(b) > 0 {
			src.mu.Lock()
			if sess.dropNow || src.stopped || sess.epoch != src.epoch {
				src.mu.Unlock()
				return false
			}
			n := int64(len(b))
			if n > 16*1024 {
				n = 16 * 1024
			}
			if sess.dropAt >= 0 && sess.sent+n > sess.dropAt {
				n = sess.dropAt - sess.sent
			}
			src.mu.Unlock()
			if n > 0 {
				if !write(b[:n]) {
					return false
				}
				b = b[n:]
			}
			src.mu.Lock()
			sess.sent += n
			src.sentAll += n
			hit := sess.dropAt >= 0 && sess.sent >= sess.dropAt
			src.mu.Unlock()
			if hit {
				return false
			}
		}
		return true
	}

	for i := 0; i < sess.hbReply; i++ {
		if !write([]byte("\n")) {
			return
		}
	}
	if !write([]byte("+" + sess.line + "\r\n")) {
		return
	}
	if sess.full {
		for i := 0; i < sess.hbRDB; i++ {
			if !write([]byte("\n")) {
				return
			}
		}
		if !write([]byte(fmt.Sprintf("$%d\r\n", len(sess.rdb)))) {
			return
		}
		rdb := sess.rdb
		if sess.joinTail && sess.dropAt < 0 {
			// The end of the payload is held back and handed to the connection together with the
			// stream that is already queued behind it, in one Write: the replica cannot have read
			// the last snapshot byte before stream bytes are in its socket, and the segment that
			// carries the snapshot's end carries stream bytes too (the tail is not a multiple of
			// any segment size).
			const tail = 77881
			cut := len(rdb) - tail
			if cut < 0 {
				cut = 0
			}
			if !payload(rdb[:cut]) {
				return
			}
			src.mu.Lock()
			joined := append([]byte{}, rdb[cut:]...)
			if sess.next <= src.mro && sess.next >= src.histOff {
				joined = append(joined, src.hist[sess.next-src.histOff:]...)
			}
			streamLen := int64(len(joined) - (len(rdb) - cut))
			src.mu.Unlock()
			if !write(joined) {
				return
			}
			src.mu.Lock()
			sess.sent += int64(len(joined))
			src.sentAll += int64(len(joined))
			src.mu.Unlock()
			sess.next += streamLen
			rdb = nil
		}
		if rdb != nil && !payload(rdb) { // no trailing CRLF after the snapshot
			return
		}
	}
	for {
		src.mu.Lock()
		if sess.dropNow || src.stopped || sess.epoch != src.epoch {
			src.mu.Unlock()
			return
		}
		var chunk []byte
		if sess.next <= src.mro {
			if sess.next < src.histOff {
				src.mu.Unlock()
				return // cannot happen: admission guarantees next >= backlog_off >= histOff
			}
			chunk = append(chunk, src.hist[sess.next-src.histOff:]...)
		}
		wake := src.wake
		src.mu.Unlock()
		if len(chunk) == 0 {
			select {
			case <-wake:
			case <-readerDone:
				return
			}
			continue
		}
		if !payload(chunk) {
			return
		}
		sess.next += int64(len(chunk))
	}
}
