package fakeredis

import (
	"bufio"
	"bytes"
)

// Replication-source role (placeholder until built): see DESIGN.md §2.1 "Source role".

type Source struct{}

func (src *Source) stop()                {}
func (src *Source) info(b *bytes.Buffer) {}
func (src *Source) serveReplica(c *conn, rd *bufio.Reader, wr *bufio.Writer, first Reply) {
}
