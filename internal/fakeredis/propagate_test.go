package fakeredis

import (
	"bufio"
	"bytes"
	"fmt"
	"io"
	"reflect"
	"strings"
	"sync/atomic"
	"testing"
	"time"
)

// parseStream splits a replication stream into commands (upper-cased name + args as strings).
func parseStream(t *testing.T, b []byte) [][]string {
	t.Helper()
	rd := bufio.NewReader(bytes.NewReader(b))
	var out [][]string
	for {
		args, err := readRequest(rd)
		if err == io.EOF {
			return out
		}
		if err != nil {
			t.Fatalf("stream does not parse: %v", err)
		}
		c := []string{strings.ToUpper(string(args[0]))}
		for _, a := range args[1:] {
			c = append(c, string(a))
		}
		out = append(out, c)
	}
}

func flat(cmds [][]string) string {
	var l []string
	for _, c := range cmds {
		l = append(l, strings.Join(c, " "))
	}
	return strings.Join(l, " | ")
}

func propServer(t *testing.T, version string, now *int64, o PropagationOptions) (*Server, *Propagation) {
	t.Helper()
	s := MustStart(Options{Version: version, NowMs: func() int64 { return atomic.LoadInt64(now) }})
	t.Cleanup(s.Close)
	return s, s.EnablePropagation(o)
}

func TestPropagateSelectNoopRead(t *testing.T) {
	now := int64(1_000_000)
	s, p := propServer(t, "7.2.0", &now, PropagationOptions{Base: 500})
	c := dialT(t, s.Addr())
	wantEq(t, c.do("GET", "k"), nil) // read: nothing
	wantEq(t, c.do("DEL", "missing"), int64(0))
	wantEq(t, c.do("SET", "k", "v"), "OK")
	wantEq(t, c.do("SET", "k2", "v"), "OK") // same DB: no second SELECT
	wantEq(t, c.do("SELECT", "3"), "OK")    // SELECT alone propagates nothing
	wantEq(t, c.do("GET", "k"), nil)
	wantEq(t, c.do("SELECT", "2"), "OK")
	wantEq(t, c.do("RPUSH", "l", "a"), int64(1))
	wantEq(t, c.do("SELECT", "0"), "OK")
	wantEq(t, c.do("SADD", "s", "m"), int64(1))
	wantEq(t, c.do("SADD", "s", "m"), int64(0)) // no-op
	wantEq(t, c.do("LPUSHX", "nolist", "x"), int64(0))
	want := "SELECT 0 | SET k v | SET k2 v | SELECT 2 | RPUSH l a | SELECT 0 | SADD s m"
	if got := flat(parseStream(t, p.Bytes())); got != want {
		t.Fatalf("stream:\n got %s\nwant %s", got, want)
	}
	if p.Base() != 500 || p.End() != 500+int64(len(p.Bytes())) {
		t.Fatalf("offsets: base %d end %d len %d", p.Base(), p.End(), len(p.Bytes()))
	}
	// the log: offsets slice the stream exactly; no-ops are recorded without bytes
	all := p.Bytes()
	noops := 0
	pos := p.Base()
	for _, e := range p.Log() {
		if e.Kind == PropNoop {
			noops++
			if e.Start != e.End || e.Args != nil || e.OrigCmd == "" {
				t.Fatalf("noop entry %+v", e)
			}
			continue
		}
		if e.Start != pos {
			t.Fatalf("entry %d starts at %d, expected %d", e.Idx, e.Start, pos)
		}
		cmds := parseStream(t, all[e.Start-p.Base():e.End-p.Base()])
		if len(cmds) != 1 || cmds[0][0] != e.Name() || len(cmds[0]) != len(e.Args) {
			t.Fatalf("entry %d %v does not match its bytes %v", e.Idx, e.Args, cmds)
		}
		pos = e.End
	}
	if pos != p.End() || noops != 3 {
		t.Fatalf("log ends at %d (stream %d), noops %d", pos, p.End(), noops)
	}
	if string(p.Since(p.End()-int64(len("*3\r\n$4\r\nSADD\r\n$1\r\ns\r\n$1\r\nm\r\n")))) != "*3\r\n$4\r\nSADD\r\n$1\r\ns\r\n$1\r\nm\r\n" {
		t.Fatalf("Since: %q", p.Since(p.End()-10))
	}
	if st := p.Stats(); st["noop_omitted"] != 3 || st["select_emitted"] != 3 || st["write_propagated"] != 4 {
		t.Fatalf("stats %v", st)
	}
}

func TestPropagateTransactions(t *testing.T) {
	for _, tc := range []struct {
		version string
		wrap    int
		single  bool // a one-write transaction is wrapped
	}{{"7.2.0", 0, false}, {"6.2.6", 0, true}, {"7.2.0", +1, true}, {"6.2.6", -1, false}} {
		now := int64(1_000_000)
		s, p := propServer(t, tc.version, &now, PropagationOptions{WrapSingle: tc.wrap})
		if p.WrapsSingle() != tc.single {
			t.Fatalf("%+v: WrapsSingle = %v", tc, p.WrapsSingle())
		}
		c := dialT(t, s.Addr())
		other := dialT(t, s.Addr())
		wantEq(t, c.do("SET", "pre", "1"), "OK")
		// two writes, a read, a no-op and an error inside one transaction
		c.do("MULTI")
		c.do("SET", "a", "1")
		c.do("GET", "a")
		c.do("DEL", "missing")
		c.do("LPUSH", "a", "x") // WRONGTYPE at EXEC
		c.do("INCR", "n")
		// another client's write lands between MULTI and EXEC: it is propagated first
		wantEq(t, other.do("SET", "o", "1"), "OK")
		r := c.do("EXEC").([]any)
		if len(r) != 5 {
			t.Fatalf("EXEC reply %v", r)
		}
		// all no-ops: nothing
		c.do("MULTI")
		c.do("DEL", "missing")
		c.do("SETNX", "a", "2")
		c.do("EXEC")
		// empty
		c.do("MULTI")
		c.do("EXEC")
		// exactly one write
		c.do("MULTI")
		c.do("DEL", "missing")
		c.do("SET", "b", "1")
		c.do("EXEC")
		// discarded
		c.do("MULTI")
		c.do("SET", "never", "1")
		c.do("DISCARD")
		// SELECT inside the transaction
		c.do("MULTI")
		c.do("SET", "c", "1")
		c.do("SELECT", "5")
		c.do("SET", "d", "1")
		c.do("EXEC")
		wantEq(t, c.do("SET", "e", "1"), "OK")
		single := "SET b 1"
		if tc.single {
			single = "MULTI | SET b 1 | EXEC"
		}
		want := "SELECT 0 | SET pre 1 | SET o 1 | MULTI | SET a 1 | INCR n | EXEC | " + single + " | MULTI | SET c 1 | SELECT 5 | SET d 1 | EXEC | SET e 1"
		if got := flat(parseStream(t, p.Bytes())); got != want {
			t.Fatalf("%+v stream:\n got %s\nwant %s", tc, got, want)
		}
		// log: members of one block share Unit and carry the EXEC's request number
		units := map[int][]string{}
		for _, e := range p.Log() {
			if e.Kind == PropNoop {
				continue
			}
			units[e.Unit] = append(units[e.Unit], e.Name())
			if e.Kind == PropWrite && e.Name() == "INCR" && (e.Txn == 0 || e.ReqSeq != e.Txn || !e.Wrapped) {
				t.Fatalf("INCR entry %+v", e)
			}
		}
		found := false
		for _, u := range units {
			if strings.Join(u, ",") == "MULTI,SET,INCR,EXEC" {
				found = true
			}
		}
		if !found {
			t.Fatalf("units %v", units)
		}
	}
}

// Where the lazy SELECT of a transaction stands, and slaveseldb = -1 after a replica attached.
func TestPropagateSelectAroundMulti(t *testing.T) {
	for _, tc := range []struct {
		version string
		want    string
	}{
		{"7.2.0", "MULTI | SELECT 0 | SET a 1 | SET b 1 | EXEC | SELECT 2 | SET o 1 | MULTI | SELECT 0 | SET a 2 | SET b 2 | EXEC | MULTI | SET a 3 | SET b 3 | EXEC | MULTI | SELECT 0 | SET a 4 | SET b 4 | EXEC | SELECT 0 | SET c 1"},
		{"6.2.6", "SELECT 0 | MULTI | SET a 1 | SET b 1 | EXEC | SELECT 2 | SET o 1 | SELECT 0 | MULTI | SET a 2 | SET b 2 | EXEC | MULTI | SET a 3 | SET b 3 | EXEC | SELECT 0 | MULTI | SET a 4 | SET b 4 | EXEC | SELECT 0 | SET c 1"},
	} {
		now := int64(1_000_000)
		s, p := propServer(t, tc.version, &now, PropagationOptions{})
		c := dialT(t, s.Addr())
		o := dialT(t, s.Addr())
		o.do("SELECT", "2")
		txn := func(v string) {
			c.do("MULTI")
			c.do("SET", "a", v)
			c.do("SET", "b", v)
			c.do("EXEC")
		}
		txn("1") // first propagated command of a fresh stream
		o.do("SET", "o", "1")
		txn("2") // the stream is in db 2
		txn("3") // same database: no SELECT
		p.ReplicaAttached()
		txn("4")
		p.ReplicaAttached()
		c.do("SET", "c", "1")
		if got := flat(parseStream(t, p.Bytes())); got != tc.want {
			t.Fatalf("%s stream:\n got %s\nwant %s", tc.version, got, tc.want)
		}
	}
}

func TestPropagateRewrites(t *testing.T) {
	now := int64(1_700_000_000_000)
	s, p := propServer(t, "7.2.0", &now, PropagationOptions{})
	c := dialT(t, s.Addr())
	c.do("SET", "k", "v", "PX", "5000")
	c.do("SET", "k", "v2", "EX", "7")
	c.do("SET", "k", "v3", "PXAT", "1800000000000") // verbatim
	c.do("SETEX", "k2", "3", "v")
	c.do("PSETEX", "k2", "30", "v")
	c.do("SET", "k3", "v", "NX")
	c.do("SET", "k3", "v", "NX") // no-op
	c.do("EXPIRE", "k3", "10")
	c.do("PEXPIRE", "k3", "10")
	c.do("EXPIREAT", "k3", "1800000000")
	c.do("PEXPIREAT", "k3", "1800000000001") // verbatim
	c.do("EXPIRE", "nokey", "10")            // no-op
	c.do("EXPIRE", "k3", "-1")               // expires at once: DEL
	c.do("XADD", "st", "*", "f", "v")
	c.do("XADD", "st", "*", "f", "v")
	c.do("XADD", "st", "1800000000000-5", "f", "v") // verbatim
	c.do("RESTORE", "r1", "0", "payload")           // no TTL: verbatim
	c.do("RESTORE", "r2", "1500", "payload")
	c.do("RESTORE", "r2", "2500", "payload", "REPLACE")
	c.do("RESTORE", "r3", "1800000000000", "payload", "ABSTTL") // verbatim
	c.do("SET", "d1", "v")
	c.do("DEL", "d1", "d-missing") // verbatim although only one key existed
	c.do("SET", "d1", "v")
	c.do("UNLINK", "x-missing", "d1")
	want := []string{
		"SELECT 0",
		"SET k v PXAT 1700000005000",
		"SET k v2 PXAT 1700000007000",
		"SET k v3 PXAT 1800000000000",
		"SET k2 v PXAT 1700000003000",
		"SET k2 v PXAT 1700000000030",
		"SET k3 v",
		"PEXPIREAT k3 1700000010000",
		"PEXPIREAT k3 1700000000010",
		"PEXPIREAT k3 1800000000000",
		"PEXPIREAT k3 1800000000001",
		"DEL k3",
		"XADD st 1700000000000-0 f v",
		"XADD st 1700000000000-1 f v",
		"XADD st 1800000000000-5 f v",
		"RESTORE r1 0 payload",
		"RESTORE r2 1700000001500 payload ABSTTL",
		"RESTORE r2 1700000002500 payload REPLACE ABSTTL",
		"RESTORE r3 1800000000000 payload ABSTTL",
		"SET d1 v",
		"DEL d1 d-missing",
		"SET d1 v",
		"UNLINK x-missing d1",
	}
	got := parseStream(t, p.Bytes())
	if len(got) != len(want) {
		t.Fatalf("stream has %d commands, want %d:\n%s", len(got), len(want), flat(got))
	}
	for i := range want {
		if strings.Join(got[i], " ") != want[i] {
			t.Fatalf("command %d: got %q want %q", i, strings.Join(got[i], " "), want[i])
		}
	}
	kinds := map[string]int{}
	for _, e := range p.Log() {
		if e.Kind == PropWrite {
			kinds[e.Rewrite]++
		}
	}
	wantKinds := map[string]int{"": 9, RwPXAT: 4, RwSetPlain: 1, RwPExpireAt: 3, RwDelExpire: 1, RwXaddID: 2, RwAbsTTL: 2}
	if !reflect.DeepEqual(kinds, wantKinds) {
		t.Fatalf("rewrite kinds %v, want %v", kinds, wantKinds)
	}
}

// A replica fed with the stream ends in the master's state (the point of the rewrites).
func TestPropagateReplicaConverges(t *testing.T) {
	now := int64(1_700_000_000_000)
	m, p := propServer(t, "7.2.0", &now, PropagationOptions{})
	c := dialT(t, m.Addr())
	c2 := dialT(t, m.Addr())
	c2.do("SELECT", "1")
	for i := 0; i < 40; i++ {
		k := fmt.Sprintf("k%d", i%5)
		atomic.AddInt64(&now, 7)
		switch i % 8 {
		case 0:
			c.do("SET", k, fmt.Sprint(i), "PX", "100000")
		case 1:
			c2.do("RPUSH", "l"+k, "a", "b")
		case 2:
			c.do("MULTI")
			c.do("INCR", "n"+k)
			c.do("DEL", "nothing")
			c.do("EXPIRE", "n"+k, "1000")
			c.do("EXEC")
		case 3:
			c2.do("XADD", "st", "*", "f", fmt.Sprint(i))
		case 4:
			c.do("DEL", k, "k-none")
		case 5:
			c2.do("MULTI")
			c2.do("LPOP", "l"+k)
			c2.do("EXEC")
		case 6:
			c.do("HSET", "h", k, fmt.Sprint(i))
		case 7:
			c.do("SETNX", k, "x")
		}
	}
	stream := p.Bytes()
	atomic.AddInt64(&now, 5000) // the replica applies later: relative expiries would drift
	r := MustStart(Options{NowMs: func() int64 { return atomic.LoadInt64(&now) }})
	defer r.Close()
	rc := dialT(t, r.Addr())
	for _, cmd := range parseStream(t, stream) {
		if e, ok := rc.do(cmd...).(tErr); ok {
			t.Fatalf("replica rejected %v: %s", cmd, e)
		}
	}
	ms, rs := m.Snapshot(), r.Snapshot()
	if !reflect.DeepEqual(ms, rs) {
		t.Fatalf("replica diverged:\nmaster  %v\nreplica %v", ms[:2], rs[:2])
	}
}

func TestPropagateReaderAndCallbacks(t *testing.T) {
	now := int64(1_000_000)
	s, p := propServer(t, "7.2.0", &now, PropagationOptions{Base: 1000})
	var cbBytes []byte
	var cbOff int64 = -1
	p.OnAppend(func(off int64, b []byte) { // under the server lock: serialised
		if cbOff == -1 {
			cbOff = off
		}
		cbBytes = append(cbBytes, b...)
	})
	s.DoS(0, "SET", "a", "1")
	mid := p.End()
	rd := p.Reader(mid)
	got := make(chan []byte, 16)
	go func() {
		buf := make([]byte, 7) // small reads
		var acc []byte
		for {
			n, err := rd.Read(buf)
			acc = append(acc, buf[:n]...)
			if err != nil {
				got <- acc
				return
			}
		}
	}()
	select {
	case b := <-got:
		t.Fatalf("reader returned without data: %q", b)
	case <-time.After(30 * time.Millisecond):
	}
	s.DoS(0, "SET", "b", "2")
	at := rd.Hold() // may or may not have consumed "SET b" yet; nothing beyond `at` is handed out while held
	s.DoS(0, "SET", "c", "3")
	time.Sleep(30 * time.Millisecond)
	if pos := rd.Pos(); pos != at || at >= p.End() {
		t.Fatalf("reader passed the hold: pos %d hold %d", pos, at)
	}
	rd.SetLimit(at) // explicit limit at the same place
	rd.Release()
	s.DoS(0, "SET", "d", "4")
	end := p.End()
	if p.Wait(mid, nil) != end {
		t.Fatalf("Wait")
	}
	p.Close() // EOF after everything was read
	select {
	case b := <-got:
		if !bytes.Equal(b, p.Since(mid)) || int64(len(b)) != end-mid {
			t.Fatalf("reader got %q, want %q", b, p.Since(mid))
		}
	case <-time.After(5 * time.Second):
		t.Fatal("reader did not finish")
	}
	if rd.Handed() != end-mid {
		t.Fatalf("handed %d", rd.Handed())
	}
	if cbOff != 1000 || !bytes.Equal(cbBytes, p.Bytes()) {
		t.Fatalf("callback saw off %d, %d bytes", cbOff, len(cbBytes))
	}
	// a closed reader fails
	rd2 := p.Reader(0)
	rd2.Close()
	if _, err := rd2.Read(make([]byte, 4)); err != ErrPropReaderClosed {
		t.Fatalf("closed reader: %v", err)
	}
}

func TestPropagatePingAndInjectedUnit(t *testing.T) {
	now := int64(1_000_000)
	s, p := propServer(t, "7.2.0", &now, PropagationOptions{})
	p.AppendPing() // before anything: no SELECT
	s.DoS(1, "SET", "a", "1")
	p.AppendPing()
	p.AppendUnit(0, 77, [][][]byte{{[]byte("DEL"), []byte("m")}, {[]byte("SET"), []byte("m"), []byte("v")}}, true)
	p.AppendUnit(0, 77, [][][]byte{{[]byte("SET"), []byte("z"), []byte("1")}}, false)
	want := "PING | SELECT 1 | SET a 1 | PING | MULTI | SELECT 0 | DEL m | SET m v | EXEC | SET z 1"
	if got := flat(parseStream(t, p.Bytes())); got != want {
		t.Fatalf("stream:\n got %s\nwant %s", got, want)
	}
	pings, injected := 0, 0
	for _, e := range p.Log() {
		if e.Kind == PropPing && e.Conn == MasterConn {
			pings++
		}
		if e.Conn == 77 && e.Kind == PropWrite {
			injected++
		}
	}
	if pings != 2 || injected != 3 {
		t.Fatalf("pings %d injected %d", pings, injected)
	}
}

// The stream can be served to PSYNC replicas through the source role.
func TestPropagateIntoSourceRole(t *testing.T) {
	now := int64(1_000_000)
	s, p := propServer(t, "7.2.0", &now, PropagationOptions{})
	src := s.EnableSource(SourceConfig{ReplID: strings.Repeat("a", 40), RDB: []byte("REDIS0009\xff\x00\x00\x00\x00\x00\x00\x00\x00")})
	p.OnAppend(func(off int64, b []byte) { src.Append(b) })
	s.DoS(0, "SET", "a", "1")
	s.DoS(2, "SET", "b", "2")
	if src.MasterReplOffset() != int64(len(p.Bytes())) {
		t.Fatalf("source offset %d, stream %d", src.MasterReplOffset(), len(p.Bytes()))
	}
}
