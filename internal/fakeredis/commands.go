package fakeredis

import (
	"bytes"
	"fmt"
	"sort"
	"strconv"
	"strings"
)

type ctx struct {
	s   *Server
	c   *conn
	db  int
	now int64
	// set by commands for the propagation module
	noop     bool     // the command changed nothing (a master would not propagate it)
	rewrite  [][]byte // propagate this instead of the original (full command incl. name)
	rewrites [][][]byte
}

type cmdInfo struct {
	name  string
	arity int // as Redis: positive exact, negative minimum (counting the command name)
	write bool
	fn    func(cx *ctx, args [][]byte) Reply
	conn  func(s *Server, c *conn, req *Req) (Reply, action)
	keys  func(args [][]byte) [][]byte // key arguments (cluster routing); nil = first argument
	nokey bool
}

var commands = map[string]*cmdInfo{}

func reg(name string, arity int, write bool, fn func(cx *ctx, args [][]byte) Reply) *cmdInfo {
	ci := &cmdInfo{name: name, arity: arity, write: write, fn: fn}
	commands[name] = ci
	return ci
}

func regConn(name string, arity int, fn func(s *Server, c *conn, req *Req) (Reply, action)) *cmdInfo {
	ci := &cmdInfo{name: name, arity: arity, conn: fn, nokey: true}
	commands[name] = ci
	return ci
}

// IsWrite reports whether the double classifies cmd (upper case) as data-modifying.
func IsWrite(cmd string) bool {
	ci, ok := commands[cmd]
	return ok && ci.write
}

const wrongType = Err("WRONGTYPE Operation against a key holding the wrong kind of value")

func (cx *ctx) d() DB { return cx.s.dbs[cx.db] }

// get returns the live object (lazy expiry).
func (cx *ctx) get(key []byte) *Obj {
	o, ok := cx.d()[string(key)]
	if !ok {
		return nil
	}
	if o.ExpireAt != 0 && o.ExpireAt <= cx.now {
		delete(cx.d(), string(key))
		return nil
	}
	return o
}

func (cx *ctx) getKind(key []byte, k Kind) (*Obj, Reply) {
	o := cx.get(key)
	if o != nil && o.Kind != k {
		return nil, wrongType
	}
	return o, nil
}

func (cx *ctx) set(key []byte, o *Obj) { cx.d()[string(key)] = o }
func (cx *ctx) del(key []byte) bool {
	if cx.get(key) == nil {
		return false
	}
	delete(cx.d(), string(key))
	return true
}

func atoi(b []byte) (int64, bool) {
	v, err := strconv.ParseInt(string(b), 10, 64)
	return v, err == nil
}

const notInt = Err("ERR value is not an integer or out of range")
const syntaxErr = Err("ERR syntax error")

func up(b []byte) string { return strings.ToUpper(string(b)) }

func allKeys(args [][]byte) [][]byte { return args }
func everyOther(args [][]byte) [][]byte {
	var k [][]byte
	for i := 0; i < len(args); i += 2 {
		k = append(k, args[i])
	}
	return k
}
func noKeys(args [][]byte) [][]byte { return nil }

func init() {
	regConn("PING", -1, func(s *Server, c *conn, req *Req) (Reply, action) {
		if len(req.Args) > 0 {
			return req.Args[0], actNone
		}
		return Status("PONG"), actNone
	})
	regConn("ECHO", 2, func(s *Server, c *conn, req *Req) (Reply, action) { return req.Args[0], actNone })
	regConn("AUTH", -2, func(s *Server, c *conn, req *Req) (Reply, action) { return OK, actNone })
	regConn("CLIENT", -2, func(s *Server, c *conn, req *Req) (Reply, action) { return OK, actNone })
	regConn("SELECT", 2, func(s *Server, c *conn, req *Req) (Reply, action) {
		n, ok := atoi(req.Args[0])
		if !ok {
			return Err("ERR invalid DB index"), actNone
		}
		if s.cluster != nil && n != 0 {
			return Err("ERR SELECT is not allowed in cluster mode"), actNone
		}
		if n < 0 || int(n) >= NumDBs {
			return Err("ERR DB index is out of range"), actNone
		}
		c.db = int(n)
		return OK, actNone
	})
	regConn("INFO", -1, cmdInfoCmd)
	regConn("COMMAND", -1, cmdCommand)
	regConn("SCRIPT", -2, func(s *Server, c *conn, req *Req) (Reply, action) {
		if up(req.Args[0]) == "LOAD" && len(req.Args) == 2 {
			h := fmt.Sprintf("%040x", len(s.scripts)+1)
			s.scripts[h] = string(req.Args[1])
			s.logApp(c, "SCRIPT", req.Args, req.Seq, req.Seq, 0, 0, OK, true, req.AtMs)
			return []byte(h), actNone
		}
		return OK, actNone
	})
	regConn("FUNCTION", -2, func(s *Server, c *conn, req *Req) (Reply, action) {
		s.logApp(c, "FUNCTION", req.Args, req.Seq, req.Seq, 0, 0, OK, true, req.AtMs)
		return OK, actNone
	})
	regConn("DBSIZE", 1, func(s *Server, c *conn, req *Req) (Reply, action) {
		return int64(len(s.dbs[c.db])), actNone
	})

	reg("FLUSHALL", -1, true, func(cx *ctx, a [][]byte) Reply {
		for i := range cx.s.dbs {
			cx.s.dbs[i] = DB{}
		}
		return OK
	}).nokey = true
	reg("FLUSHDB", -1, true, func(cx *ctx, a [][]byte) Reply { cx.s.dbs[cx.db] = DB{}; return OK }).nokey = true

	// ---- generic keyspace
	reg("EXISTS", -2, false, func(cx *ctx, a [][]byte) Reply {
		n := int64(0)
		for _, k := range a {
			if cx.get(k) != nil {
				n++
			}
		}
		return n
	}).keys = allKeys
	del := func(cx *ctx, a [][]byte) Reply {
		n := int64(0)
		var gone [][]byte
		for _, k := range a {
			if cx.del(k) {
				n++
				gone = append(gone, k)
			}
		}
		if n == 0 {
			cx.noop = true
		} else if len(gone) != len(a) {
			cx.rewrite = append([][]byte{[]byte("DEL")}, gone...)
		}
		return n
	}
	reg("DEL", -2, true, del).keys = allKeys
	reg("UNLINK", -2, true, del).keys = allKeys
	reg("TYPE", 2, false, func(cx *ctx, a [][]byte) Reply {
		o := cx.get(a[0])
		if o == nil {
			return Status("none")
		}
		return Status(string(o.Kind))
	})
	reg("KEYS", 2, false, func(cx *ctx, a [][]byte) Reply {
		pat := string(a[0])
		out := []Reply{}
		for _, k := range sortedKeys(cx.d()) {
			if cx.get([]byte(k)) == nil {
				continue
			}
			if globMatch(pat, k) {
				out = append(out, []byte(k))
			}
		}
		return out
	}).nokey = true
	reg("SCAN", -2, false, func(cx *ctx, a [][]byte) Reply {
		pat := "*"
		for i := 1; i+1 < len(a); i += 2 {
			if up(a[i]) == "MATCH" {
				pat = string(a[i+1])
			}
		}
		out := []Reply{}
		for _, k := range sortedKeys(cx.d()) {
			if cx.get([]byte(k)) != nil && globMatch(pat, k) {
				out = append(out, []byte(k))
			}
		}
		return []Reply{[]byte("0"), out}
	}).nokey = true
	reg("RENAME", 3, true, func(cx *ctx, a [][]byte) Reply {
		o := cx.get(a[0])
		if o == nil {
			return Err("ERR no such key")
		}
		delete(cx.d(), string(a[0]))
		cx.set(a[1], o)
		return OK
	}).keys = allKeys
	expireGeneric := func(unitMs int64, absolute bool) func(cx *ctx, a [][]byte) Reply {
		return func(cx *ctx, a [][]byte) Reply {
			v, ok := atoi(a[1])
			if !ok {
				return notInt
			}
			o := cx.get(a[0])
			if o == nil {
				cx.noop = true
				return int64(0)
			}
			at := v * unitMs
			if !absolute {
				at += cx.now
			}
			if at <= cx.now {
				delete(cx.d(), string(a[0]))
				cx.rewrite = [][]byte{[]byte("DEL"), a[0]}
				return int64(1)
			}
			o.ExpireAt = at
			cx.rewrite = [][]byte{[]byte("PEXPIREAT"), a[0], []byte(strconv.FormatInt(at, 10))}
			return int64(1)
		}
	}
	reg("EXPIRE", -3, true, expireGeneric(1000, false))
	reg("PEXPIRE", -3, true, expireGeneric(1, false))
	reg("EXPIREAT", -3, true, expireGeneric(1000, true))
	reg("PEXPIREAT", -3, true, expireGeneric(1, true))
	reg("PERSIST", 2, true, func(cx *ctx, a [][]byte) Reply {
		o := cx.get(a[0])
		if o == nil || o.ExpireAt == 0 {
			cx.noop = true
			return int64(0)
		}
		o.ExpireAt = 0
		return int64(1)
	})
	ttl := func(div int64) func(cx *ctx, a [][]byte) Reply {
		return func(cx *ctx, a [][]byte) Reply {
			o := cx.get(a[0])
			if o == nil {
				return int64(-2)
			}
			if o.ExpireAt == 0 {
				return int64(-1)
			}
			return (o.ExpireAt - cx.now + div/2) / div
		}
	}
	reg("TTL", 2, false, ttl(1000))
	reg("PTTL", 2, false, ttl(1))

	// ---- strings
	reg("GET", 2, false, func(cx *ctx, a [][]byte) Reply {
		o, e := cx.getKind(a[0], KString)
		if e != nil {
			return e
		}
		if o == nil {
			return nil
		}
		return o.Str
	})
	reg("SET", -3, true, cmdSet)
	reg("SETNX", 3, true, func(cx *ctx, a [][]byte) Reply {
		if cx.get(a[0]) != nil {
			cx.noop = true
			return int64(0)
		}
		cx.set(a[0], &Obj{Kind: KString, Str: a[1]})
		return int64(1)
	})
	reg("SETEX", 4, true, func(cx *ctx, a [][]byte) Reply {
		v, ok := atoi(a[1])
		if !ok || v <= 0 {
			return Err("ERR invalid expire time in 'setex' command")
		}
		at := cx.now + v*1000
		cx.set(a[0], &Obj{Kind: KString, Str: a[2], ExpireAt: at})
		cx.rewrite = [][]byte{[]byte("SET"), a[0], a[2], []byte("PXAT"), []byte(strconv.FormatInt(at, 10))}
		return OK
	})
	reg("PSETEX", 4, true, func(cx *ctx, a [][]byte) Reply {
		v, ok := atoi(a[1])
		if !ok || v <= 0 {
			return Err("ERR invalid expire time in 'psetex' command")
		}
		at := cx.now + v
		cx.set(a[0], &Obj{Kind: KString, Str: a[2], ExpireAt: at})
		cx.rewrite = [][]byte{[]byte("SET"), a[0], a[2], []byte("PXAT"), []byte(strconv.FormatInt(at, 10))}
		return OK
	})
	reg("GETSET", 3, true, func(cx *ctx, a [][]byte) Reply {
		o, e := cx.getKind(a[0], KString)
		if e != nil {
			return e
		}
		cx.set(a[0], &Obj{Kind: KString, Str: a[1]})
		if o == nil {
			return nil
		}
		return o.Str
	})
	reg("MSET", -3, true, func(cx *ctx, a [][]byte) Reply {
		if len(a)%2 != 0 {
			return Err("ERR wrong number of arguments for 'mset' command")
		}
		for i := 0; i < len(a); i += 2 {
			cx.set(a[i], &Obj{Kind: KString, Str: a[i+1]})
		}
		return OK
	}).keys = everyOther
	reg("APPEND", 3, true, func(cx *ctx, a [][]byte) Reply {
		o, e := cx.getKind(a[0], KString)
		if e != nil {
			return e
		}
		if o == nil {
			o = &Obj{Kind: KString}
			cx.set(a[0], o)
		}
		o.Str = append(append([]byte{}, o.Str...), a[1]...)
		return int64(len(o.Str))
	})
	incr := func(cx *ctx, key []byte, by int64) Reply {
		o, e := cx.getKind(key, KString)
		if e != nil {
			return e
		}
		cur := int64(0)
		if o != nil {
			v, ok := atoi(o.Str)
			if !ok {
				return notInt
			}
			cur = v
		} else {
			o = &Obj{Kind: KString}
			cx.set(key, o)
		}
		cur += by
		o.Str = []byte(strconv.FormatInt(cur, 10))
		return cur
	}
	reg("INCR", 2, true, func(cx *ctx, a [][]byte) Reply { return incr(cx, a[0], 1) })
	reg("DECR", 2, true, func(cx *ctx, a [][]byte) Reply { return incr(cx, a[0], -1) })
	reg("INCRBY", 3, true, func(cx *ctx, a [][]byte) Reply {
		v, ok := atoi(a[1])
		if !ok {
			return notInt
		}
		return incr(cx, a[0], v)
	})
	reg("DECRBY", 3, true, func(cx *ctx, a [][]byte) Reply {
		v, ok := atoi(a[1])
		if !ok {
			return notInt
		}
		return incr(cx, a[0], -v)
	})

	// ---- lists
	push := func(left, onlyIfExists bool) func(cx *ctx, a [][]byte) Reply {
		return func(cx *ctx, a [][]byte) Reply {
			o, e := cx.getKind(a[0], KList)
			if e != nil {
				return e
			}
			if o == nil {
				if onlyIfExists {
					cx.noop = true
					return int64(0)
				}
				o = &Obj{Kind: KList}
				cx.set(a[0], o)
			}
			for _, v := range a[1:] {
				if left {
					o.List = append([][]byte{v}, o.List...)
				} else {
					o.List = append(o.List, v)
				}
			}
			return int64(len(o.List))
		}
	}
	reg("RPUSH", -3, true, push(false, false))
	reg("LPUSH", -3, true, push(true, false))
	reg("RPUSHX", -3, true, push(false, true))
	reg("LPUSHX", -3, true, push(true, true))
	pop := func(left bool) func(cx *ctx, a [][]byte) Reply {
		return func(cx *ctx, a [][]byte) Reply {
			o, e := cx.getKind(a[0], KList)
			if e != nil {
				return e
			}
			if o == nil {
				cx.noop = true
				return nil
			}
			var v []byte
			if left {
				v, o.List = o.List[0], o.List[1:]
			} else {
				v, o.List = o.List[len(o.List)-1], o.List[:len(o.List)-1]
			}
			if len(o.List) == 0 {
				delete(cx.d(), string(a[0]))
			}
			return v
		}
	}
	reg("LPOP", -2, true, pop(true))
	reg("RPOP", -2, true, pop(false))
	reg("LLEN", 2, false, func(cx *ctx, a [][]byte) Reply {
		o, e := cx.getKind(a[0], KList)
		if e != nil {
			return e
		}
		if o == nil {
			return int64(0)
		}
		return int64(len(o.List))
	})
	reg("LRANGE", 4, false, func(cx *ctx, a [][]byte) Reply {
		o, e := cx.getKind(a[0], KList)
		if e != nil {
			return e
		}
		st, ok1 := atoi(a[1])
		en, ok2 := atoi(a[2])
		if !ok1 || !ok2 {
			return notInt
		}
		if o == nil {
			return []Reply{}
		}
		lo, hi, ok := rangeIdx(st, en, int64(len(o.List)))
		out := []Reply{}
		if ok {
			for _, v := range o.List[lo : hi+1] {
				out = append(out, v)
			}
		}
		return out
	})
	reg("LSET", 4, true, func(cx *ctx, a [][]byte) Reply {
		o, e := cx.getKind(a[0], KList)
		if e != nil {
			return e
		}
		if o == nil {
			return Err("ERR no such key")
		}
		i, ok := atoi(a[1])
		if !ok {
			return notInt
		}
		if i < 0 {
			i += int64(len(o.List))
		}
		if i < 0 || i >= int64(len(o.List)) {
			return Err("ERR index out of range")
		}
		o.List[i] = a[2]
		return OK
	})

	// ---- sets
	reg("SADD", -3, true, func(cx *ctx, a [][]byte) Reply {
		o, e := cx.getKind(a[0], KSet)
		if e != nil {
			return e
		}
		if o == nil {
			o = &Obj{Kind: KSet, Set: map[string]struct{}{}}
			cx.set(a[0], o)
		}
		n := int64(0)
		for _, m := range a[1:] {
			if _, ok := o.Set[string(m)]; !ok {
				o.Set[string(m)] = struct{}{}
				n++
			}
		}
		if n == 0 {
			cx.noop = true
		}
		return n
	})
	reg("SREM", -3, true, func(cx *ctx, a [][]byte) Reply {
		o, e := cx.getKind(a[0], KSet)
		if e != nil {
			return e
		}
		n := int64(0)
		if o != nil {
			for _, m := range a[1:] {
				if _, ok := o.Set[string(m)]; ok {
					delete(o.Set, string(m))
					n++
				}
			}
			if len(o.Set) == 0 {
				delete(cx.d(), string(a[0]))
			}
		}
		if n == 0 {
			cx.noop = true
		}
		return n
	})
	reg("SMEMBERS", 2, false, func(cx *ctx, a [][]byte) Reply {
		o, e := cx.getKind(a[0], KSet)
		if e != nil {
			return e
		}
		out := []Reply{}
		if o != nil {
			ms := make([]string, 0, len(o.Set))
			for m := range o.Set {
				ms = append(ms, m)
			}
			sort.Strings(ms)
			for _, m := range ms {
				out = append(out, []byte(m))
			}
		}
		return out
	})
	reg("SCARD", 2, false, func(cx *ctx, a [][]byte) Reply {
		o, e := cx.getKind(a[0], KSet)
		if e != nil {
			return e
		}
		if o == nil {
			return int64(0)
		}
		return int64(len(o.Set))
	})

	// ---- hashes
	hset := func(cx *ctx, a [][]byte) Reply {
		if len(a)%2 != 1 {
			return Err("ERR wrong number of arguments for 'hset' command")
		}
		o, e := cx.getKind(a[0], KHash)
		if e != nil {
			return e
		}
		if o == nil {
			o = &Obj{Kind: KHash, Hash: map[string][]byte{}}
			cx.set(a[0], o)
		}
		n := int64(0)
		for i := 1; i < len(a); i += 2 {
			if _, ok := o.Hash[string(a[i])]; !ok {
				n++
			}
			o.Hash[string(a[i])] = a[i+1]
		}
		return n
	}
	reg("HSET", -4, true, hset)
	reg("HMSET", -4, true, func(cx *ctx, a [][]byte) Reply {
		r := hset(cx, a)
		if isErr(r) {
			return r
		}
		return OK
	})
	reg("HSETNX", 4, true, func(cx *ctx, a [][]byte) Reply {
		o, e := cx.getKind(a[0], KHash)
		if e != nil {
			return e
		}
		if o == nil {
			o = &Obj{Kind: KHash, Hash: map[string][]byte{}}
			cx.set(a[0], o)
		}
		if _, ok := o.Hash[string(a[1])]; ok {
			cx.noop = true
			return int64(0)
		}
		o.Hash[string(a[1])] = a[2]
		return int64(1)
	})
	reg("HDEL", -3, true, func(cx *ctx, a [][]byte) Reply {
		o, e := cx.getKind(a[0], KHash)
		if e != nil {
			return e
		}
		n := int64(0)
		if o != nil {
			for _, f := range a[1:] {
				if _, ok := o.Hash[string(f)]; ok {
					delete(o.Hash, string(f))
					n++
				}
			}
			if len(o.Hash) == 0 {
				delete(cx.d(), string(a[0]))
			}
		}
		if n == 0 {
			cx.noop = true
		}
		return n
	})
	reg("HGET", 3, false, func(cx *ctx, a [][]byte) Reply {
		o, e := cx.getKind(a[0], KHash)
		if e != nil {
			return e
		}
		if o == nil {
			return nil
		}
		v, ok := o.Hash[string(a[1])]
		if !ok {
			return nil
		}
		return v
	})
	reg("HEXISTS", 3, false, func(cx *ctx, a [][]byte) Reply {
		o, e := cx.getKind(a[0], KHash)
		if e != nil {
			return e
		}
		if o != nil {
			if _, ok := o.Hash[string(a[1])]; ok {
				return int64(1)
			}
		}
		return int64(0)
	})
	reg("HLEN", 2, false, func(cx *ctx, a [][]byte) Reply {
		o, e := cx.getKind(a[0], KHash)
		if e != nil {
			return e
		}
		if o == nil {
			return int64(0)
		}
		return int64(len(o.Hash))
	})
	reg("HGETALL", 2, false, func(cx *ctx, a [][]byte) Reply {
		o, e := cx.getKind(a[0], KHash)
		if e != nil {
			return e
		}
		out := []Reply{}
		if o != nil {
			fs := make([]string, 0, len(o.Hash))
			for f := range o.Hash {
				fs = append(fs, f)
			}
			sort.Strings(fs)
			for _, f := range fs {
				out = append(out, []byte(f), o.Hash[f])
			}
		}
		return out
	})
	reg("HINCRBY", 4, true, func(cx *ctx, a [][]byte) Reply {
		by, ok := atoi(a[2])
		if !ok {
			return notInt
		}
		o, e := cx.getKind(a[0], KHash)
		if e != nil {
			return e
		}
		if o == nil {
			o = &Obj{Kind: KHash, Hash: map[string][]byte{}}
			cx.set(a[0], o)
		}
		cur := int64(0)
		if v, ok := o.Hash[string(a[1])]; ok {
			c, ok := atoi(v)
			if !ok {
				return Err("ERR hash value is not an integer")
			}
			cur = c
		}
		cur += by
		o.Hash[string(a[1])] = []byte(strconv.FormatInt(cur, 10))
		return cur
	})

	// ---- sorted sets
	reg("ZADD", -4, true, cmdZadd)
	reg("ZREM", -3, true, func(cx *ctx, a [][]byte) Reply {
		o, e := cx.getKind(a[0], KZSet)
		if e != nil {
			return e
		}
		n := int64(0)
		if o != nil {
			for _, m := range a[1:] {
				if _, ok := o.ZSet[string(m)]; ok {
					delete(o.ZSet, string(m))
					n++
				}
			}
			if len(o.ZSet) == 0 {
				delete(cx.d(), string(a[0]))
			}
		}
		if n == 0 {
			cx.noop = true
		}
		return n
	})
	reg("ZCARD", 2, false, func(cx *ctx, a [][]byte) Reply {
		o, e := cx.getKind(a[0], KZSet)
		if e != nil {
			return e
		}
		if o == nil {
			return int64(0)
		}
		return int64(len(o.ZSet))
	})
	reg("ZSCORE", 3, false, func(cx *ctx, a [][]byte) Reply {
		o, e := cx.getKind(a[0], KZSet)
		if e != nil {
			return e
		}
		if o == nil {
			return nil
		}
		v, ok := o.ZSet[string(a[1])]
		if !ok {
			return nil
		}
		return []byte(formatScore(v))
	})
	reg("ZRANGE", -4, false, func(cx *ctx, a [][]byte) Reply {
		o, e := cx.getKind(a[0], KZSet)
		if e != nil {
			return e
		}
		st, ok1 := atoi(a[1])
		en, ok2 := atoi(a[2])
		if !ok1 || !ok2 {
			return notInt
		}
		withScores := false
		for _, x := range a[3:] {
			if up(x) == "WITHSCORES" {
				withScores = true
			} else {
				return syntaxErr
			}
		}
		out := []Reply{}
		if o == nil {
			return out
		}
		ms := zsorted(o)
		lo, hi, ok := rangeIdx(st, en, int64(len(ms)))
		if ok {
			for _, m := range ms[lo : hi+1] {
				out = append(out, []byte(m))
				if withScores {
					out = append(out, []byte(formatScore(o.ZSet[m])))
				}
			}
		}
		return out
	})
	reg("ZRANGEBYSCORE", -4, false, func(cx *ctx, a [][]byte) Reply {
		o, e := cx.getKind(a[0], KZSet)
		if e != nil {
			return e
		}
		lo, loEx, ok1 := parseBound(a[1])
		hi, hiEx, ok2 := parseBound(a[2])
		if !ok1 || !ok2 {
			return Err("ERR min or max is not a float")
		}
		withScores := false
		limitOff, limitCnt := int64(0), int64(-1)
		for i := 3; i < len(a); i++ {
			switch up(a[i]) {
			case "WITHSCORES":
				withScores = true
			case "LIMIT":
				if i+2 >= len(a) {
					return syntaxErr
				}
				limitOff, _ = atoi(a[i+1])
				limitCnt, _ = atoi(a[i+2])
				i += 2
			default:
				return syntaxErr
			}
		}
		out := []Reply{}
		if o == nil {
			return out
		}
		skipped := int64(0)
		taken := int64(0)
		for _, m := range zsorted(o) {
			sc := o.ZSet[m]
			if sc < lo || (loEx && sc == lo) || sc > hi || (hiEx && sc == hi) {
				continue
			}
			if skipped < limitOff {
				skipped++
				continue
			}
			if limitCnt >= 0 && taken >= limitCnt {
				break
			}
			taken++
			out = append(out, []byte(m))
			if withScores {
				out = append(out, []byte(formatScore(sc)))
			}
		}
		return out
	})
	reg("ZREMRANGEBYSCORE", 4, true, func(cx *ctx, a [][]byte) Reply {
		o, e := cx.getKind(a[0], KZSet)
		if e != nil {
			return e
		}
		lo, loEx, ok1 := parseBound(a[1])
		hi, hiEx, ok2 := parseBound(a[2])
		if !ok1 || !ok2 {
			return Err("ERR min or max is not a float")
		}
		n := int64(0)
		if o != nil {
			for m, sc := range o.ZSet {
				if sc < lo || (loEx && sc == lo) || sc > hi || (hiEx && sc == hi) {
					continue
				}
				delete(o.ZSet, m)
				n++
			}
			if len(o.ZSet) == 0 {
				delete(cx.d(), string(a[0]))
			}
		}
		if n == 0 {
			cx.noop = true
		}
		return n
	})

	// ---- streams
	reg("XADD", -5, true, cmdXadd)
	reg("XSETID", -3, true, cmdXsetid)
	reg("XGROUP", -2, true, cmdXgroup).keys = func(a [][]byte) [][]byte {
		if len(a) >= 2 {
			return a[1:2]
		}
		return nil
	}
	reg("XCLAIM", -6, true, cmdXclaim)
	reg("XLEN", 2, false, func(cx *ctx, a [][]byte) Reply {
		o, e := cx.getKind(a[0], KStream)
		if e != nil {
			return e
		}
		if o == nil {
			return int64(0)
		}
		return int64(len(o.Stream.Entries))
	})
	reg("XRANGE", -4, false, func(cx *ctx, a [][]byte) Reply {
		o, e := cx.getKind(a[0], KStream)
		if e != nil {
			return e
		}
		out := []Reply{}
		if o != nil {
			for _, en := range o.Stream.Entries {
				fs := []Reply{}
				for _, f := range en.Fields {
					fs = append(fs, f)
				}
				out = append(out, []Reply{[]byte(en.ID.String()), fs})
			}
		}
		return out
	})

	// ---- restore / dump
	reg("RESTORE", -4, true, cmdRestore)
}

func rangeIdx(st, en, n int64) (int64, int64, bool) {
	if st < 0 {
		st += n
	}
	if en < 0 {
		en += n
	}
	if st < 0 {
		st = 0
	}
	if en >= n {
		en = n - 1
	}
	if st > en || n == 0 {
		return 0, 0, false
	}
	return st, en, true
}

func zsorted(o *Obj) []string {
	ms := make([]string, 0, len(o.ZSet))
	for m := range o.ZSet {
		ms = append(ms, m)
	}
	sort.Slice(ms, func(i, j int) bool {
		a, b := o.ZSet[ms[i]], o.ZSet[ms[j]]
		if a != b {
			return a < b
		}
		return ms[i] < ms[j]
	})
	return ms
}

func parseBound(b []byte) (float64, bool, bool) {
	ex := false
	if len(b) > 0 && b[0] == '(' {
		ex = true
		b = b[1:]
	}
	f, ok := parseScore(b)
	return f, ex, ok
}

func cmdSet(cx *ctx, a [][]byte) Reply {
	var nx, xx, keepttl, get bool
	exp := int64(0)
	for i := 2; i < len(a); i++ {
		switch up(a[i]) {
		case "NX":
			nx = true
		case "XX":
			xx = true
		case "KEEPTTL":
			keepttl = true
		case "GET":
			get = true
		case "EX", "PX", "EXAT", "PXAT":
			if i+1 >= len(a) {
				return syntaxErr
			}
			v, ok := atoi(a[i+1])
			if !ok {
				return notInt
			}
			if v <= 0 {
				return Err("ERR invalid expire time in 'set' command")
			}
			switch up(a[i]) {
			case "EX":
				exp = cx.now + v*1000
			case "PX":
				exp = cx.now + v
			case "EXAT":
				exp = v * 1000
			case "PXAT":
				exp = v
			}
			i++
		default:
			return syntaxErr
		}
	}
	old := cx.get(a[0])
	if (nx && old != nil) || (xx && old == nil) {
		cx.noop = true
		return nil
	}
	n := &Obj{Kind: KString, Str: a[1], ExpireAt: exp}
	if keepttl && old != nil {
		n.ExpireAt = old.ExpireAt
	}
	cx.set(a[0], n)
	if exp != 0 {
		cx.rewrite = [][]byte{[]byte("SET"), a[0], a[1], []byte("PXAT"), []byte(strconv.FormatInt(exp, 10))}
		if keepttl {
			cx.rewrite = nil
		}
	} else if nx || xx || get {
		rw := [][]byte{[]byte("SET"), a[0], a[1]}
		if keepttl {
			rw = append(rw, []byte("KEEPTTL"))
		}
		cx.rewrite = rw
	}
	if get {
		if old == nil {
			return nil
		}
		if old.Kind != KString {
			return wrongType
		}
		return old.Str
	}
	return OK
}

func cmdZadd(cx *ctx, a [][]byte) Reply {
	i := 1
	var nx, xx, ch bool
	for ; i < len(a); i++ {
		switch up(a[i]) {
		case "NX":
			nx = true
			continue
		case "XX":
			xx = true
			continue
		case "CH":
			ch = true
			continue
		}
		break
	}
	if (len(a)-i)%2 != 0 || len(a)-i == 0 {
		return syntaxErr
	}
	type pair struct {
		s float64
		m []byte
	}
	var ps []pair
	for j := i; j < len(a); j += 2 {
		f, ok := parseScore(a[j])
		if !ok {
			return Err("ERR value is not a valid float")
		}
		ps = append(ps, pair{f, a[j+1]})
	}
	o, e := cx.getKind(a[0], KZSet)
	if e != nil {
		return e
	}
	if o == nil {
		o = &Obj{Kind: KZSet, ZSet: map[string]float64{}}
		cx.set(a[0], o)
	}
	added, changed := int64(0), int64(0)
	for _, p := range ps {
		old, ok := o.ZSet[string(p.m)]
		if ok && nx {
			continue
		}
		if !ok && xx {
			continue
		}
		if !ok {
			added++
		} else if old != p.s {
			changed++
		}
		o.ZSet[string(p.m)] = p.s
	}
	if len(o.ZSet) == 0 {
		delete(cx.d(), string(a[0]))
	}
	if added+changed == 0 {
		cx.noop = true
	}
	if ch {
		return added + changed
	}
	return added
}

func globMatch(pat, s string) bool {
	// supports * ? and literal characters (enough for the tool's KEYS/SCAN patterns)
	if pat == "" {
		return s == ""
	}
	switch pat[0] {
	case '*':
		for i := 0; i <= len(s); i++ {
			if globMatch(pat[1:], s[i:]) {
				return true
			}
		}
		return false
	case '?':
		return s != "" && globMatch(pat[1:], s[1:])
	case '\\':
		if len(pat) > 1 {
			return s != "" && s[0] == pat[1] && globMatch(pat[2:], s[1:])
		}
	}
	return s != "" && s[0] == pat[0] && globMatch(pat[1:], s[1:])
}

func cmdInfoCmd(s *Server, c *conn, req *Req) (Reply, action) {
	sec := "all"
	if len(req.Args) > 0 {
		sec = strings.ToLower(string(req.Args[0]))
	}
	var b bytes.Buffer
	if sec == "server" || sec == "all" || sec == "default" || sec == "everything" {
		mode := "standalone"
		if s.cluster != nil {
			mode = "cluster"
		}
		fmt.Fprintf(&b, "# Server\r\nredis_version:%s\r\nredis_mode:%s\r\nos:Linux\r\nrun_id:%040d\r\ntcp_port:%s\r\n\r\n", s.opt.Version, mode, 1, portOf(s.addr))
	}
	if sec == "replication" || sec == "all" || sec == "default" || sec == "everything" {
		b.WriteString("# Replication\r\nrole:master\r\nconnected_slaves:0\r\n")
		if s.source != nil {
			s.source.info(&b)
		} else {
			fmt.Fprintf(&b, "master_failover_state:no-failover\r\nmaster_replid:%s\r\nmaster_replid2:%s\r\nmaster_repl_offset:0\r\nsecond_repl_offset:-1\r\n", strings.Repeat("f", 40), strings.Repeat("0", 40))
		}
		b.WriteString("\r\n")
	}
	if sec == "cluster" || sec == "all" {
		en := 0
		if s.cluster != nil {
			en = 1
		}
		fmt.Fprintf(&b, "# Cluster\r\ncluster_enabled:%d\r\n\r\n", en)
	}
	if sec == "keyspace" || sec == "all" || sec == "default" || sec == "everything" {
		b.WriteString("# Keyspace\r\n")
		now := s.nowMs()
		for i, d := range s.dbs {
			n, ex := 0, 0
			for _, o := range d {
				if o.ExpireAt != 0 && o.ExpireAt <= now {
					continue
				}
				n++
				if o.ExpireAt != 0 {
					ex++
				}
			}
			if n > 0 {
				fmt.Fprintf(&b, "db%d:keys=%d,expires=%d,avg_ttl=0\r\n", i, n, ex)
			}
		}
	}
	return b.Bytes(), actNone
}

func portOf(addr string) string {
	if i := strings.LastIndexByte(addr, ':'); i >= 0 {
		return addr[i+1:]
	}
	return "0"
}

func cmdCommand(s *Server, c *conn, req *Req) (Reply, action) {
	if len(req.Args) >= 1 && up(req.Args[0]) == "GETKEYS" {
		if len(req.Args) < 2 {
			return Err("ERR Invalid arguments"), actNone
		}
		name := up(req.Args[1])
		ci, ok := commands[name]
		if !ok || ci.nokey {
			return Err("ERR Invalid command specified"), actNone
		}
		ks := keysOf(ci, req.Args[2:])
		if len(ks) == 0 {
			return Err("ERR The command has no key arguments"), actNone
		}
		out := []Reply{}
		for _, k := range ks {
			out = append(out, k)
		}
		return out, actNone
	}
	return []Reply{}, actNone
}

func keysOf(ci *cmdInfo, args [][]byte) [][]byte {
	if ci.nokey {
		return nil
	}
	if ci.keys != nil {
		return ci.keys(args)
	}
	if len(args) > 0 {
		return args[:1]
	}
	return nil
}
