package fakeredis

import (
	"bufio"
	"bytes"
)

// placeholders replaced as the cluster / source / propagation roles are built

type ClusterNode struct{}

func (n *ClusterNode) check(s *Server, c *conn, cmd string, args [][]byte) Reply { return nil }
func (n *ClusterNode) checkTxn(s *Server, c *conn, q []queued) Reply             { return nil }

type Source struct{}

func (src *Source) stop()                                                                 {}
func (src *Source) info(b *bytes.Buffer)                                                  {}
func (src *Source) serveReplica(c *conn, rd *bufio.Reader, wr *bufio.Writer, first Reply) {}

type propagator struct{}

func (p *propagator) onApplied(s *Server, c *conn, cmd string, args [][]byte, txn int64, pos int, cx *ctx) {
}
