package fakeredis

import (
	"bufio"
	"fmt"
	"net"
	"strings"
	"sync"
	"sync/atomic"
	"time"
)

type ReqKind int

const (
	ReqDirect   ReqKind = iota // executed immediately
	ReqQueued                  // queued inside MULTI
	ReqMulti                   // MULTI
	ReqExec                    // EXEC (its members are in Applied with Txn = Seq)
	ReqDiscard                 // DISCARD
	ReqRejected                // refused before execution (redirect, injected error, unknown command, bad arity)
)

// Req is one request as received on the wire.
type Req struct {
	Seq   int64
	Conn  int64
	DB    int
	Cmd   string   // upper case
	Args  [][]byte // arguments after the command name
	Kind  ReqKind
	Reply Reply
	AtMs  int64
}

// App is one applied (executed) command: the effect log.
type App struct {
	Idx       int
	ReqSeq    int64 // request whose processing made it take effect (the EXEC for transaction members)
	QueuedSeq int64 // transaction members: the request that queued it; else = ReqSeq
	Conn      int64
	DB        int
	Cmd       string
	Args      [][]byte
	Txn       int64 // 0, or the Seq of the EXEC that applied it
	Pos       int   // position inside the transaction
	Reply     Reply
	IsErr     bool
	Write     bool
	AtMs      int64
}

func (a *App) String() string {
	var sb strings.Builder
	fmt.Fprintf(&sb, "#%d db%d", a.ReqSeq, a.DB)
	if a.Txn != 0 {
		fmt.Fprintf(&sb, " txn%d.%d", a.Txn, a.Pos)
	}
	sb.WriteString(" " + a.Cmd)
	for _, x := range a.Args {
		fmt.Fprintf(&sb, " %q", trunc(x))
	}
	return sb.String()
}

type queued struct {
	seq  int64
	cmd  string
	args [][]byte
}

type conn struct {
	id      int64
	nc      net.Conn
	db      int
	inMulti bool
	dirty   bool
	queue   []queued
	asking  bool
	repl    bool // connection switched to replication streaming
	closed  atomic.Bool
}

type Options struct {
	// Permissive: unknown commands are logged as applied writes and answered +OK (for checks
	// whose oracle is the command log, not the keyspace).
	Permissive bool
	// LogOnly: data-modifying commands for which it returns true are logged as applied and
	// answered +OK without being executed (log-based oracles feed arbitrary streams whose
	// commands would otherwise fail on type clashes no consistent replica could see).
	LogOnly func(cmd string, args [][]byte) bool
	// NowMs supplies the clock (ms).  nil = wall clock.
	NowMs func() int64
	// Version reported by INFO server.
	Version string
	// RestoreDecoder decodes a DUMP payload (set by the rdbx adapter); nil → RESTORE stores an
	// opaque blob object.
	RestoreDecoder func(payload []byte, maxRdbVer int) (*Obj, error)
	// MaxRdbVersion accepted by RESTORE (0 = any).
	MaxRdbVersion int
}

type Server struct {
	mu    sync.Mutex
	opt   Options
	ln    net.Listener
	addr  string
	dbs   []DB
	seq   int64
	connN int64
	conns map[*conn]struct{}

	reqs    []Req
	applied []App

	cutAfter int64
	dead     bool

	// hooks, all called with s.mu held
	OnRequest func(r *Req)               // after a request was processed (before the reply is written)
	Inject    func(r *Req) (Reply, bool) // before execution: return (reply,true) to answer without executing
	DropReply func(r *Req) bool          // after execution: true = close the connection instead of replying
	// ReplyDelay is called WITHOUT the lock before a reply is written (back-pressure injection).
	ReplyDelay func(cmd string)
	// ArrivalDelay is called WITHOUT the lock after a request has been read from its connection and
	// before it is executed: the request "arrives later" (a slow network path of that connection);
	// requests on other connections are executed meanwhile.
	ArrivalDelay func(args [][]byte)

	onApplied func(a *App)

	cluster *ClusterNode
	source  *Source
	prop    *propagator

	scripts map[string]string
	wg      sync.WaitGroup
	closed  bool
}

func New(opt Options) *Server {
	if opt.Version == "" {
		opt.Version = "7.2.0"
	}
	s := &Server{opt: opt, conns: map[*conn]struct{}{}, scripts: map[string]string{}}
	s.dbs = make([]DB, NumDBs)
	for i := range s.dbs {
		s.dbs[i] = DB{}
	}
	return s
}

func (s *Server) nowMs() int64 {
	if s.opt.NowMs != nil {
		return s.opt.NowMs()
	}
	return time.Now().UnixMilli()
}

// Start listens on 127.0.0.1:0.
func (s *Server) Start() error {
	return s.StartAt("127.0.0.1:0")
}

func (s *Server) StartAt(addr string) error {
	ln, err := net.Listen("tcp", addr)
	if err != nil {
		return err
	}
	s.ln = ln
	s.addr = ln.Addr().String()
	s.wg.Add(1)
	go s.acceptLoop()
	return nil
}

func MustStart(opt Options) *Server {
	s := New(opt)
	if err := s.Start(); err != nil {
		panic(err)
	}
	return s
}

func (s *Server) Addr() string { return s.addr }

func (s *Server) acceptLoop() {
	defer s.wg.Done()
	for {
		nc, err := s.ln.Accept()
		if err != nil {
			return
		}
		s.mu.Lock()
		if s.dead || s.closed {
			s.mu.Unlock()
			nc.Close()
			continue
		}
		s.connN++
		c := &conn{id: s.connN, nc: nc}
		s.conns[c] = struct{}{}
		s.mu.Unlock()
		s.wg.Add(1)
		go s.serve(c)
	}
}

func (s *Server) closeConn(c *conn) {
	if c.closed.CompareAndSwap(false, true) {
		c.nc.Close()
	}
}

// Close stops the server.
func (s *Server) Close() {
	s.mu.Lock()
	s.closed = true
	for c := range s.conns {
		s.closeConn(c)
	}
	src := s.source
	s.mu.Unlock()
	if src != nil {
		src.stop()
	}
	if s.ln != nil {
		s.ln.Close()
	}
	s.wg.Wait()
}

// CutAfter arms a crash: once the request with sequence number n has been processed every
// connection is closed (the n-th reply is not delivered) and new ones are refused until Revive.
func (s *Server) CutAfter(n int64) {
	s.mu.Lock()
	s.cutAfter = n
	s.mu.Unlock()
}

func (s *Server) Dead() bool {
	s.mu.Lock()
	defer s.mu.Unlock()
	return s.dead
}

// Kill cuts now.
func (s *Server) Kill() {
	s.mu.Lock()
	s.killLocked()
	s.mu.Unlock()
}

func (s *Server) killLocked() {
	s.dead = true
	for c := range s.conns {
		// half-open transactions die with their connection
		c.inMulti = false
		c.queue = nil
		s.closeConn(c)
	}
}

func (s *Server) Revive() {
	s.mu.Lock()
	s.dead = false
	s.cutAfter = 0
	s.mu.Unlock()
}

// WaitNoConns waits until every client connection has been closed and drained (requests sent
// before a client closed its socket are still processed first).  Returns false on timeout.
func (s *Server) WaitNoConns(d time.Duration) bool {
	deadline := time.Now().Add(d)
	for {
		s.mu.Lock()
		n := len(s.conns)
		s.mu.Unlock()
		if n == 0 {
			return true
		}
		if time.Now().After(deadline) {
			return false
		}
		time.Sleep(200 * time.Microsecond)
	}
}

// Seq returns the number of requests processed so far.
func (s *Server) Seq() int64 {
	s.mu.Lock()
	defer s.mu.Unlock()
	return s.seq
}

// Requests returns a copy of the wire-level request log.
func (s *Server) Requests() []Req {
	s.mu.Lock()
	defer s.mu.Unlock()
	return append([]Req{}, s.reqs...)
}

// Applied returns a copy of the effect log.
func (s *Server) Applied() []App {
	s.mu.Lock()
	defer s.mu.Unlock()
	return append([]App{}, s.applied...)
}

// AppliedUpTo returns the effects of the first n requests.
func AppliedUpTo(apps []App, n int64) []App {
	out := []App{}
	for _, a := range apps {
		if a.ReqSeq <= n {
			out = append(out, a)
		}
	}
	return out
}

// Snapshot deep-copies the keyspace.
func (s *Server) Snapshot() []DB {
	s.mu.Lock()
	defer s.mu.Unlock()
	return cloneDBs(s.dbs)
}

// Load replaces the keyspace (deep copy).
func (s *Server) Load(dbs []DB) {
	s.mu.Lock()
	defer s.mu.Unlock()
	s.dbs = cloneDBs(dbs)
	for len(s.dbs) < NumDBs {
		s.dbs = append(s.dbs, DB{})
	}
}

// With runs fn with the server lock held (direct state access for harness code).
func (s *Server) With(fn func(dbs []DB)) {
	s.mu.Lock()
	defer s.mu.Unlock()
	fn(s.dbs)
}

// Replay applies effect-log entries (from another server's log) to this server's keyspace,
// reproducing the state after a request prefix.
func (s *Server) Replay(apps []App) {
	s.mu.Lock()
	defer s.mu.Unlock()
	for i := range apps {
		a := &apps[i]
		if a.IsErr {
			continue
		}
		ci, ok := commands[a.Cmd]
		if !ok {
			continue
		}
		cx := &ctx{s: s, db: a.DB, now: a.AtMs}
		ci.fn(cx, a.Args)
	}
}

// Do executes a command directly (harness-side client without TCP), logged like any other.
func (s *Server) Do(db int, cmd string, args ...[]byte) Reply {
	s.mu.Lock()
	defer s.mu.Unlock()
	c := &conn{id: -1, db: db}
	all := append([][]byte{[]byte(cmd)}, args...)
	r, _ := s.handleLocked(c, all)
	return r
}

// DoS is Do with string arguments.
func (s *Server) DoS(db int, cmd string, args ...string) Reply {
	b := make([][]byte, len(args))
	for i, a := range args {
		b[i] = []byte(a)
	}
	return s.Do(db, cmd, b...)
}

func (s *Server) serve(c *conn) {
	defer s.wg.Done()
	defer func() {
		s.mu.Lock()
		delete(s.conns, c)
		c.inMulti = false
		c.queue = nil
		s.mu.Unlock()
		s.closeConn(c)
	}()
	rd := bufio.NewReaderSize(c.nc, 64*1024)
	wr := bufio.NewWriterSize(c.nc, 64*1024)
	for {
		args, err := readRequest(rd)
		if err != nil {
			return
		}
		if s.ArrivalDelay != nil {
			s.ArrivalDelay(args)
		}
		s.mu.Lock()
		if s.dead || s.closed {
			s.mu.Unlock()
			return
		}
		reply, act := s.handleLocked(c, args)
		s.mu.Unlock()
		switch act {
		case actClose:
			return
		case actReplStream:
			// the source role takes over the connection
			wr.Flush()
			s.source.serveReplica(c, rd, wr, reply)
			return
		}
		if s.ReplyDelay != nil {
			s.ReplyDelay(strings.ToUpper(string(args[0])))
		}
		if reply != noReply {
			writeReply(wr, reply)
		}
		if rd.Buffered() == 0 {
			if err := wr.Flush(); err != nil {
				return
			}
		}
	}
}

type action int

const (
	actNone action = iota
	actClose
	actReplStream
)

type noReplyT struct{}

var noReply = noReplyT{}

func isErr(r Reply) bool { _, ok := r.(Err); return ok }

// handleLocked processes one request: logging, MULTI/EXEC, injection, cut.
func (s *Server) handleLocked(c *conn, all [][]byte) (Reply, action) {
	if s.cluster != nil {
		// cluster role: every request of every node runs under the one cluster-wide lock
		s.cluster.enter(s)
		defer s.cluster.leave(s, c)
	}
	s.seq++
	cmd := strings.ToUpper(string(all[0]))
	args := all[1:]
	req := Req{Seq: s.seq, Conn: c.id, DB: c.db, Cmd: cmd, Args: args, AtMs: s.nowMs()}
	act := actNone

	var reply Reply
	handled := false
	if s.Inject != nil {
		if r, ok := s.Inject(&req); ok {
			reply = r
			req.Kind = ReqRejected
			handled = true
			if c.inMulti && isErr(r) {
				c.dirty = true
			}
		}
	}
	if !handled {
		reply, act = s.dispatchLocked(c, &req)
	}
	req.Reply = reply
	s.reqs = append(s.reqs, req)
	if s.OnRequest != nil {
		s.OnRequest(&s.reqs[len(s.reqs)-1])
	}
	if s.DropReply != nil && s.DropReply(&s.reqs[len(s.reqs)-1]) {
		act = actClose
	}
	if s.cutAfter > 0 && s.seq >= s.cutAfter {
		s.killLocked()
		return noReply, actClose
	}
	return reply, act
}

func (s *Server) dispatchLocked(c *conn, req *Req) (Reply, action) {
	cmd, args := req.Cmd, req.Args
	ci, known := commands[cmd]

	switch cmd {
	case "MULTI":
		req.Kind = ReqMulti
		if c.inMulti {
			return Err("ERR MULTI calls can not be nested"), actNone
		}
		c.inMulti, c.dirty, c.queue = true, false, nil
		return OK, actNone
	case "DISCARD":
		req.Kind = ReqDiscard
		if !c.inMulti {
			return Err("ERR DISCARD without MULTI"), actNone
		}
		c.inMulti, c.dirty, c.queue = false, false, nil
		return OK, actNone
	case "EXEC":
		req.Kind = ReqExec
		if !c.inMulti {
			return Err("ERR EXEC without MULTI"), actNone
		}
		q, dirty := c.queue, c.dirty
		c.inMulti, c.dirty, c.queue = false, false, nil
		if dirty {
			return Err("EXECABORT Transaction discarded because of previous errors."), actNone
		}
		if s.cluster != nil {
			if r := s.cluster.checkTxn(s, c, q); r != nil {
				return r, actNone
			}
		}
		out := make([]Reply, 0, len(q))
		if s.prop != nil {
			s.prop.txnBegin(c, req.Seq) // propagation role: the writes of this EXEC form one unit
		}
		for i, qc := range q {
			r := s.applyLocked(c, qc.cmd, qc.args, req.Seq, qc.seq, req.Seq, i, req.AtMs)
			out = append(out, r)
		}
		if s.prop != nil {
			s.prop.txnEnd(c)
		}
		return out, actNone
	}

	if c.inMulti {
		// queue-time validation as Redis does: unknown command / wrong arity abort the transaction
		if !known && !s.opt.Permissive {
			c.dirty = true
			req.Kind = ReqRejected
			return Err(fmt.Sprintf("ERR unknown command '%s'", strings.ToLower(cmd))), actNone
		}
		if known && !arityOK(ci, len(args)+1) && !s.logOnly(ci, cmd, args) {
			c.dirty = true
			req.Kind = ReqRejected
			return Err(fmt.Sprintf("ERR wrong number of arguments for '%s' command", strings.ToLower(cmd))), actNone
		}
		if s.cluster != nil {
			if r := s.cluster.check(s, c, cmd, args); r != nil {
				c.dirty = true
				req.Kind = ReqRejected
				return r, actNone
			}
		}
		req.Kind = ReqQueued
		c.queue = append(c.queue, queued{seq: req.Seq, cmd: cmd, args: args})
		return Status("QUEUED"), actNone
	}

	if !known {
		if s.opt.Permissive {
			if s.cluster != nil { // routed by its first argument like any single-key command
				if r := s.cluster.check(s, c, cmd, args); r != nil {
					req.Kind = ReqRejected
					return r, actNone
				}
			}
			s.logApp(c, cmd, args, req.Seq, req.Seq, 0, 0, OK, true, req.AtMs)
			return OK, actNone
		}
		req.Kind = ReqRejected
		return Err(fmt.Sprintf("ERR unknown command '%s', with args beginning with: ", strings.ToLower(cmd))), actNone
	}
	if !arityOK(ci, len(args)+1) && !s.logOnly(ci, cmd, args) {
		req.Kind = ReqRejected
		return Err(fmt.Sprintf("ERR wrong number of arguments for '%s' command", strings.ToLower(cmd))), actNone
	}
	if s.cluster != nil {
		if r := s.cluster.check(s, c, cmd, args); r != nil {
			req.Kind = ReqRejected
			return r, actNone
		}
	}
	if ci.conn != nil { // connection-level command (SELECT, PSYNC, ...)
		return ci.conn(s, c, req)
	}
	r := s.applyLocked(c, cmd, args, req.Seq, req.Seq, 0, 0, req.AtMs)
	return r, actNone
}

// logOnly: the command is only logged, not executed (Options.LogOnly), so its shape is not checked.
func (s *Server) logOnly(ci *cmdInfo, cmd string, args [][]byte) bool {
	return ci != nil && ci.write && ci.conn == nil && s.opt.LogOnly != nil && s.opt.LogOnly(cmd, args)
}

// logOnlyReply: what a command that is only logged answers.  The pop/get-and-set family answers
// the null bulk Redis gives for a key that does not exist (a legal reply the tool must take as
// an acknowledgement like any other); everything else answers OK.
func logOnlyReply(cmd string) Reply {
	switch cmd {
	case "LPOP", "RPOP", "SPOP", "GETSET", "GETDEL", "RPOPLPUSH":
		return nil
	}
	return OK
}

func arityOK(ci *cmdInfo, n int) bool {
	if ci.arity >= 0 {
		return n == ci.arity
	}
	return n >= -ci.arity
}

func (s *Server) logApp(c *conn, cmd string, args [][]byte, reqSeq, qSeq, txn int64, pos int, r Reply, write bool, at int64) {
	s.applied = append(s.applied, App{Idx: len(s.applied), ReqSeq: reqSeq, QueuedSeq: qSeq, Conn: c.id, DB: c.db,
		Cmd: cmd, Args: args, Txn: txn, Pos: pos, Reply: r, IsErr: isErr(r), Write: write, AtMs: at})
	if s.onApplied != nil {
		s.onApplied(&s.applied[len(s.applied)-1])
	}
}

// SetOnApplied installs a callback invoked (with the server lock held) for every applied command.
func (s *Server) SetOnApplied(fn func(a *App)) {
	s.mu.Lock()
	s.onApplied = fn
	s.mu.Unlock()
}

// SetHooks installs the request-level hooks atomically.
func (s *Server) SetHooks(onRequest func(r *Req), inject func(r *Req) (Reply, bool), dropReply func(r *Req) bool) {
	s.mu.Lock()
	s.OnRequest, s.Inject, s.DropReply = onRequest, inject, dropReply
	s.mu.Unlock()
}

// applyLocked executes one data command and logs it.
func (s *Server) applyLocked(c *conn, cmd string, args [][]byte, reqSeq, qSeq, txn int64, pos int, at int64) Reply {
	ci, ok := commands[cmd]
	if !ok {
		if s.opt.Permissive {
			s.logApp(c, cmd, args, reqSeq, qSeq, txn, pos, OK, true, at)
			return OK
		}
		return Err("ERR unknown command")
	}
	if ci.conn != nil {
		// SELECT inside MULTI etc.
		r, _ := ci.conn(s, c, &Req{Seq: reqSeq, Conn: c.id, DB: c.db, Cmd: cmd, Args: args, AtMs: at})
		return r
	}
	if ci.write && s.opt.LogOnly != nil && s.opt.LogOnly(cmd, args) {
		r := logOnlyReply(cmd)
		s.logApp(c, cmd, args, reqSeq, qSeq, txn, pos, r, true, at)
		return r
	}
	cx := &ctx{s: s, db: c.db, now: at, c: c}
	r := ci.fn(cx, args)
	s.logApp(c, cmd, args, reqSeq, qSeq, txn, pos, r, ci.write, at)
	if s.prop != nil && ci.write && !isErr(r) {
		s.prop.onApplied(s, c, cmd, args, txn, pos, cx)
	}
	return r
}
