package fakeredis

import (
	"bufio"
	"bytes"
	"fmt"
	"io"
	"net"
	"strings"
	"testing"
	"time"
)

type rawCli struct {
	nc net.Conn
	rd *bufio.Reader
}

func dialRaw(t *testing.T, addr string) *rawCli {
	nc, err := net.Dial("tcp", addr)
	if err != nil {
		t.Fatal(err)
	}
	nc.SetDeadline(time.Now().Add(10 * time.Second))
	return &rawCli{nc: nc, rd: bufio.NewReader(nc)}
}

func (c *rawCli) send(args ...string) {
	var b bytes.Buffer
	fmt.Fprintf(&b, "*%d\r\n", len(args))
	for _, a := range args {
		fmt.Fprintf(&b, "$%d\r\n%s\r\n", len(a), a)
	}
	c.nc.Write(b.Bytes())
}

func (c *rawCli) line(t *testing.T) string {
	for {
		l, err := c.rd.ReadString('\n')
		if err != nil {
			t.Fatalf("read: %v", err)
		}
		if l == "\n" { // heart-beat
			continue
		}
		return strings.TrimRight(l, "\r\n")
	}
}

func (c *rawCli) read(t *testing.T, n int) []byte {
	b := make([]byte, n)
	if _, err := io.ReadFull(c.rd, b); err != nil {
		t.Fatalf("read %d: %v", n, err)
	}
	return b
}

const idA = "aaaaaaaaaaaaaaaaaaaaaaaaaaaaaaaaaaaaaaaa"
const idB = "bbbbbbbbbbbbbbbbbbbbbbbbbbbbbbbbbbbbbbbb"

func TestSourceAdmission(t *testing.T) {
	backlog := []byte("0123456789") // bytes 101..110
	rdb := []byte("REDIS0009\xff\x00\x00\x00\x00\x00\x00\x00\x00")
	srv := MustStart(Options{})
	defer srv.Close()
	src := srv.EnableSource(SourceConfig{ReplID: idB, ReplID2: idA, SecondReplidOffset: 105, MasterReplOffset: 110,
		BacklogOff: 101, Backlog: backlog, RDB: rdb, HeartbeatsBeforeReply: 1, HeartbeatsBeforeRDB: 2})

	cases := []struct {
		id   string
		off  string
		cont bool
		why  string
	}{
		{idB, "101", true, "ok"},
		{idB, "111", true, "ok"}, // backlog_off + histlen: nothing to send yet
		{idB, "112", false, "offset-after-backlog"},
		{idB, "100", false, "offset-before-backlog"},
		{idA, "105", true, "ok"},
		{idA, "106", false, "replid2-beyond-second-offset"},
		{"cccccccccccccccccccccccccccccccccccccccc", "105", false, "replid-unknown"},
		{"?", "-1", false, "replid-unknown"},
		{idB, "x", false, "bad-offset"},
	}
	for i, tc := range cases {
		c := dialRaw(t, srv.Addr())
		c.send("replconf", "listening-port", "1234")
		if l := c.line(t); l != "+OK" {
			t.Fatalf("listening-port: %q", l)
		}
		c.send("replconf", "capa", "psync2")
		if l := c.line(t); l != "+OK" {
			t.Fatalf("capa: %q", l)
		}
		c.send("psync", tc.id, tc.off)
		l := c.line(t)
		if tc.cont {
			if l != "+CONTINUE "+idB {
				t.Fatalf("case %d: %q", i, l)
			}
			var off int
			fmt.Sscan(tc.off, &off)
			want := backlog[off-101:]
			if got := c.read(t, len(want)); !bytes.Equal(got, want) {
				t.Fatalf("case %d: stream %q want %q", i, got, want)
			}
		} else {
			if l != fmt.Sprintf("+FULLRESYNC %s 110", idB) {
				t.Fatalf("case %d: %q", i, l)
			}
			if h := c.line(t); h != fmt.Sprintf("$%d", len(rdb)) {
				t.Fatalf("case %d: rdb header %q", i, h)
			}
			if got := c.read(t, len(rdb)); !bytes.Equal(got, rdb) {
				t.Fatalf("case %d: rdb %q", i, got)
			}
		}
		ev := src.PsyncLog()[i]
		if ev.Continue != tc.cont || ev.Reason != tc.why {
			t.Fatalf("case %d: event %+v", i, ev)
		}
		c.nc.Close()
	}

	// live bytes reach an attached replica, ACKs are recorded, drops are injected
	c := dialRaw(t, srv.Addr())
	c.send("psync", idB, "111")
	if l := c.line(t); l != "+CONTINUE" { // no capa psync2 announced on this connection
		t.Fatalf("bare continue: %q", l)
	}
	src.Append([]byte("abcdef"))
	if got := c.read(t, 6); string(got) != "abcdef" {
		t.Fatalf("live: %q", got)
	}
	c.send("replconf", "ack", "116")
	deadline := time.Now().Add(5 * time.Second)
	for {
		acks := src.Acks()
		if len(acks) == 1 && acks[0].Offset == 116 {
			break
		}
		if time.Now().After(deadline) {
			t.Fatalf("ack not recorded: %+v", acks)
		}
		time.Sleep(time.Millisecond)
	}
	src.DropReplicaAfter(3)
	src.Append([]byte("ghijkl"))
	if got := c.read(t, 3); string(got) != "ghi" {
		t.Fatalf("before drop: %q", got)
	}
	if _, err := c.rd.ReadByte(); err == nil {
		t.Fatalf("connection not dropped")
	}
	if src.MasterReplOffset() != 122 {
		t.Fatalf("mro %d", src.MasterReplOffset())
	}
	// trimmed backlog
	src.TrimBacklog(120)
	c2 := dialRaw(t, srv.Addr())
	c2.send("psync", idB, "119")
	if l := c2.line(t); !strings.HasPrefix(l, "+FULLRESYNC") {
		t.Fatalf("trimmed: %q", l)
	}
	c2.nc.Close()
	// INFO replication
	c3 := dialRaw(t, srv.Addr())
	c3.send("info", "replication")
	h := c3.line(t)
	var n int
	fmt.Sscanf(h, "$%d", &n)
	body := string(c3.read(t, n))
	for _, want := range []string{"master_replid:" + idB + "\r\n", "master_replid2:" + idA + "\r\n", "master_repl_offset:122\r\n", "second_repl_offset:105\r\n", "repl_backlog_first_byte_offset:120\r\n"} {
		if !strings.Contains(body, want) {
			t.Fatalf("INFO lacks %q:\n%s", want, body)
		}
	}
}

func TestStandaloneUnchanged(t *testing.T) {
	srv := MustStart(Options{})
	defer srv.Close()
	c := dialRaw(t, srv.Addr())
	c.send("psync", "?", "-1")
	if l := c.line(t); !strings.HasPrefix(l, "-ERR unknown command 'psync'") {
		t.Fatalf("%q", l)
	}
	c.send("replconf", "ack", "1")
	if l := c.line(t); !strings.HasPrefix(l, "-ERR unknown command 'replconf'") {
		t.Fatalf("%q", l)
	}
	p := MustStart(Options{Permissive: true})
	defer p.Close()
	c = dialRaw(t, p.Addr())
	c.send("replconf", "getack", "*")
	if l := c.line(t); l != "+OK" {
		t.Fatalf("%q", l)
	}
	apps := p.Applied()
	if len(apps) != 1 || apps[0].Cmd != "REPLCONF" || !apps[0].Write {
		t.Fatalf("%+v", apps)
	}
}
