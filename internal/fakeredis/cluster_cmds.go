package fakeredis

// CLUSTER / ASKING / READONLY / READWRITE as served by a node of a Cluster.  On a standalone
// Server these names keep behaving exactly like any command the double does not know.

import (
	"bytes"
	"fmt"
	"strconv"
	"strings"
)

func init() {
	regConn("CLUSTER", -2, cmdCluster)
	regConn("ASKING", 1, func(s *Server, c *conn, req *Req) (Reply, action) {
		if s.cluster == nil {
			return notClusterCmd(s, c, req)
		}
		c.asking = true
		return OK, actNone
	})
	regConn("READONLY", 1, func(s *Server, c *conn, req *Req) (Reply, action) {
		if s.cluster == nil {
			return notClusterCmd(s, c, req)
		}
		return OK, actNone
	})
	regConn("READWRITE", 1, func(s *Server, c *conn, req *Req) (Reply, action) {
		if s.cluster == nil {
			return notClusterCmd(s, c, req)
		}
		return OK, actNone
	})
}

// notClusterCmd reproduces what a standalone double did before these names were registered.
func notClusterCmd(s *Server, c *conn, req *Req) (Reply, action) {
	if s.opt.Permissive {
		s.logApp(c, req.Cmd, req.Args, req.Seq, req.Seq, 0, 0, OK, true, req.AtMs)
		return OK, actNone
	}
	req.Kind = ReqRejected
	return Err(fmt.Sprintf("ERR unknown command '%s', with args beginning with: ", strings.ToLower(req.Cmd))), actNone
}

func hostPort(addr string) (string, int64) {
	i := strings.LastIndexByte(addr, ':')
	if i < 0 {
		return addr, 0
	}
	p, _ := strconv.ParseInt(addr[i+1:], 10, 64)
	return addr[:i], p
}

func cmdCluster(s *Server, c *conn, req *Req) (Reply, action) {
	if s.cluster == nil {
		return notClusterCmd(s, c, req)
	}
	n := s.cluster
	cl := n.cl
	sub := up(req.Args[0])
	switch sub {
	case "MYID":
		return []byte(n.id), actNone
	case "KEYSLOT":
		if len(req.Args) != 2 {
			break
		}
		return int64(Slot(req.Args[1])), actNone
	case "INFO":
		size := 0
		for i := range cl.nodes {
			if len(cl.rangesLocked(i)) > 0 {
				size++
			}
		}
		var b bytes.Buffer
		fmt.Fprintf(&b, "cluster_state:ok\r\ncluster_slots_assigned:%d\r\ncluster_slots_ok:%d\r\ncluster_slots_pfail:0\r\ncluster_slots_fail:0\r\n"+
			"cluster_known_nodes:%d\r\ncluster_size:%d\r\ncluster_current_epoch:%d\r\ncluster_my_epoch:%d\r\n"+
			"cluster_stats_messages_sent:0\r\ncluster_stats_messages_received:0\r\ntotal_cluster_links_buffer_limit_exceeded:0\r\n",
			NumSlots, NumSlots, len(cl.nodes), size, len(cl.nodes), n.idx+1)
		return b.Bytes(), actNone
	case "SLOTS":
		// [ [start, end, [ip, port, id]], ... ] sorted by start
		type rng struct{ l, r, node int }
		var all []rng
		for i := range cl.nodes {
			for _, r := range cl.rangesLocked(i) {
				all = append(all, rng{r[0], r[1], i})
			}
		}
		for i := 1; i < len(all); i++ {
			for j := i; j > 0 && all[j].l < all[j-1].l; j-- {
				all[j], all[j-1] = all[j-1], all[j]
			}
		}
		out := []Reply{}
		for _, r := range all {
			ip, port := hostPort(cl.nodes[r.node].addr)
			out = append(out, []Reply{int64(r.l), int64(r.r), []Reply{[]byte(ip), port, []byte(cl.nodes[r.node].cluster.id)}})
		}
		return out, actNone
	case "SHARDS":
		out := []Reply{}
		for i, nd := range cl.nodes {
			slots := []Reply{}
			for _, r := range cl.rangesLocked(i) {
				slots = append(slots, int64(r[0]), int64(r[1]))
			}
			ip, port := hostPort(nd.addr)
			node := []Reply{
				[]byte("id"), []byte(nd.cluster.id),
				[]byte("port"), port,
				[]byte("ip"), []byte(ip),
				[]byte("endpoint"), []byte(ip),
				[]byte("role"), []byte("master"),
				[]byte("replication-offset"), int64(0),
				[]byte("health"), []byte("online"),
			}
			out = append(out, []Reply{[]byte("slots"), slots, []byte("nodes"), []Reply{node}})
		}
		return out, actNone
	case "NODES":
		// <id> <ip:port@cport> <flags> <master> <ping-sent> <pong-recv> <config-epoch> <link-state> <slot>...
		var b bytes.Buffer
		for i, nd := range cl.nodes {
			ip, port := hostPort(nd.addr)
			flags := "master"
			if i == n.idx {
				flags = "myself,master"
			}
			fmt.Fprintf(&b, "%s %s:%d@%d %s - 0 0 %d connected", nd.cluster.id, ip, port, port+10000, flags, i+1)
			for _, r := range cl.rangesLocked(i) {
				if r[0] == r[1] {
					fmt.Fprintf(&b, " %d", r[0])
				} else {
					fmt.Fprintf(&b, " %d-%d", r[0], r[1])
				}
			}
			if i == n.idx {
				// open slots are reported by the node itself only
				for _, sl := range sortedIntKeys(n.migrating) {
					fmt.Fprintf(&b, " [%d->-%s]", sl, cl.nodes[n.migrating[sl]].cluster.id)
				}
				for _, sl := range sortedIntKeys(n.importing) {
					fmt.Fprintf(&b, " [%d-<-%s]", sl, cl.nodes[n.importing[sl]].cluster.id)
				}
			}
			b.WriteByte('\n')
		}
		return b.Bytes(), actNone
	case "COUNTKEYSINSLOT":
		if len(req.Args) != 2 {
			break
		}
		sl, ok := atoi(req.Args[1])
		if !ok || sl < 0 || sl >= NumSlots {
			return Err("ERR Invalid slot"), actNone
		}
		return int64(len((&Topo{cl: cl}).KeysInSlot(n.idx, int(sl)))), actNone
	case "GETKEYSINSLOT":
		if len(req.Args) != 3 {
			break
		}
		sl, ok1 := atoi(req.Args[1])
		cnt, ok2 := atoi(req.Args[2])
		if !ok1 || !ok2 || sl < 0 || sl >= NumSlots || cnt < 0 {
			return Err("ERR Invalid slot or number of keys"), actNone
		}
		out := []Reply{}
		for _, k := range (&Topo{cl: cl}).KeysInSlot(n.idx, int(sl)) {
			if int64(len(out)) >= cnt {
				break
			}
			out = append(out, []byte(k))
		}
		return out, actNone
	case "SETSLOT":
		// CLUSTER SETSLOT <slot> IMPORTING <node-id> | MIGRATING <node-id> | NODE <node-id> | STABLE
		if len(req.Args) < 3 {
			break
		}
		sl, ok := atoi(req.Args[1])
		if !ok || sl < 0 || sl >= NumSlots {
			return Err("ERR Invalid or out of range slot"), actNone
		}
		slot := int(sl)
		t := &Topo{cl: cl}
		action := up(req.Args[2])
		if action == "STABLE" {
			delete(n.migrating, slot)
			delete(n.importing, slot)
			t.event("slot %d: node %d STABLE (client)", slot, n.idx)
			return OK, actNone
		}
		if len(req.Args) != 4 {
			break
		}
		other := -1
		for i, nd := range cl.nodes {
			if nd.cluster.id == string(req.Args[3]) {
				other = i
			}
		}
		if other < 0 {
			return Err("ERR I don't know about node " + string(req.Args[3])), actNone
		}
		switch action {
		case "MIGRATING":
			if cl.owner[slot] != n.idx {
				return Err(fmt.Sprintf("ERR I'm not the owner of hash slot %d", slot)), actNone
			}
			t.SetNodeMigrating(n.idx, slot, other)
			return OK, actNone
		case "IMPORTING":
			if cl.owner[slot] == n.idx {
				return Err(fmt.Sprintf("ERR I'm already the owner of hash slot %d", slot)), actNone
			}
			t.SetNodeImporting(n.idx, slot, other)
			return OK, actNone
		case "NODE":
			if cl.owner[slot] == n.idx && other != n.idx && len(t.KeysInSlot(n.idx, slot)) > 0 {
				return Err(fmt.Sprintf("ERR Can't assign hashslot %d to a different node while I still hold keys for this hash slot.", slot)), actNone
			}
			t.SetSlotOwner(slot, other)
			return OK, actNone
		}
		return Err("ERR Invalid CLUSTER SETSLOT action or number of arguments. Try CLUSTER HELP"), actNone
	}
	return Err(fmt.Sprintf("ERR unknown subcommand '%s'. Try CLUSTER HELP.", string(req.Args[0]))), actNone
}

func sortedIntKeys(m map[int]int) []int {
	out := make([]int, 0, len(m))
	for k := range m {
		out = append(out, k)
	}
	for i := 1; i < len(out); i++ {
		for j := i; j > 0 && out[j] < out[j-1]; j-- {
			out[j], out[j-1] = out[j-1], out[j]
		}
	}
	return out
}
