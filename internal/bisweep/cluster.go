package bisweep

// Cluster scenarios of C14: parallel replay mode against a 3-node cluster double with ≥ 2
// lanes, where units complete OUT OF ORDER across lanes.  Two directed schedules, every choice
// (which unit is held / failed, node and lane of every unit, number of lanes, hold point,
// whether a frontier was flushed before) drawn from the PRNG:
//
//  (1) out-of-order acknowledgement + stop: the connection carrying unit k is held at one node
//      (before its transaction is executed, or after EXEC but before the reply) while later
//      units on other nodes/lanes are committed and acknowledged; a frontier flush interval is
//      given the chance to fire (the wait ends at the logical event "frontier write seen at the
//      double", or after three flush intervals — no verdict depends on the timer); the tool is
//      stopped and the held connection discarded; two fresh instances ask for their start point
//      and the second replays the rest.
//  (2) in-process restart: unit k's transaction FAILS (EXEC answered with an error, or executed
//      but the connection dropped) after units k+1… on other lanes were acknowledged; Send
//      returns the error; StartPoint + Send again on the SAME RedisOutput (what RedisInput.Run
//      does after its back-off; the first StartPoint of that output had seen only the root
//      checkpoint), then a fresh instance.
//
// Oracle: every stored frontier (seq, offset) and every resume offset R covers only units the
// double has committed (a complete target transaction applied without error); R is a unit
// boundary; successive starts never go backwards; after the final run no unit is missing
// (repeats are what parallel mode is allowed).

import (
	"bytes"
	"context"
	"fmt"
	"math/rand"
	"strings"
	"sync"
	"sync/atomic"
	"time"

	"verif/internal/drive"
	"verif/internal/fakeredis"
	"verif/internal/gen"
	"verif/internal/harness"

	"github.com/mgtv-tech/redis-GunYu/config"
	"github.com/mgtv-tech/redis-GunYu/pkg/redis"
	"github.com/mgtv-tech/redis-GunYu/syncer"
)

type ClusterOptions struct {
	NOutOfOrder int
	NInProcess  int
	NSyncResync int
	Workers     int
	Driver      *Driver
}

type cunit struct {
	Idx   int
	Key   string
	ID    string
	Node  int
	Lane  int
	Start int64
	End   int64
}

type cscen struct {
	ctx   string // signature context: "mode=…|cluster"
	mode  config.ReplayMode
	bases []int64 // snapshot offsets (stream starts) of the eras
	// records the double saw committed inside unit transactions: unit_seq → end offsets (newest last)
	recs  map[int64][]int64
	run   *harness.Run
	d     *Driver
	key   string
	r     *rand.Rand
	cl    *fakeredis.Cluster
	tgt   config.RedisConfig
	lanes int
	base  int64
	units []cunit
	data  []byte
	k     int // index (0-based) of the held / failing unit
	m     int // units after k that must be acknowledged first
	desc  string

	mu        sync.Mutex
	committed map[string]int // id → number of complete transactions that applied it
	firstAt   map[string]int64
	frontier  []PosWrite // ReqSeq = cluster-wide request number
	notify    chan struct{}

	holdNode int
	holdCmd  string
	armed    atomic.Bool
	seen     atomic.Int64 // replies of holdCmd that passed the hold point at holdNode
	blocked  chan struct{}
	release  chan struct{}
	relOnce  sync.Once

	// failure injection at holdNode (touched only under that node's lock)
	failArmed bool
	failDrop  bool
	failConn  int64
	failed    atomic.Bool

	watch time.Duration
}

func clusterTarget(cl *fakeredis.Cluster, nodes int) (config.RedisConfig, error) {
	full := config.RedisConfig{Addresses: cl.Addrs(), Type: config.RedisTypeCluster, Otype: config.RedisTypeCluster, Version: "7.2.0",
		ClusterOptions: &config.RedisClusterOptions{HandleMoveErr: true, HandleAskErr: true}}
	if err := redis.FixTopology(&full); err != nil {
		return full, fmt.Errorf("FixTopology: %w", err)
	}
	if len(full.GetClusterShards()) != nodes || full.IsMigrating() {
		return full, fmt.Errorf("FixTopology saw %d shards (migrating=%v) on a stable %d-node double", len(full.GetClusterShards()), full.IsMigrating(), nodes)
	}
	return full, nil
}

// pickKey finds a key whose slot satisfies ok(node, lane).
func (s *cscen) pickKey(tag string, ok func(node, lane int) bool) (string, int, int) {
	for i := 0; ; i++ {
		key := fmt.Sprintf("c14:%s:%d", tag, i)
		slot := fakeredis.Slot([]byte(key))
		node, lane := s.cl.Owner(slot), slot%s.lanes
		if ok(node, lane) {
			return key, node, lane
		}
	}
}

const clusterNodes = 3

// newCBase creates the cluster double with the observation hooks (no stream yet).
func newCBase(run *harness.Run, d *Driver, key string, mode config.ReplayMode) *cscen {
	s := &cscen{run: run, d: d, key: key, r: run.Rand(key), mode: mode, ctx: "mode=" + string(mode) + "|cluster",
		committed: map[string]int{}, firstAt: map[string]int64{}, recs: map[int64][]int64{},
		notify: make(chan struct{}, 1), blocked: make(chan struct{}), release: make(chan struct{}), watch: 120 * time.Second}
	s.cl = fakeredis.NewCluster(clusterNodes, fakeredis.Options{Permissive: true, LogOnly: func(cmd string, args [][]byte) bool {
		return len(args) == 0 || !drive.Reserved(args[0])
	}})
	s.lanes = 1
	s.holdNode = -1
	return s
}

// hook installs the reply hold and the effect observer; call after lanes/holdNode/holdCmd are set
// and before the first connection.
func (s *cscen) hook() {
	for i := 0; i < clusterNodes; i++ {
		node := i
		srv := s.cl.Node(i)
		srv.ReplyDelay = func(cmd string) {
			if node == s.holdNode && cmd == s.holdCmd {
				if s.armed.CompareAndSwap(true, false) {
					close(s.blocked)
					<-s.release
				}
				s.seen.Add(1)
			}
		}
		srv.SetHooks(nil, nil, nil) // lock/unlock: orders the assignment before every later request of the node
	}
	s.cl.SetOnApplied(func(a *fakeredis.CApp) { // under the cluster lock
		if !a.Write || a.IsErr || len(a.Args) == 0 {
			return
		}
		cls := ClassOf(a.Args[0])
		s.mu.Lock()
		if id := gen.FindID(a.Args); id != "" && a.Txn != 0 && cls == KBusiness {
			s.committed[id]++
			if _, ok := s.firstAt[id]; !ok {
				s.firstAt[id] = a.GReq
			}
		}
		if (cls == KCommit || cls == KLatest) && a.Txn != 0 && (a.Cmd == "HSET" || a.Cmd == "HMSET") {
			f := hfields(a.Args)
			seq := atoi64(f["unit_seq"])
			s.recs[seq] = append(s.recs[seq], atoi64(f["end_offset"]))
		}
		if cls == KFrontier && (a.Cmd == "HSET" || a.Cmd == "HMSET") {
			f := hfields(a.Args)
			s.frontier = append(s.frontier, PosWrite{ReqSeq: a.GReq, Cls: KFrontier, Seq: atoi64(f["unit_seq"]), Off: atoi64(f["end_offset"])})
		}
		s.mu.Unlock()
		select {
		case s.notify <- struct{}{}:
		default:
		}
	})
}

func newCScen(run *harness.Run, d *Driver, key string, idx int, holdBeforeExec bool) (*cscen, string) {
	s := newCBase(run, d, key, config.ReplayModeParallel)
	r := s.r
	s.lanes = 2 + r.Intn(3)
	s.holdNode = r.Intn(clusterNodes)
	s.holdCmd = []string{"MULTI", "EXEC"}[(idx/2)%2] // held before the transaction runs / after EXEC, before its reply
	if holdBeforeExec {
		s.holdCmd = "MULTI"
	}
	s.hook()
	tgt, err := clusterTarget(s.cl, clusterNodes)
	if err != nil {
		s.cl.Close()
		return nil, err.Error()
	}
	s.tgt = tgt

	// the stream: n single-command units; unit k on the held node, the m units after it on other
	// nodes and other lanes (so that they are dispatched, committed and acknowledged while k is held)
	n := 7 + r.Intn(6)
	s.k = 1 + r.Intn(n-4)
	s.m = 1 + r.Intn(2)
	s.base = int64(1000 + r.Intn(1000000))
	s.bases = []int64{s.base}
	hist := "c" + alnum(key)
	var buf bytes.Buffer
	buf.Write(gen.Encode("SELECT", [][]byte{[]byte("0")}))
	kLane := -1
	for i := 0; i < n; i++ {
		var pred func(node, lane int) bool
		switch {
		case i == s.k:
			pred = func(node, lane int) bool { return node == s.holdNode }
		case i > s.k && i <= s.k+s.m:
			pred = func(node, lane int) bool { return node != s.holdNode && lane != kLane }
		default:
			wantNode := r.Intn(clusterNodes)
			pred = func(node, lane int) bool { return node == wantNode }
		}
		key, node, lane := s.pickKey(fmt.Sprintf("%s:%d", hist, i), pred)
		if i == s.k {
			kLane = lane
		}
		id := fmt.Sprintf("~%s.%d~", hist, i)
		if r.Intn(4) == 0 {
			buf.Write(gen.Encode("PING", nil))
		}
		u := cunit{Idx: i + 1, Key: key, ID: id, Node: node, Lane: lane, Start: s.base + int64(buf.Len())}
		buf.Write(gen.Encode("SET", [][]byte{[]byte(key), []byte(id + "v")}))
		u.End = s.base + int64(buf.Len())
		s.units = append(s.units, u)
	}
	s.data = buf.Bytes()
	s.desc = fmt.Sprintf("lanes=%d units=%d held/failing unit=%d (node %d, lane %d) hold-at=%s acknowledged-first=%d", s.lanes, n, s.k+1, s.holdNode, kLane, s.holdCmd, s.m)
	return s, ""
}

func (s *cscen) open() (*syncer.RedisOutput, error) {
	par := 0
	if s.mode == config.ReplayModeParallel {
		par = s.lanes
	}
	return s.d.OpenCfg(OpenCfg{Target: s.tgt, Mode: s.mode, Window: 4, Parallelism: par, CanTransaction: false})
}

// waitFor waits for a logical condition on the double's log (re-evaluated after every applied
// command); the watchdog only makes the case inconclusive.
func (s *cscen) waitFor(d time.Duration, cond func() bool) bool {
	deadline := time.After(d)
	tick := time.NewTicker(5 * time.Millisecond)
	defer tick.Stop()
	for {
		s.mu.Lock()
		ok := cond()
		s.mu.Unlock()
		if ok {
			return true
		}
		select {
		case <-s.notify:
		case <-tick.C:
		case <-deadline:
			return false
		}
	}
}

func (s *cscen) committedRange(from, to int) func() bool { // units[from:to]
	return func() bool {
		for _, u := range s.units[from:to] {
			if s.committed[u.ID] == 0 {
				return false
			}
		}
		return true
	}
}

func (s *cscen) witness(extra map[string]any) map[string]any {
	s.mu.Lock()
	defer s.mu.Unlock()
	var us []string
	for _, u := range s.units {
		us = append(us, fmt.Sprintf("unit %d offsets %d..%d key %q node %d lane %d committed %d× (first at request %d)", u.Idx, u.Start, u.End, u.Key, u.Node, u.Lane, s.committed[u.ID], s.firstAt[u.ID]))
	}
	var fr []string
	for _, f := range s.frontier {
		fr = append(fr, fmt.Sprintf("request %d: frontier seq=%d offset=%d", f.ReqSeq, f.Seq, f.Off))
	}
	w := map[string]any{"scenario": s.desc, "stream_start": s.base, "units": us, "frontier_writes": fr}
	for k, v := range extra {
		w[k] = v
	}
	return w
}

// judgeFrontiers: a stored frontier never covers a unit that was not committed at that moment.
func (s *cscen) judgeFrontiers(from int) int {
	s.mu.Lock()
	fr := append([]PosWrite{}, s.frontier...)
	first := map[string]int64{}
	for k, v := range s.firstAt {
		first[k] = v
	}
	s.mu.Unlock()
	s.mu.Lock()
	recs := map[int64][]int64{}
	for k, v := range s.recs {
		recs[k] = append([]int64{}, v...)
	}
	s.mu.Unlock()
	for _, f := range fr[from:] {
		// internally consistent: (seq, offset) is the pair of ONE unit record the target committed
		// (a frontier seeded from a root checkpoint carries seq 0)
		if f.Seq != 0 {
			match := false
			for _, end := range recs[f.Seq] {
				match = match || end == f.Off
			}
			if !match {
				s.run.Violation("frontier|seq-offset-mismatch|"+s.ctx, s.key,
					fmt.Sprintf("request %d stored frontier seq=%d offset=%d, but the unit records committed under sequence number %d end at %v: the pair belongs to no unit", f.ReqSeq, f.Seq, f.Off, f.Seq, recs[f.Seq]),
					s.witness(nil))
			}
		}
		for _, u := range s.units {
			at, ok := first[u.ID]
			if u.End <= f.Off && (!ok || at > f.ReqSeq) {
				s.run.Violation("frontier|passes-uncommitted-unit|"+s.ctx, s.key,
					fmt.Sprintf("request %d stored frontier seq=%d offset=%d although unit %d (offsets %d..%d, lane %d) was not committed at that moment", f.ReqSeq, f.Seq, f.Off, u.Idx, u.Start, u.End, u.Lane),
					s.witness(nil))
				break
			}
		}
	}
	return len(fr)
}

// judgeStart: the resume offset of a start.
func (s *cscen) judgeStart(sp syncer.StartPoint, err error, what, tag string, floor int64) (int64, bool) {
	if err != nil {
		s.run.Violation("restart|start-point-refused|"+tag+s.ctx, s.key, fmt.Sprintf("%s: StartPoint fails: %v", what, err), s.witness(nil))
		return -1, false
	}
	R := sp.Offset
	boundary := false
	for _, b := range s.bases {
		boundary = boundary || R == b
	}
	for _, u := range s.units {
		boundary = boundary || u.End == R
	}
	if sp.RunId != SourceRunIDs()[0] || R < 0 {
		s.run.Violation("resume|position-lost|"+tag+s.ctx, s.key, fmt.Sprintf("%s returned %+v", what, sp), s.witness(nil))
		return -1, false
	}
	if !boundary {
		s.run.Violation("resume|not-a-unit-boundary|"+tag+s.ctx, s.key, fmt.Sprintf("%s: resume offset %d ends no replay unit", what, R), s.witness(nil))
		return R, false
	}
	s.mu.Lock()
	var miss *cunit
	maxEnd, beyond := s.bases[len(s.bases)-1], 0
	for i := range s.units {
		if s.units[i].End <= R && s.committed[s.units[i].ID] == 0 && miss == nil {
			miss = &s.units[i]
		}
		if s.committed[s.units[i].ID] > 0 {
			if s.units[i].End > maxEnd {
				maxEnd = s.units[i].End
			}
			if s.units[i].End > R {
				beyond++
			}
		}
	}
	s.mu.Unlock()
	ok := true
	if miss == nil && !s.mode.UsesFrontier() && R != maxEnd {
		ok = false
		s.run.Violation("resume|sync-mode-repeats-committed-units|"+tag+s.ctx, s.key,
			fmt.Sprintf("%s: resume offset %d but the last committed unit ends at %d: %d committed units would be applied a second time", what, R, maxEnd, beyond),
			s.witness(map[string]any{"start_point": fmt.Sprintf("%+v", sp)}))
	}
	if miss != nil {
		ok = false
		s.run.Violation("resume|skips-uncommitted-unit|"+tag+s.ctx, s.key,
			fmt.Sprintf("%s: resume offset %d lies behind unit %d (offsets %d..%d, key %q, lane %d) which the target never committed: the unit is skipped", what, R, miss.Idx, miss.Start, miss.End, miss.Key, miss.Lane),
			s.witness(map[string]any{"start_point": fmt.Sprintf("%+v", sp)}))
	}
	if R < floor {
		ok = false
		s.run.Violation("monotone|resume-point-decreased|"+tag+s.ctx, s.key, fmt.Sprintf("%s: resume offset %d, an earlier start had returned %d", what, R, floor), s.witness(nil))
	}
	return R, ok
}

// firstStart: bookkeeping, StartPoint (nothing stored), full sync of an empty snapshot, StartPoint.
func (s *cscen) firstStart() (*syncer.RedisOutput, string) {
	ctx := context.Background()
	out, err := s.open()
	if err != nil {
		return nil, "start-up bookkeeping: " + err.Error()
	}
	ids := SourceRunIDs()
	sp, err := out.StartPoint(ctx, ids)
	if err != nil || sp.Offset >= 0 {
		return nil, fmt.Sprintf("initial StartPoint: %+v %v", sp, err)
	}
	ss := &drive.Session{IDs: ids, Out: out, Watch: s.watch}
	if err := ss.FullSync(ctx, drive.EmptyRDB, s.base); err != nil {
		return nil, "full sync: " + err.Error()
	}
	sp, err = out.StartPoint(ctx, ids)
	if err != nil || sp.Offset != s.base {
		return nil, fmt.Sprintf("StartPoint after the full sync: %+v %v (want %d)", sp, err, s.base)
	}
	return out, ""
}

// phase1 feeds units < k, waits until they are committed, arms the hold and feeds k … k+m; it
// returns once unit k's connection is held and the m later units are committed.
func (s *cscen) phase1(out *syncer.RedisOutput, preFlush bool) (*drive.AofRun, context.CancelFunc, string) {
	ctx, cancel := context.WithCancel(context.Background())
	ss := &drive.Session{IDs: SourceRunIDs(), Out: out, Watch: s.watch}
	g1 := make(chan struct{})
	cutA := s.units[s.k].Start - s.base
	cutB := s.units[s.k+s.m].End - s.base
	ar := ss.SendAof(ctx, s.base, []drive.Step{{Data: s.data[:cutA]}, {Gate: g1, Data: s.data[cutA:cutB]}}, false, 4096)
	if !s.waitFor(s.watch, s.committedRange(0, s.k)) {
		cancel()
		return ar, cancel, "watchdog: the units before the held one were not committed"
	}
	if preFlush {
		// let a frontier flush cover the prefix first (snapshot exists, pending map empty): bounded
		// exposure, not a verdict
		want := s.units[s.k-1].End
		s.waitFor(400*time.Millisecond, func() bool { return len(s.frontier) > 0 && s.frontier[len(s.frontier)-1].Off == want })
	}
	// the replies of the earlier transactions at the held node must be out before the hold is armed
	// (a unit is committed before its EXEC reply passes the hold point)
	earlier := int64(0)
	for _, u := range s.units[:s.k] {
		if u.Node == s.holdNode {
			earlier++
		}
	}
	for t0 := time.Now(); s.seen.Load() < earlier; {
		if time.Since(t0) > s.watch {
			cancel()
			return ar, cancel, "watchdog: replies of the earlier units at the held node not seen"
		}
		time.Sleep(200 * time.Microsecond)
	}
	s.armed.Store(true)
	close(g1)
	select {
	case <-s.blocked:
	case er := <-ar.Done:
		cancel()
		return ar, cancel, fmt.Sprintf("Send returned before the hold was reached: %v", er)
	case <-time.After(s.watch):
		cancel()
		return ar, cancel, "watchdog: the held unit never reached its node"
	}
	if !s.waitFor(s.watch, s.committedRange(s.k+1, s.k+1+s.m)) {
		cancel()
		return ar, cancel, "watchdog: the units after the held one were not committed"
	}
	return ar, cancel, ""
}

func (s *cscen) nFrontier() int {
	s.mu.Lock()
	defer s.mu.Unlock()
	return len(s.frontier)
}

func (s *cscen) releaseHold() { s.relOnce.Do(func() { close(s.release) }) }

// finish replays the rest of the stream from R on `out` until every unit from R on is committed.
func (s *cscen) finish(out *syncer.RedisOutput, R int64, waitFlush bool) string {
	data, base := s.data, s.bases[len(s.bases)-1]
	ctx, cancel := context.WithCancel(context.Background())
	defer cancel()
	ss := &drive.Session{IDs: SourceRunIDs(), Out: out, Watch: s.watch}
	ar := ss.SendAof(ctx, R, []drive.Step{{Data: data[R-base:]}}, false, 4096)
	from := len(s.units)
	for i, u := range s.units {
		if u.End > R {
			from = i
			break
		}
	}
	s.mu.Lock()
	before := map[string]int{}
	for k, v := range s.committed {
		before[k] = v
	}
	s.mu.Unlock()
	done := make(chan bool, 1)
	go func() {
		done <- s.waitFor(s.watch, func() bool {
			for _, u := range s.units[from:] {
				if s.committed[u.ID] <= before[u.ID] {
					return false
				}
			}
			return true
		})
	}()
	select {
	case ok := <-done:
		if !ok {
			ar.Stop(5 * time.Second)
			return "watchdog: the resumed run did not commit the rest of the stream"
		}
	case er := <-ar.Done:
		ar.F.Abort()
		return fmt.Sprintf("the resumed Send returned by itself: %v", er)
	}
	if waitFlush && s.mode.UsesFrontier() {
		last := s.units[len(s.units)-1].End
		nf := s.nFrontier()
		s.waitFor(2*time.Second, func() bool { return len(s.frontier) > nf && s.frontier[len(s.frontier)-1].Off >= last })
	}
	if _, ok := ar.Stop(s.watch); !ok {
		return "Send did not return after cancel"
	}
	return ""
}

func (s *cscen) judgeFinal(what string) {
	s.mu.Lock()
	var lost []string
	repeated := 0
	for _, u := range s.units {
		switch n := s.committed[u.ID]; {
		case n == 0:
			lost = append(lost, fmt.Sprintf("unit %d (offsets %d..%d, key %q)", u.Idx, u.Start, u.End, u.Key))
		case n > 1:
			repeated++
		}
	}
	s.mu.Unlock()
	s.run.Count("cluster_units_repeated", int64(repeated))
	s.run.Count("cluster_units_committed", int64(len(s.units)-len(lost)))
	if repeated > 0 && !s.mode.UsesFrontier() {
		s.run.Violation("resumed-run|sync-mode-unit-applied-twice|"+s.ctx, s.key, fmt.Sprintf("%s: %d units were committed more than once although sync mode resumes exactly after the last committed unit", what, repeated), s.witness(nil))
	}
	if len(lost) > 0 {
		s.run.Violation("resumed-run|unit-never-committed|"+s.ctx, s.key, fmt.Sprintf("%s: after the stream was replayed to its end %s never reached the target", what, strings.Join(lost, ", ")), s.witness(nil))
	}
}

// outOfOrderStop is schedule (1).
func outOfOrderStop(run *harness.Run, d *Driver, key string, idx int) {
	s, why := newCScen(run, d, key, idx, false)
	if s == nil {
		run.Inconclusive("%s: %s", key, why)
		return
	}
	defer s.cl.Close()
	defer s.releaseHold()
	preFlush := s.k >= 1 && s.r.Intn(2) == 0
	s.desc = "out-of-order acknowledgement then stop; " + s.desc + fmt.Sprintf(" flush-before=%v gap-closes-last(held unit released before the stop)=%v", preFlush, idx%2 == 1)
	out, why := s.firstStart()
	if out == nil {
		run.Inconclusive("%s: %s", key, why)
		return
	}
	ar, cancel, why := s.phase1(out, preFlush)
	defer cancel()
	if why != "" {
		s.releaseHold()
		ar.F.Abort()
		run.Inconclusive("%s: %s (%s)", key, why, s.desc)
		return
	}
	gapClosesLast := idx%2 == 1
	flushed := false
	if gapClosesLast {
		// the held unit is let go: its acknowledgement arrives AFTER those of the later units and
		// closes the gap; then a frontier flush (logical event: a frontier write after its commit,
		// bounded exposure), then the stop
		time.Sleep(time.Duration(5+s.r.Intn(40)) * time.Millisecond) // the later acknowledgements get handled first
		s.releaseHold()
		if !s.waitFor(s.watch, s.committedRange(s.k, s.k+1)) {
			run.Inconclusive("%s: watchdog: the released unit was not committed", key)
			return
		}
		s.mu.Lock()
		nf, after := len(s.frontier), s.firstAt[s.units[s.k].ID]
		if s.holdCmd == "EXEC" {
			after = s.firstAt[s.units[s.k+s.m].ID]
		}
		s.mu.Unlock()
		flushed = s.waitFor(400*time.Millisecond, func() bool { return len(s.frontier) > nf && s.frontier[len(s.frontier)-1].ReqSeq > after })
		cancel()
	} else {
		// exposure: a frontier flush may fire now (100 ms ticker).  The wait ends at the logical event
		// "a frontier write arrived after the later units were committed" or after three intervals.
		s.mu.Lock()
		nf, after := len(s.frontier), s.firstAt[s.units[s.k+s.m].ID]
		s.mu.Unlock()
		flushed = s.waitFor(330*time.Millisecond, func() bool { return len(s.frontier) > nf && s.frontier[len(s.frontier)-1].ReqSeq > after })
		// stop: the tool is stopped, what the held connection had sent is discarded
		cancel()
		s.cl.Node(s.holdNode).Kill()
		s.releaseHold()
	}
	if _, ok := ar.Wait(s.watch); !ok {
		run.Inconclusive("%s: Send did not return after the stop", key)
		return
	}
	s.cl.WaitIdle(20*time.Millisecond, 5*time.Second)
	if !gapClosesLast {
		s.cl.Node(s.holdNode).Revive()
	}
	run.Eval(1)
	run.Count("cluster_out_of_order_stops", 1)
	if flushed {
		run.Count("cluster_flush_seen_while_unit_outstanding", 1)
	}
	s.mu.Lock()
	heldCommitted := s.committed[s.units[s.k].ID] > 0
	s.mu.Unlock()
	run.Distinct(fmt.Sprintf("%s|out-of-order-stop|hold=%s|gap-closes-last=%v|lanes=%d|flush-before=%v|flush-seen=%v|held-committed=%v", s.ctx, s.holdCmd, gapClosesLast, s.lanes, preFlush, flushed, heldCommitted))
	if gapClosesLast {
		run.Count("cluster_gap_closed_last", 1)
	}
	s.judgeFrontiers(0)

	// fresh instances (one; every third scenario two in a row without traffic — a start on a cluster
	// scans all 16384 slot tags, which dominates the cost of a scenario); the last replays the rest
	ids := SourceRunIDs()
	floor := int64(-1)
	var last *syncer.RedisOutput
	var R int64
	starts := 1
	if s.r.Intn(3) == 0 || gapClosesLast {
		starts = 2
	}
	for i := 1; i <= starts; i++ {
		o, err := s.open()
		if err != nil {
			run.Inconclusive("%s: restart %d: start-up bookkeeping: %v", key, i, err)
			return
		}
		sp, err := o.StartPoint(context.Background(), ids)
		r, ok := s.judgeStart(sp, err, fmt.Sprintf("fresh instance %d after the stop", i), "", floor)
		run.Count("cluster_tool_starts", 1)
		if !ok && (err != nil || r < 0) {
			return
		}
		floor, last, R = r, o, r
	}
	boundary := false
	for _, u := range s.units {
		boundary = boundary || u.End == R
	}
	if R != s.base && !boundary {
		return
	}
	nf := s.nFrontier()
	if why := s.finish(last, R, true); why != "" {
		run.Inconclusive("%s: %s", key, why)
		return
	}
	s.judgeFrontiers(nf)
	s.judgeFinal("out-of-order stop, fresh start")
}

// inProcessRestart is schedule (2).
func inProcessRestart(run *harness.Run, d *Driver, key string, idx int) {
	s, why := newCScen(run, d, key, idx, true) // the failing unit is held before its transaction is executed
	if s == nil {
		run.Inconclusive("%s: %s", key, why)
		return
	}
	defer s.cl.Close()
	defer s.releaseHold()
	s.failDrop = idx%3 == 2
	s.desc = "unit fails after later units were acknowledged, restart on the same output; " + s.desc + fmt.Sprintf(" failure=%s", map[bool]string{false: "EXEC answered with an error (not executed)", true: "EXEC executed, connection dropped"}[s.failDrop])
	failID := s.units[s.k].ID
	hn := s.cl.Node(s.holdNode)
	hn.SetHooks(nil,
		func(q *fakeredis.Req) (fakeredis.Reply, bool) { // before execution, under the node's lock
			if !s.failArmed {
				return nil, false
			}
			if q.Cmd == "SET" && gen.FindID(q.Args) == failID {
				s.failConn = q.Conn
			}
			if q.Cmd == "EXEC" && q.Conn == s.failConn && !s.failDrop {
				s.failArmed = false
				s.failed.Store(true)
				return fakeredis.Err("ERR verif: injected failure of this transaction"), true
			}
			return nil, false
		},
		func(q *fakeredis.Req) bool { // after execution: drop reply + connection
			if s.failArmed && s.failDrop && q.Cmd == "EXEC" && q.Conn == s.failConn {
				s.failArmed = false
				s.failed.Store(true)
				return true
			}
			return false
		})
	out, why := s.firstStart()
	if out == nil {
		run.Inconclusive("%s: %s", key, why)
		return
	}
	hn.With(func([]fakeredis.DB) { s.failArmed = true })
	ar, cancel, why := s.phase1(out, false)
	defer cancel()
	if why != "" {
		s.releaseHold()
		ar.F.Abort()
		run.Inconclusive("%s: %s (%s)", key, why, s.desc)
		return
	}
	// the later units are committed; give their acknowledgements a moment to be handled (exposure,
	// no verdict), then let the held transaction run into its failure
	time.Sleep(time.Duration(5+s.r.Intn(120)) * time.Millisecond)
	s.releaseHold()
	er, ok := ar.Wait(s.watch)
	if !ok || er == nil {
		ar.Stop(5 * time.Second)
		run.Inconclusive("%s: Send did not fail on the injected failure (returned=%v err=%v)", key, ok, er)
		return
	}
	if !s.failed.Load() {
		run.Inconclusive("%s: Send failed for another reason: %v", key, er)
		return
	}
	s.cl.WaitIdle(20*time.Millisecond, 5*time.Second)
	run.Eval(1)
	run.Count("cluster_in_process_restarts", 1)
	run.Distinct(fmt.Sprintf("%s|in-process-restart|lanes=%d|drop=%v", s.ctx, s.lanes, s.failDrop))
	s.judgeFrontiers(0)

	// the same RedisOutput again: StartPoint, Send from there
	ids := SourceRunIDs()
	sp, err := out.StartPoint(context.Background(), ids)
	R, okStart := s.judgeStart(sp, err, fmt.Sprintf("StartPoint on the same output after Send failed with %q", trunc200(er.Error())), "in-process-restart|", s.base)
	run.Count("cluster_tool_starts", 1)
	if err != nil || R < 0 {
		return
	}
	boundary := R == s.base
	for _, u := range s.units {
		boundary = boundary || u.End == R
	}
	if !boundary {
		return
	}
	nf := s.nFrontier()
	if why := s.finish(out, R, true); why != "" {
		run.Inconclusive("%s: %s", key, why)
		return
	}
	s.judgeFrontiers(nf)
	// a new process
	o, err := s.open()
	if err != nil {
		run.Inconclusive("%s: fresh instance: start-up bookkeeping: %v", key, err)
		return
	}
	sp, err = o.StartPoint(context.Background(), ids)
	floor := R
	if !okStart {
		floor = -1
	}
	s.judgeStart(sp, err, "fresh instance after the in-process restart had replayed the rest", "", floor)
	run.Count("cluster_tool_starts", 1)
	s.judgeFinal("in-process restart")
}

// syncResync is schedule (3): SYNC mode on the cluster (one latest record per slot).  Era 1: units
// into several slots; a second snapshot under the unchanged run id on the SAME instance
// (StartPoint → Send(snapshot) → StartPoint → Send(stream), as RedisInput.run does after
// +FULLRESYNC); era 2: fewer units than era 1, into other slots; stop; a fresh instance must
// resume exactly after the last committed unit and the resumed run must repeat nothing.
func syncResync(run *harness.Run, d *Driver, key string, idx int) {
	s := newCBase(run, d, key, config.ReplayModeSync)
	defer s.cl.Close()
	s.hook()
	tgt, err := clusterTarget(s.cl, clusterNodes)
	if err != nil {
		run.Inconclusive("%s: %v", key, err)
		return
	}
	s.tgt = tgt
	r := s.r
	hist := "s" + alnum(key)
	n1 := 4 + r.Intn(3)
	n2 := 3 + r.Intn(2)
	n2a := 1 + r.Intn(2) // era-2 units committed before the stop (fewer than era 1's highest sequence number)
	usedSlots := map[int]bool{}
	build := func(base int64, n, first int) []byte {
		var buf bytes.Buffer
		buf.Write(gen.Encode("SELECT", [][]byte{[]byte("0")}))
		for i := 0; i < n; i++ {
			key, node, _ := s.pickKey(fmt.Sprintf("%s:%d", hist, first+i), func(node, lane int) bool { return true })
			for usedSlots[fakeredis.Slot([]byte(key))] {
				key, node, _ = s.pickKey(fmt.Sprintf("%s:%d:%d", hist, first+i, r.Intn(1000)), func(node, lane int) bool { return true })
			}
			usedSlots[fakeredis.Slot([]byte(key))] = true
			id := fmt.Sprintf("~%s.%d~", hist, first+i)
			if r.Intn(4) == 0 {
				buf.Write(gen.Encode("PING", nil))
			}
			u := cunit{Idx: first + i + 1, Key: key, ID: id, Node: node, Start: base + int64(buf.Len())}
			buf.Write(gen.Encode("SET", [][]byte{[]byte(key), []byte(id + "v")}))
			u.End = base + int64(buf.Len())
			s.units = append(s.units, u)
		}
		return buf.Bytes()
	}
	base1 := int64(1000 + r.Intn(100000))
	data1 := build(base1, n1, 0)
	// decimal boundary (its own PRNG stream, the case mix above is not disturbed): two scenarios in
	// three start era 1 a few units below a power of ten, so that units committed into different
	// slots end on both sides of 10^k — e.g. 99 991 in one slot, 100 012 in the next — and the
	// slots of the earlier units (never written again) keep records with a larger leading digit
	// but a smaller value for the rest of the scenario.
	straddle := ""
	if idx%3 != 2 {
		rd := run.Rand(key + "|decimal-boundary")
		k := 3 + rd.Intn(7) // 10^3 … 10^9
		pow := int64(1)
		for i := 0; i < k; i++ {
			pow *= 10
		}
		j := rd.Intn(n1 - 1) // units[0..j] end below 10^k, units[j+1..] above
		nb := pow - (s.units[j].End - base1) - int64(1+rd.Intn(9))
		for i := 0; i < n1; i++ {
			s.units[i].Start += nb - base1
			s.units[i].End += nb - base1
		}
		base1 = nb
		straddle = fmt.Sprintf("; era 1 straddles 10^%d: unit %d ends at %d, unit %d at %d", k, j+1, s.units[j].End, j+2, s.units[j+1].End)
	}
	base2 := base1 + int64(len(data1)) + int64(1+r.Intn(50000))
	data2 := build(base2, n2, n1)
	s.base, s.bases = base1, []int64{base1}
	s.desc = fmt.Sprintf("sync mode, resynchronisation under the same run id: era 1 = %d units from %d, second snapshot at %d, era 2 = %d units (%d committed before the stop)%s", n1, base1, base2, n2, n2a, straddle)
	ids := SourceRunIDs()
	ctx := context.Background()

	out, why := s.firstStart()
	if out == nil {
		run.Inconclusive("%s: %s", key, why)
		return
	}
	sendUntil := func(base int64, data []byte, from, to int) string { // commits units[from:to]
		cctx, cancel := context.WithCancel(ctx)
		defer cancel()
		ss := &drive.Session{IDs: ids, Out: out, Watch: s.watch}
		ar := ss.SendAof(cctx, base, []drive.Step{{Data: data[:s.units[to-1].End-base]}}, false, 4096)
		if !s.waitFor(s.watch, s.committedRange(from, to)) {
			ar.Stop(5 * time.Second)
			return "watchdog: units not committed"
		}
		if _, ok := ar.Stop(s.watch); !ok {
			return "Send did not return after cancel"
		}
		return ""
	}
	if why := sendUntil(base1, data1, 0, n1); why != "" {
		run.Inconclusive("%s: era 1: %s", key, why)
		return
	}
	// the first units of era 1 were committed by a host whose wall clock ran 10 s ahead (leader
	// change to a host with a slower clock / NTP step back afterwards): their latest records carry
	// an mtime beyond those of the later units.  mtime is a value the committing host sends; the
	// double's stored copy is edited while the tool is stopped.
	s.cl.WaitIdle(20*time.Millisecond, 5*time.Second)
	// ... or every unit was (the whole era was committed by a host whose clock runs ahead of the
	// host that starts next, by seconds or by an hour): the record of the last committed unit
	// then lies in the starting host's future
	skewBy := []time.Duration{10 * time.Second, 2 * time.Minute, time.Hour}[r.Intn(3)]
	upTo := s.units[r.Intn(n1-1)].End
	which := "the first units"
	if r.Intn(2) == 0 {
		upTo, which = s.units[n1-1].End, "all units"
	}
	skewed := s.skewLatestMtime(upTo, skewBy)
	run.Count("cluster_latest_records_with_skewed_mtime", int64(skewed))
	s.desc += fmt.Sprintf("; the latest records of %s of era 1 (%d records) carry mtimes %v ahead", which, skewed, skewBy)
	// the same instance is told to resynchronise: StartPoint, snapshot, StartPoint, stream
	sp, err := out.StartPoint(ctx, ids)
	s.judgeStart(sp, err, "StartPoint on the same output after era 1", "in-process-restart|", base1)
	ss := &drive.Session{IDs: ids, Out: out, Watch: s.watch}
	if err := ss.FullSync(ctx, drive.EmptyRDB, base2); err != nil {
		run.Inconclusive("%s: second snapshot: %v", key, err)
		return
	}
	s.base, s.bases, s.data = base2, []int64{base1, base2}, data2
	sp, err = out.StartPoint(ctx, ids)
	if err != nil || sp.Offset != base2 {
		run.Inconclusive("%s: StartPoint after the second snapshot: %+v %v (snapshot offset %d)", key, sp, err, base2)
		return
	}
	if why := sendUntil(base2, data2, n1, n1+n2a); why != "" {
		run.Inconclusive("%s: era 2: %s", key, why)
		return
	}
	s.cl.WaitIdle(20*time.Millisecond, 5*time.Second)
	run.Eval(1)
	run.Count("cluster_sync_resyncs", 1)
	run.Distinct(fmt.Sprintf("%s|resync-same-run-id|era1=%d|era2-before-stop=%d|decimal-boundary=%v", s.ctx, n1, n2a, straddle != ""))
	if straddle != "" {
		run.Count("cluster_sync_streams_across_power_of_ten", 1)
	}

	o, err := s.open()
	if err != nil {
		run.Inconclusive("%s: fresh instance: start-up bookkeeping: %v", key, err)
		return
	}
	sp, err = o.StartPoint(ctx, ids)
	R, _ := s.judgeStart(sp, err, "fresh instance after the resynchronisation and "+fmt.Sprint(n2a)+" further units", "after-resync|", -1)
	run.Count("cluster_tool_starts", 1)
	if err != nil || R < base2 {
		return
	}
	ok := R == base2
	for _, u := range s.units[n1:] {
		ok = ok || u.End == R
	}
	if !ok {
		return
	}
	if why := s.finish(o, R, false); why != "" {
		run.Inconclusive("%s: %s", key, why)
		return
	}
	s.judgeFinal("resynchronisation under the same run id, fresh start")
}

// skewLatestMtime adds d to the mtime field of every stored latest record whose unit ends at or
// before upTo; returns how many records were edited.
func (s *cscen) skewLatestMtime(upTo int64, d time.Duration) int {
	n := 0
	for i := 0; i < clusterNodes; i++ {
		s.cl.Node(i).With(func(dbs []fakeredis.DB) {
			for k, o := range dbs[0] {
				if ClassOf([]byte(k)) != KLatest || o.Kind != fakeredis.KHash {
					continue
				}
				end, mt := atoi64(string(o.Hash["end_offset"])), atoi64(string(o.Hash["mtime"]))
				if end > 0 && end <= upTo && mt > 0 {
					o.Hash["mtime"] = []byte(fmt.Sprint(mt + int64(d)))
					n++
				}
			}
		})
	}
	return n
}

func trunc200(s string) string {
	if len(s) > 200 {
		return s[:200] + "…"
	}
	return s
}

// ClusterScenarios runs both schedules.
func ClusterScenarios(run *harness.Run, o ClusterOptions) {
	type job struct {
		key string
		idx int
		fn  func(*harness.Run, *Driver, string, int)
	}
	var jobs []job
	for i := 0; i < o.NOutOfOrder; i++ {
		jobs = append(jobs, job{fmt.Sprintf("cluster-ooo-%d", i), i, outOfOrderStop})
	}
	for i := 0; i < o.NInProcess; i++ {
		jobs = append(jobs, job{fmt.Sprintf("cluster-inproc-%d", i), i, inProcessRestart})
	}
	for i := 0; i < o.NSyncResync; i++ {
		jobs = append(jobs, job{fmt.Sprintf("cluster-syncresync-%d", i), i, syncResync})
	}
	harness.Parallel(len(jobs), o.Workers, func(i int) {
		if run.WantCase(jobs[i].key) {
			jobs[i].fn(run, o.Driver, jobs[i].key, jobs[i].idx)
		}
	})
}
