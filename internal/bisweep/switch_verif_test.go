//go:build verif

package bisweep

import (
	"fmt"
	"testing"
	"time"

	"verif/internal/drive"
	"verif/internal/harness"

	"github.com/mgtv-tech/redis-GunYu/config"
	"github.com/mgtv-tech/redis-GunYu/syncer"
)

// TestSwitchSweepLive runs the format-switch lost-reply sweep on one case (engine sanity and cost).
func TestSwitchSweepLive(t *testing.T) {
	drive.Quiet()
	d := NewDriver(syncer.VerifNewOutput)
	defer d.Close()
	run := harness.New("C14", "fault_enumeration", "switch sweep live test")
	x := &explorer{run: run, o: Options{Driver: d, Factory: NewStandalone}, sem: make(chan struct{}, 24), seenSubs: map[string]bool{}}
	key := "fault-0"
	fe := newFaultEnv(run.Rand(key), key, config.ReplayModePipeline, d, NewStandalone)
	t0 := time.Now()
	x.switchSweep(fe, key, run.Rand(key+"/pick"), 2)
	fmt.Println(run.VerifInconclusives())
	fmt.Println("switch sweep took", time.Since(t0), "enumerated", run.Counter("switch_writes_enumerated"), "run", run.Counter("switch_faults_run"),
		"refused", run.Counter("switch_second_attempt_refused"), "notreached", run.Counter("fault_request_not_reached"), "refused-by-tool", run.Counter("switch_sweeps_refused_by_the_tool"))
}
