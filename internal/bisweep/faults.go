package bisweep

// "One request answered with an error once" sweeps (property C14, fault-driven part).  The tool's
// own error handling / retry follows the fault; then the usual fresh starts are judged.
//
//  (1) over the requests of a frontier flush (pipeline and parallel mode): every request of the
//      first and of the second flush of a run — the frontier HSET, each journal DEL, the index ZREM
//      — is, in its own re-run of the same scenario, answered with an error reply (-OOM only where
//      Redis refuses: the denyoom HSET; -LOADING on any) or executed with the connection closed
//      instead of a reply.  Then stop; a fresh instance's StartPoint must not be smaller than what a
//      fresh instance finds in the state right before the faulted request, and every unit the
//      double committed must be covered by the stored frontier or still have its journal record.
//  (2) over the requests of start-up recovery (bisyncStartPoint) on three kinds of states of one
//      uninterrupted run — journal only, stored frontier + journal beyond it, stored frontier only
//      (all ahead of the root checkpoint): the start is run once unfaulted to learn its request
//      sequence and its answer; then, for every request k and both flavours, the state is rebuilt,
//      request k is faulted, StartPoint is called AGAIN on the same RedisOutput (what
//      RedisInput.getOutputStartPoint does) and must return the unfaulted answer; the rest of the
//      stream is replayed, stop, and a fresh instance must not resume behind it.

import (
	"bytes"
	"context"
	"fmt"
	"math/rand"
	"os"
	"sort"
	"strings"
	"sync"
	"sync/atomic"
	"time"

	"verif/internal/drive"
	"verif/internal/fakeredis"
	"verif/internal/gen"
	"verif/internal/harness"

	"github.com/mgtv-tech/redis-GunYu/config"
	"github.com/mgtv-tech/redis-GunYu/syncer"
)

type FaultOptions struct {
	NCases  int // per case: one mode (pipeline / parallel alternate), both sweeps
	Workers int
	Driver  *Driver
	Factory TargetFactory
	// DelSamples (SwitchSweeps only): how many DELs between the first and the last one are candidates
	DelSamples int
}

// fenv is an Env whose stream consists of three batches of units.
type fenv struct {
	*Env
	batch [3][2]int // unit index ranges [from,to)
	bEnd  [3]int64  // absolute end offset of each batch
	bOff  [3][2]int // byte ranges of the batches in the stream
}

func newFaultEnv(r *rand.Rand, key string, mode config.ReplayMode, d *Driver, f TargetFactory) *fenv {
	c := Case{Key: key, Mode: mode, Window: []uint{1, 4}[r.Intn(2)], Frags: 1, Base: int64(1000 + r.Intn(1000000))}
	e := &Env{C: c, D: d, Factory: f, Watch: 120 * time.Second, IDs: SourceRunIDs(), EndUnit: map[int64]*Unit{}}
	e.RunID = e.IDs[0]
	fe := &fenv{Env: e}
	hist := "f" + alnum(key)
	var buf bytes.Buffer
	buf.Write(gen.Encode("SELECT", [][]byte{[]byte("0")}))
	n := 0
	for b := 0; b < 3; b++ {
		fe.batch[b][0] = len(e.Units)
		fe.bOff[b][0] = buf.Len()
		if b == 0 {
			fe.bOff[b][0] = 0
		}
		for i, cnt := 0, 2+r.Intn(2); i < cnt; i++ {
			u := Unit{Idx: len(e.Units) + 1}
			if r.Intn(3) == 0 {
				u.Group = true
				buf.Write(gen.Encode("MULTI", nil))
				for j := 0; j < 2; j++ {
					id := fmt.Sprintf("~%s.%d~", hist, n)
					n++
					buf.Write(gen.Encode("RPUSH", [][]byte{[]byte("lst"), []byte(id)}))
					u.IDs = append(u.IDs, id)
				}
				buf.Write(gen.Encode("EXEC", nil))
			} else {
				id := fmt.Sprintf("~%s.%d~", hist, n)
				n++
				buf.Write(gen.Encode("SET", [][]byte{[]byte(fmt.Sprintf("k%d", r.Intn(4))), []byte(id + "v")}))
				u.IDs = []string{id}
			}
			u.End = c.Base + int64(buf.Len())
			e.Units = append(e.Units, u)
			if r.Intn(4) == 0 {
				buf.Write(gen.Encode("PING", nil))
			}
		}
		fe.batch[b][1] = len(e.Units)
		fe.bOff[b][1] = buf.Len()
		fe.bEnd[b] = e.Units[len(e.Units)-1].End
	}
	e.Stream = &gen.Stream{Hist: hist, Bytes: buf.Bytes()}
	for i := range e.Units {
		e.EndUnit[e.Units[i].End] = &e.Units[i]
	}
	e.Last = &e.Units[len(e.Units)-1]
	return fe
}

// fwatch observes commits (effect log) and the coordinator's requests (request log, answered with
// an error or not).
type fwatch struct {
	mu        sync.Mutex
	committed map[string]bool
	hsets     int // frontier HSET requests seen
	zrems     int // index ZREM requests seen
	notify    chan struct{}
}

func (fe *fenv) watchAll(tgt Target) *fwatch {
	w := &fwatch{committed: map[string]bool{}, notify: make(chan struct{}, 1)}
	ping := func() {
		select {
		case w.notify <- struct{}{}:
		default:
		}
	}
	tgt.SetOnApplied(func(a *fakeredis.App) {
		if a.Write && !a.IsErr && a.Txn != 0 {
			if id := gen.FindID(a.Args); id != "" && len(a.Args) > 0 && ClassOf(a.Args[0]) == KBusiness {
				w.mu.Lock()
				w.committed[id] = true
				w.mu.Unlock()
				ping()
			}
		}
	})
	tgt.SetOnRequest(func(q *fakeredis.Req) {
		if len(q.Args) == 0 || q.Kind == fakeredis.ReqQueued {
			return
		}
		switch cls := ClassOf(q.Args[0]); {
		case q.Cmd == "HSET" && cls == KFrontier:
			w.mu.Lock()
			w.hsets++
			w.mu.Unlock()
			ping()
		case q.Cmd == "ZREM" && cls == KIndex:
			w.mu.Lock()
			w.zrems++
			w.mu.Unlock()
			ping()
		}
	})
	return w
}

// wait returns true when cond holds, false when Send returned first or d elapsed (the caller goes
// on either way: d bounds the exposure, it decides nothing).
func (w *fwatch) wait(d time.Duration, done <-chan error, cond func() bool) bool {
	deadline := time.After(d)
	for {
		w.mu.Lock()
		ok := cond()
		w.mu.Unlock()
		if ok {
			return true
		}
		select {
		case <-w.notify:
		case <-time.After(5 * time.Millisecond):
		case <-deadline:
			return false
		}
		if len(done) > 0 {
			return false
		}
	}
}

func (fe *fenv) batchCommitted(w *fwatch, b int) func() bool {
	return func() bool {
		for _, u := range fe.Units[fe.batch[b][0]:fe.batch[b][1]] {
			for _, id := range u.IDs {
				if !w.committed[id] {
					return false
				}
			}
		}
		return true
	}
}

// flushFault names one request of a flush and how it is faulted.
type flushFault struct {
	Class   string // frontier-hset | journal-del | index-zrem
	Ordinal int    // n-th request of that class in the run (1-based)
	Kind    string // oom | loading | drop
}

func (f flushFault) String() string { return fmt.Sprintf("%s#%d/%s", f.Class, f.Ordinal, f.Kind) }

func classOfReq(q *fakeredis.Req) string {
	if len(q.Args) == 0 {
		return ""
	}
	switch cls := ClassOf(q.Args[0]); {
	case q.Cmd == "HSET" && cls == KFrontier:
		return "frontier-hset"
	case (q.Cmd == "DEL" || q.Cmd == "UNLINK") && cls == KCommit:
		return "journal-del"
	case q.Cmd == "ZREM" && cls == KIndex:
		return "index-zrem"
	}
	return ""
}

func errReply(kind string) fakeredis.Reply {
	switch kind {
	case "oom":
		return fakeredis.Err("OOM command not allowed when used memory > 'maxmemory'.")
	case "busy":
		return fakeredis.Err("BUSY Redis is busy running a script. You can only call SCRIPT KILL or SHUTDOWN NOSAVE.")
	}
	return fakeredis.Err("LOADING Redis is loading the dataset in memory")
}

// firstStartOn performs the first start of a run on tgt.
func (fe *fenv) firstStartOn(tgt Target) (*syncer.RedisOutput, Start, string) {
	ctx := context.Background()
	st := Start{ReqFrom: 1, Initial: true, Traffic: true, Mode: fe.C.Mode}
	out, err := fe.D.Open(tgt, fe.C, fe.C.Mode)
	if err != nil {
		return nil, st, "start-up bookkeeping: " + err.Error()
	}
	sp, err := out.StartPoint(ctx, fe.IDs)
	if err != nil || sp.Offset >= 0 {
		return nil, st, fmt.Sprintf("initial StartPoint: %+v %v", sp, err)
	}
	ss := &drive.Session{IDs: fe.IDs, Out: out, Watch: fe.Watch}
	if err := ss.FullSync(ctx, drive.EmptyRDB, fe.C.Base); err != nil {
		return nil, st, "full sync: " + err.Error()
	}
	sp, err = out.StartPoint(ctx, fe.IDs)
	if err != nil || sp.Offset != fe.C.Base {
		return nil, st, fmt.Sprintf("StartPoint after the full sync: %+v %v", sp, err)
	}
	st.SP, st.ReqDone = sp, tgt.Seq()
	return out, st, ""
}

// gatedRun replays batch 1, lets its flush happen, replays batch 2, lets its flush happen, stops.
// With a fault installed the run may end by itself (the tool stops on a refused frontier save).
func (fe *fenv) gatedRun(ff *flushFault) (l *RunLog, fired int64, why string) {
	tgt := fe.Factory(fe.targetOptions())
	defer tgt.Close()
	l = &RunLog{FloorDone: -1, FloorCut: -1, BaseMode: fe.C.Mode, ModeAtCut: fe.C.Mode}
	out, st, why := fe.firstStartOn(tgt)
	if out == nil {
		return nil, 0, why
	}
	l.First = st.ReqDone
	w := fe.watchAll(tgt)
	var firedAt atomic.Int64
	if ff != nil {
		n := 0 // under the target's lock
		match := func(q *fakeredis.Req) bool {
			if q.Kind == fakeredis.ReqQueued || classOfReq(q) != ff.Class || firedAt.Load() != 0 {
				return false
			}
			n++
			if n != ff.Ordinal {
				return false
			}
			firedAt.Store(q.Seq)
			return true
		}
		if ff.Kind == "drop" {
			tgt.SetFault(nil, match)
		} else {
			tgt.SetFault(func(q *fakeredis.Req) (fakeredis.Reply, bool) {
				if match(q) {
					return errReply(ff.Kind), true
				}
				return nil, false
			}, nil)
		}
	}
	ctx, cancel := context.WithCancel(context.Background())
	defer cancel()
	ss := &drive.Session{IDs: fe.IDs, Out: out, Watch: fe.Watch}
	g2 := make(chan struct{})
	data := fe.Stream.Bytes
	ar := ss.SendAof(ctx, fe.C.Base, []drive.Step{{Data: data[:fe.bOff[0][1]]}, {Gate: g2, Data: data[fe.bOff[0][1]:fe.bOff[1][1]]}}, false, 4096)
	expo := 600 * time.Millisecond
	if !w.wait(fe.Watch, ar.Done, fe.batchCommitted(w, 0)) && len(ar.Done) == 0 {
		ar.Stop(5 * time.Second)
		return nil, 0, "watchdog: first batch not committed"
	}
	w.wait(expo, ar.Done, func() bool { return w.zrems >= 1 })
	close(g2)
	if w.wait(expo*4, ar.Done, fe.batchCommitted(w, 1)) {
		w.wait(expo, ar.Done, func() bool { return w.zrems >= 2 })
	}
	select {
	case er := <-ar.Done:
		l.SendErr = er
		ar.F.Abort()
	default:
		er, ok := ar.Stop(fe.Watch)
		if !ok {
			return nil, 0, "Send did not return after cancel"
		}
		l.SendErr = er
	}
	tgt.SetFault(nil, nil)
	tgt.SetOnRequest(nil)
	if !tgt.WaitIdle(5 * time.Second) {
		return nil, 0, "target did not drain"
	}
	st.SendEnd = tgt.Seq()
	l.Starts = []Start{st}
	l.capture(tgt)
	return l, firedAt.Load(), ""
}

// uncovered: units the double committed that neither the stored frontier covers nor a journal
// record (reachable through the index, as recovery finds it) stands for.
func (fe *fenv) uncovered(l *RunLog) []string {
	m := fakeredis.New(serverOptions())
	m.Replay(reservedWrites(l.Lineage()))
	snap, recs := Surviving(m, fe.RunID)
	v := Interpret(l.Lineage(), fe.Units, fe.RunID)
	var out []string
	for idx := range v.Committed(-1) {
		u := fe.Units[idx-1]
		ok := snap != nil && snap.Off >= u.End
		for _, rc := range recs {
			ok = ok || rc.End == u.End
		}
		if !ok {
			out = append(out, fmt.Sprintf("unit %d (ends %d)", u.Idx, u.End))
		}
	}
	return out
}

func (x *explorer) faultWitness(fe *fenv, l *RunLog, extra map[string]any) map[string]any {
	w := map[string]any{"config": fe.C.String(), "units": unitDump(fe.Env), "path": l.Path, "starts": startDump(l), "send_error": fmt.Sprint(l.SendErr),
		"bookkeeping_of_run": bookHead(l.Apps, 80), "state_before_run_tail": bookTail(l.StartApps, 20)}
	for k, v := range extra {
		w[k] = v
	}
	return w
}

// flushSweep is sweep (1) for one case.
func (x *explorer) flushSweep(fe *fenv, key string) {
	run := x.run
	var faults []flushFault
	n1 := fe.batch[0][1] - fe.batch[0][0]
	n2 := fe.batch[1][1] - fe.batch[1][0]
	for flush := 1; flush <= 2; flush++ {
		for _, k := range []string{"oom", "loading", "drop"} {
			faults = append(faults, flushFault{"frontier-hset", flush, k})
		}
		for _, k := range []string{"loading", "drop"} {
			faults = append(faults, flushFault{"index-zrem", flush, k})
		}
	}
	for i := 1; i <= n1+n2; i++ {
		for _, k := range []string{"loading", "drop"} {
			faults = append(faults, flushFault{"journal-del", i, k})
		}
	}
	var wg sync.WaitGroup
	for _, ff := range faults {
		ff := ff
		wg.Add(1)
		go func() {
			defer wg.Done()
			x.sem <- struct{}{}
			l, fired, why := fe.gatedRun(&ff)
			<-x.sem
			ckey := key + "|flush|" + ff.String()
			if l == nil {
				run.Inconclusive("%s: %s", ckey, why)
				return
			}
			if fired == 0 {
				run.Count("fault_request_not_reached", 1)
				return
			}
			l.Path = fmt.Sprintf("frontier flush: %s request #%d of the run (request %d) %s", ff.Class, ff.Ordinal, fired, map[string]string{"oom": "answered -OOM", "loading": "answered -LOADING", "drop": "executed, connection closed instead of a reply"}[ff.Kind])
			run.Eval(1)
			run.Count("flush_faults_run", 1)
			ctxs := fe.C.Ctx(fe.C.Mode, false)
			run.Distinct(fmt.Sprintf("%s|flush-fault|%s|%s|send-stopped=%v", ctxs, ff.Class, ff.Kind, l.SendErr != nil && !isCancel(l.SendErr)))
			fs, st := fe.Judge(l)
			x.account(st, key, l)
			x.report(fe.Env, l, fs)
			if un := fe.uncovered(l); len(un) > 0 {
				run.Violation("fault|committed-unit-without-recovery-record|"+ff.Class+"/"+ff.Kind+"|"+ctxs, key,
					fmt.Sprintf("%s: afterwards %v committed at the target is neither covered by the stored frontier nor has a journal record", l.Path, un),
					x.faultWitness(fe, l, nil))
			}
			// what a fresh instance finds right before the faulted request, and after the run
			r := rand.New(rand.NewSource(fired))
			before, why := fe.Restart(r, l, Cut{N: fired - 1, Stands: 1, FloorDone: fe.C.Base, FloorCut: -1, Mode: fe.C.Mode}, 0, nil, l.Path+" — state right before that request")
			cuts := l.Cuts()
			after, why2 := fe.Restart(r, l, cuts[len(cuts)-1], 1, nil, l.Path+" — after the run stopped")
			if before == nil || after == nil {
				run.Inconclusive("%s: fresh starts: %s %s", ckey, why, why2)
				return
			}
			for _, nl := range []*RunLog{before, after} {
				run.Count("restarts", 1)
				fs, st := fe.Judge(nl)
				x.account(st, key, nl)
				x.report(fe.Env, nl, fs)
			}
			if len(before.Starts) == 0 || len(after.Starts) == 0 || before.Starts[0].Err != nil || after.Starts[0].Err != nil {
				return // refusals are reported by Judge
			}
			rb, ra := before.Starts[0].SP.Offset, after.Starts[0].SP.Offset
			if ra < rb {
				run.Violation("fault|resume-point-decreased-by-faulty-flush|"+ff.Class+"/"+ff.Kind+"|"+ctxs, key,
					fmt.Sprintf("%s: a fresh instance started on the state right before that request resumes at %d, a fresh instance started after the run resumes at %d", l.Path, rb, ra),
					x.faultWitness(fe, l, map[string]any{"fresh_start_before": startDump(before), "fresh_start_after": startDump(after)}))
			}
		}()
	}
	wg.Wait()
}

func isCancel(err error) bool {
	return err != nil && bytes.Contains([]byte(err.Error()), []byte("context canceled"))
}

// recoverySweep is sweep (2) for one case.
func (x *explorer) recoverySweep(fe *fenv, key string) {
	run := x.run
	l0, _, why := fe.gatedRun(nil)
	if l0 == nil {
		run.Inconclusive("%s: recovery sweep: uninterrupted run: %s", key, why)
		return
	}
	fs, st := fe.Judge(l0)
	x.account(st, key, l0)
	x.report(fe.Env, l0, fs)
	var hsets []int64
	for _, q := range l0.Reqs {
		if q.Kind != fakeredis.ReqQueued && classOfReq(&q) == "frontier-hset" {
			hsets = append(hsets, q.Seq)
		}
	}
	if len(hsets) != 2 {
		run.Inconclusive("%s: recovery sweep: the uninterrupted run flushed %d times (want one flush per batch)", key, len(hsets))
		return
	}
	states := []struct {
		name string
		n    int64
	}{{"journal-only", hsets[0] - 1}, {"frontier+journal", hsets[1] - 1}, {"frontier-only", l0.NReqs}}
	ctxs := fe.C.Ctx(fe.C.Mode, false)
	var wg sync.WaitGroup
	for _, stt := range states {
		state := l0.StateAt(stt.n)
		// the unfaulted start: its request sequence and its answer
		tgt := fe.Factory(fe.targetOptions())
		tgt.Replay(reservedWrites(state))
		out, err := fe.D.Open(tgt, fe.C, fe.C.Mode)
		if err != nil {
			tgt.Close()
			run.Inconclusive("%s: recovery sweep %s: start-up bookkeeping: %v", key, stt.name, err)
			return
		}
		seq0 := tgt.Seq()
		sp0, err := out.StartPoint(context.Background(), fe.IDs)
		nsp := tgt.Seq() - seq0
		tgt.Close()
		if err != nil {
			run.Inconclusive("%s: recovery sweep %s: unfaulted StartPoint: %v", key, stt.name, err)
			return
		}
		run.Count("recovery_requests_enumerated", nsp)
		for k := int64(1); k <= nsp; k++ {
			for _, kind := range []string{"loading", "drop"} {
				k, kind, stt := k, kind, stt
				wg.Add(1)
				go func() {
					defer wg.Done()
					x.sem <- struct{}{}
					defer func() { <-x.sem }()
					x.recoveryFault(fe, key, ctxs, stt.name, stt.n, state, sp0, k, nsp, kind)
				}()
			}
		}
	}
	wg.Wait()
}

func (x *explorer) recoveryFault(fe *fenv, key, ctxs, sname string, cutN int64, state []fakeredis.App, sp0 syncer.StartPoint, k, nsp int64, kind string) {
	run := x.run
	ctx := context.Background()
	ckey := fmt.Sprintf("%s|recovery|%s|request %d of %d/%s", key, sname, k, nsp, kind)
	tgt := fe.Factory(fe.targetOptions())
	defer tgt.Close()
	tgt.Replay(reservedWrites(state))
	l := &RunLog{Depth: 1, StartApps: state, SeqBase: cutN, First: cutN, FloorDone: fe.C.Base, FloorCut: -1, ModeAtCut: fe.C.Mode, BaseMode: fe.C.Mode}
	out, err := fe.D.Open(tgt, fe.C, fe.C.Mode)
	if err != nil {
		run.Inconclusive("%s: start-up bookkeeping: %v", ckey, err)
		return
	}
	seq0 := tgt.Seq()
	var fired atomic.Bool
	var what atomic.Value
	match := func(q *fakeredis.Req) bool {
		if q.Seq == seq0+k && fired.CompareAndSwap(false, true) {
			arg := ""
			if len(q.Args) > 0 {
				arg = " <" + ClassOf(q.Args[0]).String() + ">"
			}
			what.Store(q.Cmd + arg)
			return true
		}
		return false
	}
	if kind == "drop" {
		tgt.SetFault(nil, match)
	} else {
		tgt.SetFault(func(q *fakeredis.Req) (fakeredis.Reply, bool) {
			if match(q) {
				return errReply(kind), true
			}
			return nil, false
		}, nil)
	}
	sp1, err1 := out.StartPoint(ctx, fe.IDs)
	tgt.SetFault(nil, nil)
	if !fired.Load() {
		run.Count("fault_request_not_reached", 1)
		return
	}
	st := Start{Mode: fe.C.Mode, PrevMode: fe.C.Mode, ReqFrom: cutN + 1, Traffic: true}
	sp2, err2 := out.StartPoint(ctx, fe.IDs) // the retry of RedisInput.getOutputStartPoint: same output
	st.SP, st.ReqDone = sp2, cutN+tgt.Seq()
	l.Path = fmt.Sprintf("start-up recovery on a %s state (cut after request %d of the uninterrupted run): request %d of %d of StartPoint (%v) %s, StartPoint called again on the same output",
		sname, cutN, k, nsp, what.Load(), map[string]string{"loading": "answered -LOADING", "drop": "executed, connection closed instead of a reply"}[kind])
	run.Eval(1)
	run.Count("recovery_faults_run", 1)
	run.Distinct(fmt.Sprintf("%s|recovery-fault|%s|%v|%s|first-start-failed=%v", ctxs, sname, what.Load(), kind, err1 != nil))
	wit := func() map[string]any {
		l.capture(tgt)
		return x.faultWitness(fe, l, map[string]any{"unfaulted_start_point": fmt.Sprintf("%+v", sp0), "faulted_start_point": fmt.Sprintf("%+v err=%v", sp1, err1), "retried_start_point": fmt.Sprintf("%+v err=%v", sp2, err2),
			"requests_of_the_starts": reqTail(tgt, seq0)})
	}
	if err1 == nil && (sp1.Offset != sp0.Offset || sp1.RunId != sp0.RunId) {
		run.Violation("fault|start-point-differs-after-tolerated-fault|"+sname+"/"+kind+"|"+ctxs, key, fmt.Sprintf("%s: the faulted StartPoint itself returned %+v, an unfaulted start returns %+v", l.Path, sp1, sp0), wit())
		return
	}
	if err2 != nil {
		run.Violation("fault|retried-start-point-fails|"+sname+"/"+kind+"|"+ctxs, key, fmt.Sprintf("%s: the retry fails too: %v", l.Path, err2), wit())
		return
	}
	if sp2.Offset != sp0.Offset || sp2.RunId != sp0.RunId {
		run.Violation("fault|retried-start-point-differs|"+sname+"/"+kind+"|"+ctxs, key,
			fmt.Sprintf("%s: the retry returns %+v, an unfaulted start on the same state returns %+v", l.Path, sp2, sp0), wit())
		// go on: the consequences (stored frontier overwritten, units repeated) are judged below
	}
	if sp2.Offset != fe.C.Base && fe.EndUnit[sp2.Offset] == nil {
		return
	}
	// replay the rest, let the frontier be stored, stop
	if why := fe.feed(rand.New(rand.NewSource(k)), tgt, out, l, &st, 1, 0, true); why != "" {
		run.Inconclusive("%s: %s", ckey, why)
		return
	}
	l.Starts = []Start{st}
	l.capture(tgt)
	fs, stt := fe.Judge(l)
	x.account(stt, key, l)
	x.report(fe.Env, l, fs)
	cuts := l.Cuts()
	nl, why := fe.Restart(rand.New(rand.NewSource(k+7)), l, cuts[len(cuts)-1], 0, nil, l.Path+" → rest of the stream replayed, stop, fresh instance")
	if nl == nil {
		run.Inconclusive("%s: fresh instance: %s", ckey, why)
		return
	}
	run.Count("restarts", 1)
	fs, stt = fe.Judge(nl)
	x.account(stt, key, nl)
	x.report(fe.Env, nl, fs)
}

func reqTail(tgt Target, from int64) []string {
	var out []string
	for _, q := range tgt.Requests() {
		if q.Seq <= from || q.Cmd == "PING" || len(out) > 60 {
			continue
		}
		arg := ""
		if len(q.Args) > 0 {
			arg = "<" + ClassOf(q.Args[0]).String() + ">"
		}
		rep := ""
		if e, ok := q.Reply.(fakeredis.Err); ok {
			rep = " → -" + string(e)
		}
		out = append(out, fmt.Sprintf("#%d conn%d %s %s%s", q.Seq, q.Conn, q.Cmd, arg, rep))
	}
	return out
}

// FaultSweeps runs both sweeps for o.NCases cases (modes alternate).
func FaultSweeps(run *harness.Run, o FaultOptions) {
	x := &explorer{run: run, o: Options{Driver: o.Driver, Factory: o.Factory}, sem: make(chan struct{}, 24), seenSubs: map[string]bool{}}
	harness.Parallel(o.NCases, o.Workers, func(i int) {
		key := fmt.Sprintf("fault-%d", i)
		if !run.WantCase(key) {
			return
		}
		mode := []config.ReplayMode{config.ReplayModePipeline, config.ReplayModeParallel}[i%2]
		fe := newFaultEnv(run.Rand(key), key, mode, o.Driver, o.Factory)
		run.Seen("modes", string(mode))
		x.flushSweep(fe, key)
		x.recoverySweep(fe, key)
	})
}

// SwitchSweeps runs the format-switch lost-reply sweep (below) for o.NCases cases; the recovery
// format the state is written under rotates over the three replay modes.
func SwitchSweeps(run *harness.Run, o FaultOptions) {
	x := &explorer{run: run, o: Options{Driver: o.Driver, Factory: o.Factory}, sem: make(chan struct{}, 24), seenSubs: map[string]bool{}}
	harness.Parallel(o.NCases, o.Workers, func(i int) {
		key := fmt.Sprintf("switch-fault-%d", i)
		if !run.WantCase(key) {
			return
		}
		mode := []config.ReplayMode{config.ReplayModePipeline, config.ReplayModeSync, config.ReplayModeParallel}[i%3]
		fe := newFaultEnv(run.Rand(key), key, mode, o.Driver, o.Factory)
		x.switchSweep(fe, key, run.Rand(key+"/pick"), o.DelSamples)
	})
}

// switchWrite: is q one of the requests of a start that change the target (the candidates of the
// lost-reply sweep: a lost reply of a read changes nothing the next attempt could trip over)?
func switchWrite(q *fakeredis.Req) bool {
	if q.Kind == fakeredis.ReqQueued {
		return false
	}
	switch q.Cmd {
	case "HSET", "HSETNX", "HMSET", "SET", "ZADD", "DEL", "UNLINK", "HDEL", "ZREM", "EXPIRE", "PEXPIRE", "MULTI", "EXEC", "RESTORE":
		return true
	}
	return false
}

// switchSweep: (3) over the requests of a start under the OTHER recovery format (the replay mode
// was changed between two starts: start-up bookkeeping seeds the other namespace and repoints the
// index) on a cluster of one primary - the cluster client keeps a pool of connections per node,
// so a lost reply costs one connection and the client stays usable for whatever the tool does
// next (clean up, retry).  Lost-reply flavour: the j-th WRITE of the start is executed and its
// connection closed before the reply; the start fails or not as the tool sees fit, the start is
// attempted again (the syncer restarts), and the position that start finds must not be smaller
// than the one an unfaulted switch finds on the same state.  A start on the cluster double costs
// 65 000 requests (16384 slot tags), so only the writes are candidates: every write that is not a
// DEL, the first and the last DEL and a PRNG sample of delSamples in between.
func (x *explorer) switchSweep(fe *fenv, key string, pick *rand.Rand, delSamples int) {
	run := x.run
	ctx := context.Background()
	l0, _, why := fe.gatedRun(nil)
	if l0 == nil {
		run.Inconclusive("%s: switch sweep: uninterrupted run: %s", key, why)
		return
	}
	other := config.ReplayModeSync
	if fe.C.Mode == config.ReplayModeSync {
		other = []config.ReplayMode{config.ReplayModePipeline, config.ReplayModeParallel}[pick.Intn(2)]
	}
	state := l0.StateAt(l0.NReqs)
	open := func(tgt Target) (*syncer.RedisOutput, error) { return fe.D.Open(tgt, fe.C, other) }
	// the unfaulted switch: which writes the start-up bookkeeping issues, and what it finds
	tgt := NewSinglePrimaryCluster(fe.targetOptions())
	tgt.Replay(reservedWrites(state))
	seq0 := tgt.Seq()
	out, err := open(tgt)
	var writes []string // the j-th write of the start (1-based: writes[j-1])
	for _, q := range tgt.Requests() {
		if q.Seq > seq0 && switchWrite(&q) {
			writes = append(writes, q.Cmd)
		}
	}
	if err != nil {
		tgt.Close()
		run.Count("switch_sweeps_refused_by_the_tool", 1)
		return
	}
	sp0, err := out.StartPoint(ctx, fe.IDs)
	tgt.Close()
	if err != nil {
		run.Inconclusive("%s: switch sweep: unfaulted StartPoint: %v", key, err)
		return
	}
	// the position held before the operation: a start under the OLD format on the same state
	tgt = NewSinglePrimaryCluster(fe.targetOptions())
	tgt.Replay(reservedWrites(state))
	var spOld syncer.StartPoint
	outOld, err := fe.D.Open(tgt, fe.C, fe.C.Mode)
	if err == nil {
		spOld, err = outOld.StartPoint(ctx, fe.IDs)
	}
	tgt.Close()
	if err != nil || spOld.RunId != fe.RunID || spOld.Offset < fe.C.Base {
		run.Inconclusive("%s: switch sweep: a start under the old format finds %+v (%v)", key, spOld, err)
		return
	}
	if sp0.RunId != spOld.RunId || sp0.Offset < spOld.Offset {
		run.Violation("mode-switch:"+fmt.Sprintf("%s→%s|cluster-of-one-primary", fe.C.Mode, other)+"|position-regressed|uninterrupted", key,
			fmt.Sprintf("start under replay mode %s on a state written under %s (cluster of one primary): the switched start finds %+v, a start under the old format finds %+v", other, fe.C.Mode, sp0, spOld),
			map[string]any{"case": fe.C.String()})
		return
	}
	run.Count("switch_writes_enumerated", int64(len(writes)))
	var cand, dels []int
	for j, c := range writes {
		if c == "DEL" || c == "UNLINK" {
			dels = append(dels, j+1)
		} else {
			cand = append(cand, j+1)
		}
	}
	if len(dels) > 0 {
		cand = append(cand, dels[0])
		if len(dels) > 1 {
			cand = append(cand, dels[len(dels)-1])
		}
		for n := 0; n < delSamples && len(dels) > 2; n++ {
			cand = append(cand, dels[1+pick.Intn(len(dels)-2)])
		}
	}
	sort.Ints(cand)
	ctxs := fmt.Sprintf("%s→%s|cluster-of-one-primary", fe.C.Mode, other)
	last := 0
	for _, j := range cand {
		if j == last {
			continue
		}
		last = j
		tgt := NewSinglePrimaryCluster(fe.targetOptions())
		tgt.Replay(reservedWrites(state))
		seq0 := tgt.Seq()
		var fired atomic.Bool
		what := ""
		nw := 0 // under the target's lock
		tgt.SetFault(nil, func(q *fakeredis.Req) bool {
			if fired.Load() || !switchWrite(q) {
				return false
			}
			if nw++; nw != j {
				return false
			}
			fired.Store(true)
			what = q.Cmd
			if len(q.Args) > 0 {
				what += " <" + ClassOf(q.Args[0]).String() + ">"
			}
			return true
		})
		_, err1 := open(tgt)
		tgt.SetFault(nil, nil)
		if !fired.Load() {
			tgt.Close()
			run.Count("fault_request_not_reached", 1)
			continue
		}
		out2, err2 := open(tgt) // the restarted syncer
		var sp2 syncer.StartPoint
		var err3 error
		if err2 == nil {
			sp2, err3 = out2.StartPoint(ctx, fe.IDs)
		}
		reqs := switchTail(tgt, seq0)
		tgt.Close()
		if os.Getenv("SWITCH_DEBUG") != "" {
			fmt.Printf("DEBUG %s write %d (%s): first attempt %v | second attempt %v | finds %+v %v | old %+v\n  %s\n", key, j, what, err1, err2, sp2, err3, spOld, strings.Join(reqs, "\n  "))
		}
		run.Eval(1)
		run.Count("switch_faults_run", 1)
		run.Distinct(fmt.Sprintf("%s|switch-fault|%s|drop|first-start-failed=%v", ctxs, what, err1 != nil))
		path := fmt.Sprintf("start under replay mode %s on a state written under %s (cluster of one primary): write %d of %d of the start-up bookkeeping (%s) executed, connection closed instead of a reply; start attempted again", other, fe.C.Mode, j, len(writes), what)
		wit := map[string]any{"case": fe.C.String(), "unfaulted_switch_finds": fmt.Sprintf("%+v", sp0), "first_attempt_error": fmt.Sprint(err1), "second_attempt_error": fmt.Sprint(err2),
			"second_attempt_finds": fmt.Sprintf("%+v err=%v", sp2, err3), "writes_of_both_attempts": reqs}
		switch {
		case err2 != nil || err3 != nil:
			// a start that refuses is fail-safe (counted); it must not refuse for ever, but that is
			// not decided here
			run.Count("switch_second_attempt_refused", 1)
		case sp2.RunId != spOld.RunId || sp2.Offset < spOld.Offset:
			run.Violation("mode-switch:"+ctxs+"|position-lost|reply-lost-then-started-again|"+strings.Fields(what)[0], key,
				fmt.Sprintf("%s: the second attempt finds %+v; before the operation a start under the old format found %+v (an unfaulted switch finds %+v)", path, sp2, spOld, sp0), wit)
			return
		}
	}
}

// switchTail: the writes (and the index reads) since request `from`, for a witness.
func switchTail(tgt Target, from int64) []string {
	var out []string
	refused := map[string]int{}
	for _, q := range tgt.Requests() {
		if q.Seq <= from || !(switchWrite(&q) || q.Cmd == "HGET") {
			continue
		}
		if e, ok := q.Reply.(fakeredis.Err); ok {
			// (the clean-up of a namespace deletes 256 keys of different slots per DEL, which a
			// cluster refuses: counted, not listed)
			refused[q.Cmd+" → -"+strings.Fields(string(e))[0]]++
			continue
		}
		if len(out) > 120 {
			continue
		}
		arg := ""
		if len(q.Args) > 0 {
			arg = "<" + ClassOf(q.Args[0]).String() + ">"
		}
		out = append(out, fmt.Sprintf("#%d conn%d %s %s", q.Seq, q.Conn, q.Cmd, arg))
	}
	for k, n := range refused {
		out = append(out, fmt.Sprintf("(%d × %s)", n, k))
	}
	return out
}
