package bisweep

import (
	"fmt"
	"math/rand"
	"sort"
	"strings"
	"sync"
	"time"

	"verif/internal/fakeredis"
	"verif/internal/harness"

	"github.com/mgtv-tech/redis-GunYu/config"
)

type Options struct {
	Prop     string
	NBase    int // PRNG base runs (the directed cases come on top)
	Depth    int // levels of restarts: 2 = restarts of base-run states and restarts of those restarts' states
	DeepPct  int // percentage of the traffic-phase states of a restarted run that are crashed again
	Workers  int
	Driver   *Driver
	Factory  TargetFactory
	Directed bool // prepend the fixed "stop before the frontier is flushed, start three times" cases
	// clean-stop schedule: NStops runs whose Send context is cancelled at a PRNG-chosen logical
	// instant in mid-traffic, StopLinks of them at a time (load widens the tool's stop window)
	NStops    int
	StopLinks int
}

// directedCases: the smallest scenario of the monotone-restart clause, one per mode.
func directedCases() []Case {
	var out []Case
	for _, m := range []config.ReplayMode{config.ReplayModeSync, config.ReplayModePipeline, config.ReplayModeParallel} {
		out = append(out, Case{Key: "directed-" + string(m), Mode: m, Window: 4, NCmds: 3, PSelect: 0, PTxn: 0.3, PNoise: 0, MaxTxn: 2,
			Frags: 1, Pauses: 0, Pause: 0, Base: 5000})
	}
	// the same in sync mode on a target that also holds a key in DB 3
	out = append(out, Case{Key: "directed-sync-otherdb", Mode: config.ReplayModeSync, Window: 4, NCmds: 3, PTxn: 0.3, MaxTxn: 2, Frags: 1, ForeignDB: 3, Base: 5000})
	return out
}

type explorer struct {
	run *harness.Run
	o   Options
	sem chan struct{}

	mu       sync.Mutex
	sampled  int
	seenSubs map[string]bool
}

// Explore runs the sweep and reports every violated clause.
func Explore(run *harness.Run, o Options) {
	x := &explorer{run: run, o: o, sem: make(chan struct{}, 32), seenSubs: map[string]bool{}}
	var cases []Case
	if o.Directed {
		// first and one after the other, so that their (minimal) witnesses are the ones kept
		for _, c := range directedCases() {
			if run.WantCase(c.Key) {
				x.one(c)
			}
		}
	}
	for i := 0; i < o.NBase; i++ {
		key := fmt.Sprintf("case-%d", i)
		cases = append(cases, GenCase(run.Rand(key+"|cfg"), key))
	}
	harness.Parallel(len(cases), o.Workers, func(i int) {
		c := cases[i]
		if !run.WantCase(c.Key) {
			return
		}
		x.one(c)
	})
	x.stops()
}

// genStopCase: configuration of a clean-stop run: many small units, whole-stream or coarse
// feeding (the parser runs ahead of the sender), small windows, with and without reply delays.
func genStopCase(r *rand.Rand, key string) (Case, StopSpec) {
	c := Case{Key: key}
	c.Mode = []config.ReplayMode{config.ReplayModeSync, config.ReplayModePipeline, config.ReplayModeParallel, config.ReplayModeSync}[r.Intn(4)]
	c.Window = []uint{1, 1, 2, 4}[r.Intn(4)]
	c.NCmds = 16 + r.Intn(24)
	c.PSelect, c.PTxn, c.PNoise = 0.05, 0.12, 0.06
	c.MaxTxn = 1 + r.Intn(3)
	c.Frags = 1
	c.ExecDelay = []time.Duration{0, 0, 0, 200 * time.Microsecond, time.Millisecond}[r.Intn(5)]
	c.Base = int64(1000 + r.Intn(1000000))
	sp := StopSpec{Frags: []int{1, 1, 1, 2, 5}[r.Intn(5)]}
	if r.Intn(3) != 0 {
		sp.AtByte = -1 // resolved against the stream length
	} else {
		sp.AtRequest = -1
	}
	return c, sp
}

// stops runs the clean-stop schedule: stop in mid-traffic, let the target drain, then the normal
// chain of fresh starts on the final state, all judged by the same oracle.
func (x *explorer) stops() {
	run, o := x.run, x.o
	if o.NStops == 0 {
		return
	}
	links := o.StopLinks
	if links < 1 {
		links = 1
	}
	harness.Parallel(o.NStops, links, func(i int) {
		key := fmt.Sprintf("stop-%d", i)
		if !run.WantCase(key) {
			return
		}
		r := run.Rand(key)
		c, spec := genStopCase(r, key)
		e := NewEnv(r, c, o.Driver, o.Factory)
		if spec.AtByte < 0 {
			spec.AtByte = 1 + int64(r.Intn(len(e.Stream.Bytes)-1))
		} else {
			spec.AtRequest = 1 + int64(r.Intn(5*len(e.Units)+4))
		}
		l, why := e.RunStopped(r, spec)
		if l == nil {
			run.Inconclusive("%s: clean-stop run: %s", key, why)
			return
		}
		e.Base = l
		run.Eval(1)
		run.Count("clean_stops", 1)
		run.Seen("modes", string(c.Mode))
		run.Count("target_requests_logged", l.NReqs)
		fs, st := e.Judge(l)
		x.account(st, key, l)
		x.report(e, l, fs)
		run.Count("clean_stop_runs_with_unit_gap_sync", int64(st.StopGapsSync))
		run.Count("clean_stop_runs_with_unit_gap_journal_modes", int64(st.StopGapsFrontier))
		where := "stream-finished-first"
		if !l.Completed {
			run.Count("clean_stops_in_mid_traffic", 1)
			where = "mid-traffic"
		}
		kind := "at-request"
		if spec.AtByte > 0 {
			kind = "at-byte"
		}
		run.Distinct(fmt.Sprintf("%s|clean-stop|%s|%s|delay=%v|gap=%v", c.Ctx(c.Mode, false), kind, where, c.ExecDelay > 0, st.StopGapsSync+st.StopGapsFrontier > 0))
		// the next starts on what the stopped run left
		cuts := l.Cuts()
		cut := cuts[len(cuts)-1]
		path := fmt.Sprintf("clean stop: %s; target drained after request %d", spec, l.NReqs)
		nl, why := e.Restart(r, l, cut, r.Intn(3), nil, path)
		if nl == nil {
			run.Inconclusive("%s: %s: %s", key, path, why)
			return
		}
		run.Eval(1)
		run.Count("restarts", 1)
		fs, st = e.Judge(nl)
		x.account(st, key, nl)
		x.report(e, nl, fs)
	})
}

func (x *explorer) report(e *Env, l *RunLog, fs []Finding) {
	for _, f := range fs {
		w := map[string]any{"config": e.C.String(), "path": l.Path, "depth": l.Depth, "cut_where": l.CutWhere,
			"stop": l.StopSpec, "units": unitDump(e), "stream": streamDump(e), "starts": startDump(l), "requests_of_starts": startReqDump(l), "send_error": fmt.Sprint(l.SendErr), "note": l.Note,
			"state_at_cut_bookkeeping_tail": bookTail(l.StartApps, 24), "run_bookkeeping_head": bookHead(l.Apps, 60)}
		x.run.Violation(f.Sig, e.C.Key, f.What, w)
	}
}

func (x *explorer) account(st Stats, key string, l *RunLog) {
	r := x.run
	r.Count("units_committed", int64(st.UnitsCommitted))
	r.Count("units_committed_by_restarted_instances", int64(st.UnitsResumed))
	r.Count("units_repeated_after_restart", int64(st.UnitsRepeated))
	r.Count("recovery_passes_observed", int64(st.RecoveryPasses))
	r.Count("frontier_saves_observed", int64(st.FrontierSaves))
	r.Count("journal_deletes_observed", int64(st.JournalDeletes))
	r.Count("latest_writes_observed", int64(st.LatestWrites))
	r.Count("tool_starts", int64(st.StartsTotal))
	r.Count("tool_starts_without_traffic", int64(st.StartsNoTraffic))
	r.Count("start_point_refusals", int64(st.Refusals))
	r.Count("tool_starts_with_mode_switch", int64(st.ModeSwitches))
	for _, s := range st.Inconclusive {
		r.Inconclusive("%s: %s: %s", key, l.Path, s)
	}
}

func (x *explorer) one(c Case) {
	run, o := x.run, x.o
	r := run.Rand(c.Key)
	e := NewEnv(r, c, o.Driver, o.Factory)
	base, why := e.RunBase(r)
	if base == nil {
		run.Inconclusive("%s: base run: %s", c.Key, why)
		return
	}
	if !base.Completed {
		run.Inconclusive("%s: base run did not commit the last unit: %v", c.Key, base.SendErr)
		return
	}
	e.Base = base
	run.Eval(1)
	run.Count("base_runs", 1)
	run.Count("target_requests_logged", base.NReqs)
	run.Seen("modes", string(c.Mode))
	fs, st := e.Judge(base)
	x.account(st, c.Key, base)
	x.report(e, base, fs)
	x.explore(e, r, base, 0)
}

func (x *explorer) explore(e *Env, r *rand.Rand, l *RunLog, depth int) {
	run, o := x.run, x.o
	cuts := l.Cuts()
	// the traffic phase of a restarted run starts when its last start's StartPoint has returned
	trafficFrom := int64(-1)
	if depth > 0 && len(l.Starts) > 0 && l.Starts[len(l.Starts)-1].Traffic {
		trafficFrom = l.Starts[len(l.Starts)-1].ReqDone
	}
	var wg sync.WaitGroup
	for ci := range cuts {
		cut := cuts[ci]
		if depth > 0 && trafficFrom >= 0 && cut.N >= trafficFrom && r.Intn(100) >= o.DeepPct {
			continue // restarted runs: recovery / idle states exhaustively, traffic states by PRNG
		}
		if depth > 0 && cut.N == l.First {
			continue // the state this run started from was already restarted
		}
		if depth >= 2 && r.Intn(100) >= 35 {
			continue // third level (thorough tier): a PRNG third of the states
		}
		rr := rand.New(rand.NewSource(r.Int63()))
		idle := 1 + rr.Intn(3)
		if depth > 0 {
			idle = rr.Intn(3)
		}
		wg.Add(1)
		go func(cut Cut, rr *rand.Rand, idle int) {
			defer wg.Done()
			x.sem <- struct{}{}
			path := fmt.Sprintf("%sstop after request %d of %d [%s] (stands for %d request prefixes)", pathPrefix(l), cut.N, l.NReqs, strings.Join(cut.Where, ","), cut.Stands)
			nl, why := e.Restart(rr, l, cut, idle, e.switchPlan(rr, l, cut, idle), path)
			<-x.sem
			if nl == nil {
				run.Inconclusive("%s: %s: %s", e.C.Key, path, why)
				return
			}
			run.Eval(1)
			run.Count("restarts", 1)
			run.Count("distinct_states_restarted", 1)
			run.Count("request_prefixes_covered", int64(cut.Stands))
			run.Count("target_requests_logged", nl.NReqs-nl.SeqBase)
			fs, st := e.Judge(nl)
			x.account(st, e.C.Key, nl)
			x.report(e, nl, fs)
			rep := e.Repeats(nl)
			for _, w := range cut.Where {
				run.Distinct(fmt.Sprintf("%s|%s|depth=%d|cut=%s|repeat=%v", e.C.Ctx(cut.Mode, false), modePath(nl), nl.Depth, w, rep))
				run.Seen("cut_where", w)
			}
			x.subsets(e, rr, nl)
			x.sample(e, nl, cut, rep)
			if depth+1 < o.Depth {
				x.explore(e, rr, nl, depth+1)
			}
		}(cut, rr, idle)
	}
	wg.Wait()
}

// modePath: the modes the starts of a restarted run were configured with, e.g. "pipeline>sync".
func modePath(l *RunLog) string {
	var ms []string
	for _, s := range l.Starts {
		if len(ms) == 0 || ms[len(ms)-1] != string(s.Mode) {
			ms = append(ms, string(s.Mode))
		}
	}
	return "starts=" + strings.Join(ms, ">")
}

// switchPlan: PRNG choice of the replay mode the starts of a restart chain are configured with.
// About one chain in four is started in another mode than the one the namespace was last used
// in (within the recovery family: in-place switch; across families: namespace migration seeded
// from the old namespace's recovery state); the later starts of the chain keep that mode.
// Across families only from states that hold a migration seed (a latest record / a frontier or a
// journal starting at 1): without one the start-up bookkeeping refuses to migrate ("no bisync
// authoritative migration seed found", retried for seconds) — no resume question, and on the
// unchanged tree merely another consequence of recovery destroying the journal (F11).
func (e *Env) switchPlan(r *rand.Rand, l *RunLog, cut Cut, idle int) []config.ReplayMode {
	modes := make([]config.ReplayMode, idle+1)
	if r.Intn(4) != 0 {
		return modes
	}
	var others []config.ReplayMode
	for _, m := range []config.ReplayMode{config.ReplayModeSync, config.ReplayModePipeline, config.ReplayModeParallel} {
		if m != cut.Mode {
			others = append(others, m)
		}
	}
	to := others[r.Intn(len(others))]
	m := fakeredis.New(serverOptions())
	m.Replay(reservedWrites(l.StateAt(cut.N)))
	nsMode, seed := NamespaceSeed(m, e.RunID)
	if nsMode == "" || (config.ReplayMode(nsMode).UsesFrontier() != to.UsesFrontier() && !seed) {
		return modes
	}
	modes[0] = to
	return modes
}

func pathPrefix(l *RunLog) string {
	if l.Path == "" {
		return ""
	}
	return l.Path + " → "
}

// subsets: the pure history check on the journal records surviving in the state run l started
// from: RebuildBisyncFrontier on ALL subsets (n ≤ 10 records) against the definition.
func (x *explorer) subsets(e *Env, r *rand.Rand, l *RunLog) {
	m := fakeredis.New(serverOptions())
	m.Replay(reservedWrites(l.StartApps))
	snap, recs := Surviving(m, e.RunID)
	if len(recs) == 0 {
		return
	}
	if len(recs) > 10 {
		recs = recs[:10]
	}
	key := fmt.Sprint(snap, recs)
	x.mu.Lock()
	dup := x.seenSubs[key]
	x.seenSubs[key] = true
	x.mu.Unlock()
	if dup {
		return
	}
	n, refused := EnumerateSubsets(r, e.RunID, snap, recs, func(o RebuildOutcome) {
		x.run.Violation(o.Sig+"|observed-journal", e.C.Key, o.What, map[string]any{"path": l.Path, "snapshot": fmt.Sprint(snap), "records": fmt.Sprint(recs)})
	})
	x.run.Count("journal_subsets_enumerated_observed", int64(n))
	x.run.Count("journal_subsets_refused_as_gap", int64(refused))
	x.run.Count("observed_journal_states_enumerated", 1)
}

func (x *explorer) sample(e *Env, l *RunLog, cut Cut, rep bool) {
	x.mu.Lock()
	defer x.mu.Unlock()
	if x.sampled >= 4 || len(l.Starts) < 2 {
		return
	}
	x.sampled++
	x.run.Sample(map[string]any{"case": e.C.Key, "config": e.C.String(), "path": l.Path, "starts": startDump(l), "units_in_stream": len(e.Units),
		"repeated_units": rep, "requests_of_run": l.NReqs - l.SeqBase})
}

// SyntheticSubsets: exhaustive subsets of synthetic journals (1..10 records, several snapshot
// positions, windows that start before / at / after the snapshot frontier).
func SyntheticSubsets(run *harness.Run) {
	r := run.Rand("synthetic-subsets")
	runID := SourceRunIDs()[0]
	total, refused, shapes := 0, 0, 0
	for n := 1; n <= 10; n++ {
		for _, sc := range []struct {
			snap *Snap
			lo   int64
		}{
			{nil, 1}, {nil, 2}, {&Snap{0, 1000}, 1}, {&Snap{0, 1000}, 3}, {&Snap{4, 1400}, 5}, {&Snap{4, 1400}, 3}, {&Snap{4, 1400}, 6}, {&Snap{7, 1700}, 1},
		} {
			key := fmt.Sprintf("synthetic-n%d-lo%d", n, sc.lo)
			if !run.WantCase(key) {
				continue
			}
			recs := make([]Rec, n)
			for i := range recs {
				seq := sc.lo + int64(i)
				recs[i] = Rec{Seq: seq, End: 1000 + 100*seq}
			}
			shapes++
			k, rf := EnumerateSubsets(r, runID, sc.snap, recs, func(o RebuildOutcome) {
				run.Violation(o.Sig+"|synthetic", key, o.What, map[string]any{"snapshot": fmt.Sprint(sc.snap), "records": fmt.Sprint(recs)})
			})
			total += k
			refused += rf
		}
	}
	if shapes == 0 {
		return
	}
	run.Eval(shapes)
	run.Count("journal_subsets_enumerated_synthetic", int64(total))
	run.Count("journal_subsets_refused_as_gap", int64(refused))
	run.Distinct("rebuild-subsets|synthetic|n<=10|exhaustive")
}

func unitDump(e *Env) []string {
	var out []string
	for _, u := range e.Units {
		out = append(out, fmt.Sprintf("unit %d ends %d group=%v ids=%v", u.Idx, u.End, u.Group, u.IDs))
	}
	return out
}

func streamDump(e *Env) []string {
	var out []string
	for i := range e.Stream.Cmds {
		c := e.Stream.Cmds[i]
		out = append(out, fmt.Sprintf("abs_end=%d %s", e.C.Base+c.End, c.String()))
	}
	return out
}

func startDump(l *RunLog) []string {
	var out []string
	for i, s := range l.Starts {
		kind := "no traffic"
		switch {
		case s.Initial:
			kind = "initial (full sync of an empty snapshot, then the stream)"
		case s.Traffic:
			kind = "then Send over the rest of the stream"
		case s.IdleSend:
			kind = "then Send on an idle source, stopped"
		}
		out = append(out, fmt.Sprintf("start %d: requests %d..%d StartPoint=%+v err=%v; %s", i+1, s.ReqFrom, s.ReqDone, s.SP, s.Err, kind))
	}
	return out
}

// startReqDump lists the target requests of each (non-initial) start: bookkeeping + StartPoint.
func startReqDump(l *RunLog) []string {
	var out []string
	for i, s := range l.Starts {
		if s.Initial {
			continue
		}
		for _, q := range l.Reqs {
			if q.Seq < s.ReqFrom || q.Seq > s.ReqDone || q.Cmd == "PING" {
				continue
			}
			arg := ""
			if len(q.Args) > 0 {
				arg = string(q.Args[0])
				if c := ClassOf(q.Args[0]); c != KBusiness && c != KHash {
					arg = "<" + c.String() + ">"
					if c == KCommit {
						arg += string(q.Args[0][len(q.Args[0])-4:])
					}
				}
			}
			out = append(out, fmt.Sprintf("start %d #%d conn%d db%d %s %s", i+1, q.Seq, q.Conn, q.DB, q.Cmd, arg))
		}
		if len(out) > 120 {
			break
		}
	}
	return out
}

func bookOps(apps []fakeredis.App) []string {
	var out []string
	for i := range apps {
		a := &apps[i]
		if !a.Write || a.IsErr || len(a.Args) == 0 {
			continue
		}
		c := ClassOf(a.Args[0])
		switch c {
		case KBusiness:
			continue
		case KMarker:
			continue
		}
		s := fmt.Sprintf("#%d %s %s", a.ReqSeq, a.Cmd, c)
		if a.Txn != 0 {
			s += fmt.Sprintf(" (txn %d)", a.Txn)
		}
		f := hfields(a.Args)
		var ks []string
		for _, k := range []string{"unit_seq", "end_offset"} {
			if v, ok := f[k]; ok {
				ks = append(ks, k+"="+v)
			}
		}
		for k, v := range f {
			if strings.HasSuffix(k, "_offset") && k != "end_offset" && k != "start_offset" {
				ks = append(ks, "root_offset="+v)
			}
		}
		sort.Strings(ks)
		if len(ks) == 0 && c != KRoot && c != KHash {
			k := string(a.Args[0])
			if i := strings.LastIndex(k, ":"); i >= 0 {
				ks = append(ks, "key=…"+k[i:])
			}
		}
		out = append(out, s+" "+strings.Join(ks, " "))
	}
	return out
}

func bookTail(apps []fakeredis.App, n int) []string {
	o := bookOps(apps)
	if len(o) > n {
		o = o[len(o)-n:]
	}
	return o
}

func bookHead(apps []fakeredis.App, n int) []string {
	o := bookOps(apps)
	if len(o) > n {
		o = o[:n]
	}
	return o
}

var _ = time.Second
