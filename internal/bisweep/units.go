package bisweep

import (
	"encoding/json"
	"fmt"
	"strconv"
	"strings"

	"verif/internal/drive"
	"verif/internal/fakeredis"
	"verif/internal/gen"

	"github.com/mgtv-tech/redis-GunYu/config"
)

// Unit is one replay unit of the source stream as the generator numbers it: one stand-alone
// source write, or one source MULTI/EXEC group holding at least one write.  (Read off
// syncer/bisync.go parseAofReplayUnits: SELECT, PING, filtered/administrative commands,
// sentinel hellos and empty transactions form no unit; they only move the byte offset.)
type Unit struct {
	Idx   int   // 1-based: the unit sequence number a run that starts at the stream start assigns
	End   int64 // absolute source offset just past the unit (the EXEC for a group)
	IDs   []string
	Group bool
}

// UnitsOf derives the unit table from a generated stream fed at absolute offset base.
func UnitsOf(s *gen.Stream, base int64) []Unit {
	var out []Unit
	var cur *Unit
	for i := range s.Cmds {
		c := &s.Cmds[i]
		switch c.Kind {
		case gen.KMulti:
			cur = &Unit{Group: true}
		case gen.KExec:
			if cur != nil && len(cur.IDs) > 0 {
				cur.End = base + c.End
				cur.Idx = len(out) + 1
				out = append(out, *cur)
			}
			cur = nil
		case gen.KWrite:
			if cur != nil {
				cur.IDs = append(cur.IDs, c.ID)
			} else {
				out = append(out, Unit{Idx: len(out) + 1, End: base + c.End, IDs: []string{c.ID}})
			}
		}
	}
	return out
}

// Key classes of the bisync bookkeeping namespace.
type KeyClass int

const (
	KBusiness KeyClass = iota
	KMarker
	KLatest
	KCommit
	KIndex
	KRdbRec
	KFrontier
	KHash // redis-gunyu-checkpoint-hash
	KRoot // the namespace root hash <cp> (mode fields + <runid>_offset ...)
	KOtherReserved
)

func (k KeyClass) String() string {
	return [...]string{"business", "marker", "latest", "commit", "index", "rdbrec", "frontier", "cphash", "root", "reserved"}[k]
}

const bisyncPrefix = "redis-gunyu-bisync:"

// ClassOf classifies a key by its name alone.
func ClassOf(key []byte) KeyClass {
	k := string(key)
	switch {
	case strings.HasPrefix(k, bisyncPrefix):
		switch {
		case strings.Contains(k, ":marker:{"):
			return KMarker
		case strings.Contains(k, ":latest:{"):
			return KLatest
		case strings.Contains(k, ":commit:{"):
			return KCommit
		case strings.Contains(k, ":index:{"):
			return KIndex
		case strings.Contains(k, ":rdb:{"):
			return KRdbRec
		}
		return KOtherReserved
	case k == config.CheckpointKeyHashKey:
		return KHash
	case strings.HasPrefix(k, config.CheckpointKey) && strings.HasSuffix(k, ":frontier"):
		return KFrontier
	case strings.HasPrefix(k, config.CheckpointKey):
		return KRoot
	case drive.Reserved(key):
		return KOtherReserved
	}
	return KBusiness
}

func hfields(args [][]byte) map[string]string {
	m := map[string]string{}
	for i := 1; i+1 < len(args); i += 2 {
		m[string(args[i])] = string(args[i+1])
	}
	return m
}

func atoi64(s string) int64 {
	v, err := strconv.ParseInt(s, 10, 64)
	if err != nil {
		return -999
	}
	return v
}

// TUnit is one target transaction that carries (parts of) a replay unit.
type TUnit struct {
	Txn    int64 // the EXEC's request number
	Marker bool
	MSeq   int64 // marker unit_seq / end_offset
	MEnd   int64
	IDs    []string // business ids, in order
	NBiz   int
	RecKey string
	RecCls KeyClass // KLatest or KCommit (0 = no record)
	Seq    int64    // record unit_seq
	Start  int64
	End    int64 // record end_offset
	Index  bool  // ZADD index member = RecKey, score = Seq
	Unit   *Unit // generator unit it carries (matched by ids / end offset), nil if none
	Bad    string
}

// Complete: business commands of exactly one generator unit + the record (+ index for journal
// records) in one transaction.
func (t *TUnit) Complete() bool { return t.Bad == "" && t.Unit != nil }

// FrontierWrite / LatestWrite / RootWrite are stored resume-state writes seen in a log.
type PosWrite struct {
	ReqSeq int64
	Cls    KeyClass
	Seq    int64
	Off    int64
	Txn    int64
}

// Stray is a write that breaks atomic visibility: business data or a unit record outside any
// unit transaction.
type Stray struct {
	ReqSeq int64
	What   string
}

// View is the interpretation of an effect log.
type View struct {
	TUnits   []*TUnit
	Frontier []PosWrite // HSET <cp>:frontier
	Latest   []PosWrite // HSET latest:{tag}
	Root     []PosWrite // HSET <cp> <runid>_offset
	Seeds    []PosWrite // latest records seeded by a namespace migration (outside any unit)
	Deletes  []int64    // request numbers of journal DEL / ZREM
	Strays   []Stray
}

// Interpret parses an effect log (lineage order) against the unit table.  Which record kind a
// unit must carry depends on the mode of the instance that wrote it: Judge checks that.
func Interpret(apps []fakeredis.App, units []Unit, runID string) *View {
	v := &View{}
	byID := map[string]*Unit{}
	for i := range units {
		for _, id := range units[i].IDs {
			byID[id] = &units[i]
		}
	}
	var cur *TUnit
	flush := func() {
		if cur == nil {
			return
		}
		t := cur
		cur = nil
		// match to a generator unit
		if len(t.IDs) > 0 {
			u := byID[t.IDs[0]]
			t.Unit = u
			if u == nil {
				t.Bad = "business id " + t.IDs[0] + " belongs to no unit"
			} else if strings.Join(t.IDs, ",") != strings.Join(u.IDs, ",") || t.NBiz != len(u.IDs) {
				t.Bad = fmt.Sprintf("transaction holds business commands %v, unit %d is %v", t.IDs, u.Idx, u.IDs)
			}
		}
		switch {
		case t.Bad != "":
		case t.NBiz == 0 && t.RecCls == 0 && !t.Index:
			// a marker-only or foreign transaction: nothing of a unit became visible
			if !t.Marker {
				return
			}
			t.Bad = "marker without business commands and record"
		case t.NBiz == 0:
			t.Bad = "unit record without business commands"
		case t.RecCls == 0:
			t.Bad = "business commands without a unit record in the same transaction"
		case t.RecCls == KCommit && !t.Index:
			t.Bad = "journal record without its index entry in the same transaction"
		case t.Unit != nil && t.End != t.Unit.End:
			t.Bad = fmt.Sprintf("record end_offset %d, unit %d ends at %d", t.End, t.Unit.Idx, t.Unit.End)
		}
		v.TUnits = append(v.TUnits, t)
	}
	for i := range apps {
		a := &apps[i]
		if !a.Write || a.IsErr {
			continue
		}
		if cur != nil && a.Txn != cur.Txn { // members of one EXEC are contiguous in the effect log
			flush()
		}
		var cls KeyClass
		if len(a.Args) > 0 {
			cls = ClassOf(a.Args[0])
		}
		if a.Txn == 0 {
			switch cls {
			case KBusiness:
				if id := gen.FindID(a.Args); id != "" {
					v.Strays = append(v.Strays, Stray{a.ReqSeq, "business command " + id + " executed outside a unit transaction"})
				}
			case KLatest, KCommit, KMarker:
				f := hfields(a.Args)
				switch {
				case a.Cmd == "DEL" || a.Cmd == "UNLINK":
					if cls == KCommit {
						v.Deletes = append(v.Deletes, a.ReqSeq)
					}
				case cls == KLatest && a.Cmd == "HSET" && f["start_offset"] == f["end_offset"] && f["digest"] == "":
					// the seed a namespace migration writes (syncer.seedBisyncNamespace): no unit, no data
					v.Seeds = append(v.Seeds, PosWrite{ReqSeq: a.ReqSeq, Cls: cls, Seq: atoi64(f["unit_seq"]), Off: atoi64(f["end_offset"])})
					v.Latest = append(v.Latest, PosWrite{ReqSeq: a.ReqSeq, Cls: cls, Seq: atoi64(f["unit_seq"]), Off: atoi64(f["end_offset"])})
				default:
					v.Strays = append(v.Strays, Stray{a.ReqSeq, a.Cmd + " on a " + cls.String() + " key outside a unit transaction"})
				}
			case KIndex:
				if a.Cmd == "ZREM" {
					v.Deletes = append(v.Deletes, a.ReqSeq)
				} else if a.Cmd != "DEL" && a.Cmd != "UNLINK" && a.Cmd != "ZREMRANGEBYSCORE" {
					v.Strays = append(v.Strays, Stray{a.ReqSeq, a.Cmd + " on the journal index outside a unit transaction"})
				}
			case KFrontier:
				if a.Cmd == "HSET" || a.Cmd == "HMSET" {
					f := hfields(a.Args)
					v.Frontier = append(v.Frontier, PosWrite{ReqSeq: a.ReqSeq, Cls: cls, Seq: atoi64(f["unit_seq"]), Off: atoi64(f["end_offset"])})
				}
			case KRoot:
				if a.Cmd == "HSET" || a.Cmd == "HMSET" {
					if o, ok := hfields(a.Args)[runID+"_offset"]; ok {
						v.Root = append(v.Root, PosWrite{ReqSeq: a.ReqSeq, Cls: cls, Off: atoi64(o)})
					}
				}
			}
			continue
		}
		if cur == nil {
			cur = &TUnit{Txn: a.Txn}
		}
		switch cls {
		case KBusiness:
			if id := gen.FindID(a.Args); id != "" {
				cur.IDs = append(cur.IDs, id)
			}
			cur.NBiz++
		case KMarker:
			cur.Marker = true
			if len(a.Args) > 1 {
				var m struct {
					UnitSeq   int64 `json:"unit_seq"`
					EndOffset int64 `json:"end_offset"`
				}
				if json.Unmarshal(a.Args[1], &m) == nil {
					cur.MSeq, cur.MEnd = m.UnitSeq, m.EndOffset
				}
			}
		case KLatest, KCommit:
			if a.Cmd == "HSET" || a.Cmd == "HMSET" {
				f := hfields(a.Args)
				cur.RecKey, cur.RecCls = string(a.Args[0]), cls
				cur.Seq, cur.Start, cur.End = atoi64(f["unit_seq"]), atoi64(f["start_offset"]), atoi64(f["end_offset"])
				if cls == KLatest {
					v.Latest = append(v.Latest, PosWrite{ReqSeq: a.ReqSeq, Cls: cls, Seq: cur.Seq, Off: cur.End, Txn: a.Txn})
				}
			}
		case KIndex:
			if a.Cmd == "ZADD" && len(a.Args) >= 3 && string(a.Args[len(a.Args)-1]) == cur.RecKey && atoi64(string(a.Args[len(a.Args)-2])) == cur.Seq {
				cur.Index = true
			}
		case KFrontier:
			f := hfields(a.Args)
			v.Frontier = append(v.Frontier, PosWrite{ReqSeq: a.ReqSeq, Cls: cls, Seq: atoi64(f["unit_seq"]), Off: atoi64(f["end_offset"]), Txn: a.Txn})
		}
	}
	flush()
	return v
}

// Committed returns, per generator unit index, how many complete transactions carried it up
// to and including request n (n < 0: whole log).
func (v *View) Committed(n int64) map[int]int {
	m := map[int]int{}
	for _, t := range v.TUnits {
		if t.Complete() && (n < 0 || t.Txn <= n) {
			m[t.Unit.Idx]++
		}
	}
	return m
}
