package bisweep

import (
	"fmt"
	"math/rand"
	"strings"
	"sync"
	"testing"
	"time"

	"verif/internal/fakeredis"
	"verif/internal/gen"

	"github.com/mgtv-tech/redis-GunYu/config"
	"github.com/mgtv-tech/redis-GunYu/syncer"
)

const tCp = "redis-gunyu-checkpoint-bisync:abc"
const tTag = "slot-59e4"

func keyOf(kind string, seq int64) string {
	k := fmt.Sprintf("redis-gunyu-bisync:%s:%s:{%s}", tCp, kind, tTag)
	if kind == "commit" {
		k += fmt.Sprintf(":%020d", seq)
	}
	return k
}

func bs(ss ...string) [][]byte {
	out := make([][]byte, len(ss))
	for i, s := range ss {
		out[i] = []byte(s)
	}
	return out
}

// logBuilder fabricates effect/request logs the way the double would record them.
type logBuilder struct {
	seq  int64
	apps []fakeredis.App
	reqs []fakeredis.Req
}

func (b *logBuilder) direct(cmd string, args ...string) int64 {
	b.seq++
	b.reqs = append(b.reqs, fakeredis.Req{Seq: b.seq, Conn: 1, Cmd: cmd, Args: bs(args...), Kind: fakeredis.ReqDirect})
	b.apps = append(b.apps, fakeredis.App{Idx: len(b.apps), ReqSeq: b.seq, QueuedSeq: b.seq, Conn: 1, Cmd: cmd, Args: bs(args...), Write: true})
	return b.seq
}

func (b *logBuilder) read(cmd string, args ...string) {
	b.seq++
	b.reqs = append(b.reqs, fakeredis.Req{Seq: b.seq, Conn: 1, Cmd: cmd, Args: bs(args...), Kind: fakeredis.ReqDirect})
}

func (b *logBuilder) txn(cmds ...[]string) int64 {
	b.seq++
	b.reqs = append(b.reqs, fakeredis.Req{Seq: b.seq, Conn: 2, Cmd: "MULTI", Kind: fakeredis.ReqMulti})
	first := b.seq
	for _, c := range cmds {
		b.seq++
		b.reqs = append(b.reqs, fakeredis.Req{Seq: b.seq, Conn: 2, Cmd: c[0], Args: bs(c[1:]...), Kind: fakeredis.ReqQueued})
	}
	b.seq++
	b.reqs = append(b.reqs, fakeredis.Req{Seq: b.seq, Conn: 2, Cmd: "EXEC", Kind: fakeredis.ReqExec})
	for i, c := range cmds {
		b.apps = append(b.apps, fakeredis.App{Idx: len(b.apps), ReqSeq: b.seq, QueuedSeq: first + 1 + int64(i), Conn: 2, Cmd: c[0], Args: bs(c[1:]...), Txn: b.seq, Pos: i, Write: true})
	}
	return b.seq
}

func marker(seq, end int64) []string {
	return []string{"SET", keyOf("marker", 0), fmt.Sprintf(`{"version":"1","run_id":"r","unit_seq":%d,"start_offset":0,"end_offset":%d}`, seq, end), "px", "86400000"}
}

func record(kind string, seq, end int64) []string {
	return []string{"HSET", keyOf(kind, seq), "version", "1", "run_id", "r", "unit_seq", fmt.Sprint(seq), "start_offset", "0", "end_offset", fmt.Sprint(end), "slot", "0", "mtime", "77"}
}

func index(seq int64) []string {
	return []string{"ZADD", keyOf("index", 0), fmt.Sprint(seq), keyOf("commit", seq)}
}

func biz(id string) []string { return []string{"SET", "k1", id + "v"} }

func (b *logBuilder) unit(frontier bool, u Unit) int64 {
	cmds := [][]string{marker(int64(u.Idx), u.End)}
	for _, id := range u.IDs {
		cmds = append(cmds, biz(id))
	}
	if frontier {
		cmds = append(cmds, record("commit", int64(u.Idx), u.End), index(int64(u.Idx)))
	} else {
		cmds = append(cmds, record("latest", int64(u.Idx), u.End))
	}
	return b.txn(cmds...)
}

func (b *logBuilder) frontier(seq, off int64) int64 {
	return b.direct("HSET", tCp+":frontier", "version", "1", "run_id", "r", "unit_seq", fmt.Sprint(seq), "end_offset", fmt.Sprint(off), "mtime", "9")
}

func threeUnits() []Unit {
	return []Unit{{Idx: 1, End: 1100, IDs: []string{"~h.1~"}}, {Idx: 2, End: 1200, IDs: []string{"~h.2~", "~h.3~"}, Group: true}, {Idx: 3, End: 1300, IDs: []string{"~h.4~"}}}
}

func testEnv(mode config.ReplayMode) *Env {
	e := &Env{C: Case{Key: "t", Mode: mode, Base: 1000}, RunID: "r", IDs: []string{"r", "0"}, Units: threeUnits(), EndUnit: map[int64]*Unit{}}
	for i := range e.Units {
		e.EndUnit[e.Units[i].End] = &e.Units[i]
	}
	e.Last = &e.Units[2]
	return e
}

func TestUnitsOf(t *testing.T) {
	for seed := int64(1); seed < 40; seed++ {
		r := rand.New(rand.NewSource(seed))
		s := gen.GenStream(r, gen.StreamOptions{Hist: "u", NCmds: 40, MaxDB: 2, PSelect: 0.15, PTxn: 0.25, PNoise: 0.2, MaxTxnLen: 3, StartDB: -1})
		s.AppendSentinel(0)
		us := UnitsOf(s, 500)
		var ids, want []string
		last := int64(0)
		for i, u := range us {
			if u.Idx != i+1 || u.End <= last || len(u.IDs) == 0 {
				t.Fatalf("seed %d: bad unit %+v", seed, u)
			}
			last = u.End
			ids = append(ids, u.IDs...)
		}
		for i := range s.Cmds {
			c := &s.Cmds[i]
			if c.Kind == gen.KWrite {
				want = append(want, c.ID)
			}
			if c.Kind == gen.KExec || (c.Kind == gen.KWrite && c.Group < 0) {
				// a unit ends here iff it is a stand-alone write or a non-empty group
				isEnd := false
				for _, u := range us {
					isEnd = isEnd || u.End == 500+c.End
				}
				nonEmpty := c.Kind == gen.KWrite || (i > 0 && s.Cmds[i-1].Kind == gen.KWrite)
				if isEnd != nonEmpty {
					t.Fatalf("seed %d: command %s: unit end %v, want %v", seed, c, isEnd, nonEmpty)
				}
			}
		}
		if strings.Join(ids, ",") != strings.Join(want, ",") {
			t.Fatalf("seed %d: unit ids %v, writes %v", seed, ids, want)
		}
	}
}

func TestInterpret(t *testing.T) {
	us := threeUnits()
	// journal mode: two good units, a frontier save, cleanup
	b := &logBuilder{}
	x1 := b.unit(true, us[0])
	x2 := b.unit(true, us[1])
	f := b.frontier(2, 1200)
	b.direct("DEL", keyOf("commit", 1))
	b.direct("ZREM", keyOf("index", 0), keyOf("commit", 1))
	v := Interpret(b.apps, us, "r")
	if len(v.TUnits) != 2 || !v.TUnits[0].Complete() || !v.TUnits[1].Complete() || v.TUnits[1].Unit.Idx != 2 || v.TUnits[0].Txn != x1 {
		t.Fatalf("units: %+v", v.TUnits)
	}
	if len(v.Frontier) != 1 || v.Frontier[0].ReqSeq != f || v.Frontier[0].Seq != 2 || v.Frontier[0].Off != 1200 || len(v.Deletes) != 2 || len(v.Strays) != 0 {
		t.Fatalf("frontier %+v deletes %v strays %v", v.Frontier, v.Deletes, v.Strays)
	}
	if c := v.Committed(x1); c[1] != 1 || c[2] != 0 {
		t.Fatalf("committed at %d: %v", x1, c)
	}
	if c := v.Committed(x2); c[2] != 1 {
		t.Fatalf("committed at %d: %v", x2, c)
	}
	// broken shapes
	for name, tc := range map[string]struct {
		cmds [][]string
		want string
	}{
		"no-record": {[][]string{marker(1, 1100), biz("~h.1~")}, "data-without-record"},
		"no-index":  {[][]string{marker(1, 1100), biz("~h.1~"), record("commit", 1, 1100)}, "journal-record-without-index"},
		"half-unit": {[][]string{marker(2, 1200), biz("~h.2~"), record("commit", 2, 1200), index(2)}, "unit-split-or-merged"},
		"wrong-end": {[][]string{marker(1, 1100), biz("~h.1~"), record("commit", 1, 1090), index(1)}, "record-offset-mismatch"},
		"rec-only":  {[][]string{marker(1, 1100), record("commit", 1, 1100), index(1)}, "record-without-data"},
	} {
		b := &logBuilder{}
		b.txn(tc.cmds...)
		v := Interpret(b.apps, us, "r")
		if len(v.TUnits) != 1 || v.TUnits[0].Complete() || badClass(v.TUnits[0].Bad) != tc.want {
			t.Fatalf("%s: %+v", name, v.TUnits[0])
		}
	}
	// record / business command outside a transaction
	b = &logBuilder{}
	b.direct("SET", "k1", "~h.1~v")
	b.direct("HSET", record("latest", 1, 1100)[1:]...)
	v = Interpret(b.apps, us, "r")
	if len(v.Strays) != 2 {
		t.Fatalf("strays %v", v.Strays)
	}
}

func sigs(fs []Finding) string {
	var s []string
	for _, f := range fs {
		s = append(s, f.Sig)
	}
	return strings.Join(s, " ; ")
}

func TestJudge(t *testing.T) {
	us := threeUnits()
	// pipeline: units 1,2 committed; start 1 resumes at 1200, start 2 at 1000 (the stream start)
	b := &logBuilder{}
	b.unit(true, us[0])
	b.unit(true, us[1])
	state := append([]fakeredis.App{}, b.apps...)
	cut := b.seq
	b.apps, b.reqs = nil, nil
	b.read("HGETALL", tCp+":frontier")
	pm := config.ReplayModePipeline
	s1 := Start{Mode: pm, PrevMode: pm, ReqFrom: cut + 1, ReqDone: b.seq, SP: syncer.StartPoint{RunId: "r", Offset: 1200}}
	b.read("HGETALL", tCp+":frontier")
	s2 := Start{Mode: pm, PrevMode: pm, ReqFrom: s1.ReqDone + 1, ReqDone: b.seq, SP: syncer.StartPoint{RunId: "r", Offset: 1000}}
	e := testEnv(config.ReplayModePipeline)
	l := &RunLog{Depth: 1, StartApps: state, SeqBase: cut, First: cut, Apps: b.apps, Reqs: b.reqs, NReqs: b.seq, Starts: []Start{s1, s2}, FloorDone: 1000, FloorCut: -1, ModeAtCut: pm}
	fs, st := e.Judge(l)
	if sigs(fs) != "monotone|resume-point-decreased|after-completed-start|mode=pipeline" || st.StartsTotal != 2 {
		t.Fatalf("got %q %+v", sigs(fs), st)
	}
	// the same two answers are fine the other way round
	l.Starts[0].SP.Offset, l.Starts[1].SP.Offset = 1000, 1200
	if fs, _ := e.Judge(l); len(fs) != 0 {
		t.Fatalf("got %q", sigs(fs))
	}
	// skip: resume beyond what is committed; not a boundary
	l.Starts = []Start{{Mode: pm, PrevMode: pm, ReqFrom: cut + 1, ReqDone: cut + 1, SP: syncer.StartPoint{RunId: "r", Offset: 1300}}, {Mode: pm, PrevMode: pm, ReqFrom: cut + 2, ReqDone: cut + 2, SP: syncer.StartPoint{RunId: "r", Offset: 1301}}}
	if fs, _ := e.Judge(l); sigs(fs) != "resume|skips-uncommitted-unit|mode=pipeline ; resume|not-a-unit-boundary|mode=pipeline" {
		t.Fatalf("got %q", sigs(fs))
	}
	// sync mode: exactly the last committed unit
	b = &logBuilder{}
	b.unit(false, us[0])
	b.unit(false, us[1])
	es := testEnv(config.ReplayModeSync)
	sm := config.ReplayModeSync
	ls := &RunLog{Depth: 1, StartApps: b.apps, SeqBase: b.seq, First: b.seq, NReqs: b.seq + 1, FloorDone: 1000, FloorCut: -1, ModeAtCut: sm,
		Starts: []Start{{Mode: sm, PrevMode: sm, ReqFrom: b.seq + 1, ReqDone: b.seq + 1, SP: syncer.StartPoint{RunId: "r", Offset: 1100}}}}
	if fs, _ := es.Judge(ls); sigs(fs) != "resume|sync-mode-repeats-committed-units|mode=sync" {
		t.Fatalf("got %q", sigs(fs))
	}
	ls.Starts[0].SP.Offset = 1200
	if fs, _ := es.Judge(ls); len(fs) != 0 {
		t.Fatalf("got %q", sigs(fs))
	}
	// a frontier that passes an uncommitted unit, then decreases
	b = &logBuilder{}
	b.unit(true, us[0])
	b.frontier(2, 1200)
	b.frontier(1, 1100)
	lf := &RunLog{Apps: b.apps, Reqs: b.reqs, NReqs: b.seq, FloorDone: -1, FloorCut: -1, ModeAtCut: pm}
	if fs, _ := e.Judge(lf); sigs(fs) != "frontier|passes-uncommitted-unit|mode=pipeline ; frontier|seq-offset-mismatch|mode=pipeline ; monotone|stored-frontier-decreased|mode=pipeline" {
		t.Fatalf("got %q", sigs(fs))
	}
	// a journal-mode instance writing latest records; a migration seed is no stray record
	b = &logBuilder{}
	b.unit(false, us[0])
	b.direct("HSET", keyOf("latest", 0), "version", "1", "run_id", "r", "syncer_id", "", "unit_seq", "1", "start_offset", "1100", "end_offset", "1100", "slot", "0", "digest", "", "mtime", "5")
	lk := &RunLog{Apps: b.apps, Reqs: b.reqs, NReqs: b.seq, FloorDone: -1, FloorCut: -1, ModeAtCut: pm}
	if fs, _ := e.Judge(lk); sigs(fs) != "atomic|unit-transaction-incomplete|wrong-record-kind|mode=pipeline" {
		t.Fatalf("got %q", sigs(fs))
	}
}

func TestCuts(t *testing.T) {
	us := threeUnits()
	b := &logBuilder{}
	b.direct("HSET", tCp, "r_offset", "1000")
	first := b.seq
	b.unit(true, us[0]) // 5 prefixes in-unit, state changes at the EXEC
	b.unit(true, us[1]) // 6
	b.frontier(2, 1200) // frontier save
	b.direct("DEL", keyOf("commit", 1))
	b.direct("DEL", keyOf("commit", 2))
	b.direct("ZREM", keyOf("index", 0), keyOf("commit", 1), keyOf("commit", 2))
	b.read("PING")
	l := &RunLog{Apps: b.apps, Reqs: b.reqs, NReqs: b.seq, First: first, FloorDone: -1, FloorCut: -1,
		Starts: []Start{{Mode: config.ReplayModePipeline, ReqFrom: 1, ReqDone: first, Initial: true, Traffic: true, SP: syncer.StartPoint{RunId: "r", Offset: 1000}}}}
	cuts := l.Cuts()
	if len(cuts) != 7 {
		t.Fatalf("%d cuts: %+v", len(cuts), cuts)
	}
	total := 0
	for _, c := range cuts {
		total += c.Stands
		if c.FloorDone != 1000 {
			t.Fatalf("floor %+v", c)
		}
	}
	if total != int(b.seq-first)+1 {
		t.Fatalf("prefixes %d, want %d", total, b.seq-first+1)
	}
	w := func(i int) string { return strings.Join(cuts[i].Where, ",") }
	if w(0) != "between-units,in-unit" || w(3) != "between-frontier-save-and-journal-delete" || w(5) != "between-frontier-save-and-journal-delete" || w(6) != "between-units" {
		t.Fatalf("where: %q %q %q %q", w(0), w(3), w(5), w(6))
	}
}

func TestRebuildAgainstDefinition(t *testing.T) {
	r := rand.New(rand.NewSource(7))
	recs := []Rec{{1, 1100}, {2, 1200}, {3, 1300}, {5, 1500}, {6, 1600}}
	if seq, off, ok := RefFrontier(nil, recs); !ok || seq != 3 || off != 1300 {
		t.Fatal(seq, off, ok)
	}
	if seq, off, ok := RefFrontier(&Snap{4, 1400}, recs); !ok || seq != 6 || off != 1600 {
		t.Fatal(seq, off, ok)
	}
	if _, _, ok := RefFrontier(nil, recs[1:]); ok {
		t.Fatal("no snapshot, journal starts at 2")
	}
	n, refused := 0, 0
	for _, snap := range []*Snap{nil, {0, 1000}, {2, 1200}, {4, 1400}} {
		k, rf := EnumerateSubsets(r, "r", snap, recs, func(o RebuildOutcome) { t.Errorf("snapshot %v: %s: %s", snap, o.Sig, o.What) })
		n += k
		refused += rf
	}
	if n != 4*32 || refused == 0 {
		t.Fatal(n, refused)
	}
}

func TestCfgGate(t *testing.T) {
	var g cfgGate
	var mu sync.Mutex
	installed, inside, maxInside := "", map[string]int{}, 0
	var wg sync.WaitGroup
	for i := 0; i < 200; i++ {
		key := fmt.Sprintf("k%d", i%5)
		wg.Add(1)
		go func() {
			defer wg.Done()
			g.acquire(key, func() {
				mu.Lock()
				defer mu.Unlock()
				for k, n := range inside {
					if n > 0 {
						t.Errorf("configuration %s installed while %d holders of %s are inside", key, n, k)
					}
				}
				installed = key
			})
			mu.Lock()
			if installed != key {
				t.Errorf("holder of %s runs under configuration %s", key, installed)
			}
			inside[key]++
			if inside[key] > maxInside {
				maxInside = inside[key]
			}
			mu.Unlock()
			time.Sleep(time.Millisecond)
			mu.Lock()
			inside[key]--
			mu.Unlock()
			g.release()
		}()
	}
	wg.Wait()
	if maxInside < 2 {
		t.Errorf("holders of one configuration never overlapped (max %d)", maxInside)
	}
}
