package bisweep

import (
	"fmt"
	"strings"
)

// Finding is one violated clause of C14.
type Finding struct {
	Sig  string
	What string
}

// Stats is what the oracle observed in one run (evidence counters).
type Stats struct {
	UnitsCommitted   int // unit transactions of this run
	UnitsResumed     int // ... committed by a restarted instance
	UnitsRepeated    int // ... that had been committed before in the lineage
	RecoveryPasses   int // starts whose StartPoint deleted journal records
	FrontierSaves    int
	JournalDeletes   int
	LatestWrites     int
	StartsNoTraffic  int
	StartsTotal      int
	ModeSwitches     int // starts configured with another mode than the previous start
	StopGapsSync     int // stopped runs that committed a unit beyond one they never committed (sync mode)
	StopGapsFrontier int // the same in pipeline/parallel mode (journal gap: frontier stays before it)
	Refusals         int
	Inconclusive     []string
}

func badClass(b string) string {
	switch {
	case strings.Contains(b, "belongs to no unit"):
		return "unknown-business-command"
	case strings.Contains(b, "holds business commands"):
		return "unit-split-or-merged"
	case strings.Contains(b, "marker without"):
		return "marker-only"
	case strings.Contains(b, "record without business"):
		return "record-without-data"
	case strings.Contains(b, "without a unit record"):
		return "data-without-record"
	case strings.Contains(b, "without its index"):
		return "journal-record-without-index"
	case strings.Contains(b, "carries a"):
		return "wrong-record-kind"
	case strings.Contains(b, "end_offset"):
		return "record-offset-mismatch"
	}
	return "other"
}

// Judge evaluates every clause of C14 on run l (the ancestors of l were judged when they ran;
// only events of l itself are reported, but they are judged against the whole lineage).
func (e *Env) Judge(l *RunLog) ([]Finding, Stats) {
	var fs []Finding
	var st Stats
	ctx := ""
	add := func(sig, format string, a ...any) {
		fs = append(fs, Finding{sig + "|" + ctx, fmt.Sprintf(format, a...)})
	}
	// at: findings about request req carry the mode of the instance that issued it
	at := func(req int64) { ctx = e.C.Ctx(l.modeAt(req), l.switchedAt(req, e.C.Mode)) }
	v := Interpret(l.Lineage(), e.Units, e.RunID)
	own := func(req int64) bool { return req > l.SeqBase }
	base := e.C.Base
	isBoundary := func(off int64) bool { return off == base || e.EndUnit[off] != nil }
	// uncommittedUpTo: first unit with End ≤ off that no complete transaction carried by request n
	uncommittedUpTo := func(off, n int64) *Unit {
		c := v.Committed(n)
		for i := range e.Units {
			if e.Units[i].End <= off && c[e.Units[i].Idx] == 0 {
				return &e.Units[i]
			}
		}
		return nil
	}

	// ---- atomic visibility: a unit's data and its record appear in the same target transaction
	for _, s := range v.Strays {
		if own(s.ReqSeq) {
			at(s.ReqSeq)
			kind := "record-outside-unit-transaction"
			if strings.HasPrefix(s.What, "business") {
				kind = "business-command-outside-unit-transaction"
			}
			add("atomic|"+kind, "request %d: %s", s.ReqSeq, s.What)
		}
	}
	for _, t := range v.TUnits {
		if !own(t.Txn) {
			continue
		}
		at(t.Txn)
		if t.Bad != "" {
			add("atomic|unit-transaction-incomplete|"+badClass(t.Bad), "target transaction ending at request %d: %s", t.Txn, t.Bad)
		} else if fm := l.modeAt(t.Txn).UsesFrontier(); (fm && t.RecCls != KCommit) || (!fm && t.RecCls != KLatest) {
			add("atomic|unit-transaction-incomplete|wrong-record-kind", "target transaction ending at request %d: %s mode unit carries a %s record", t.Txn, l.modeAt(t.Txn), t.RecCls)
		}
	}

	// ---- stored frontier: never passes a gap, never decreases
	var prevF *PosWrite
	for i := range v.Frontier {
		f := &v.Frontier[i]
		if own(f.ReqSeq) {
			at(f.ReqSeq)
			st.FrontierSaves++
			switch {
			case f.Txn != 0:
				// a frontier written inside a unit transaction is no C14 matter
			case !isBoundary(f.Off):
				add("frontier|not-a-unit-boundary", "request %d stored frontier seq=%d offset=%d which ends no replay unit (stream starts at %d)", f.ReqSeq, f.Seq, f.Off, base)
			default:
				if u := uncommittedUpTo(f.Off, f.ReqSeq); u != nil {
					add("frontier|passes-uncommitted-unit", "request %d stored frontier seq=%d offset=%d although unit %d (ends %d, ids %v) is not committed at that moment", f.ReqSeq, f.Seq, f.Off, u.Idx, u.End, u.IDs)
				} else {
					seqs := map[int64]bool{}
					for _, t := range v.TUnits {
						if t.Complete() && t.Txn <= f.ReqSeq {
							seqs[t.Seq] = true
						}
					}
					for k := int64(1); k <= f.Seq; k++ {
						if !seqs[k] {
							add("frontier|passes-missing-seq", "request %d stored frontier seq=%d although no unit with sequence number %d was ever committed", f.ReqSeq, f.Seq, k)
							break
						}
					}
				}
			}
			if f.Txn == 0 && f.Seq != 0 {
				// internally consistent: (seq, offset) is the pair of ONE committed unit record
				match := false
				for _, t := range v.TUnits {
					match = match || (t.Complete() && t.Txn <= f.ReqSeq && t.Seq == f.Seq && t.End == f.Off)
				}
				if !match {
					add("frontier|seq-offset-mismatch", "request %d stored frontier seq=%d offset=%d: no committed unit record carries that pair", f.ReqSeq, f.Seq, f.Off)
				}
			}
			if prevF != nil && (f.Off < prevF.Off || f.Seq < prevF.Seq) {
				add("monotone|stored-frontier-decreased", "request %d stored frontier (seq %d, offset %d) after (seq %d, offset %d) stored by request %d", f.ReqSeq, f.Seq, f.Off, prevF.Seq, prevF.Off, prevF.ReqSeq)
			}
		}
		prevF = f
	}
	var prevL *PosWrite
	for i := range v.Latest {
		w := &v.Latest[i]
		if own(w.ReqSeq) {
			at(w.ReqSeq)
			st.LatestWrites++
			if prevL != nil && w.Off < prevL.Off {
				add("monotone|stored-latest-decreased", "request %d stored latest offset %d after %d (request %d)", w.ReqSeq, w.Off, prevL.Off, prevL.ReqSeq)
			}
		}
		prevL = w
	}
	for _, d := range v.Deletes {
		if own(d) {
			st.JournalDeletes++
		}
	}

	// ---- every start: the resume offset
	floorDone, floorCut := l.FloorDone, l.FloorCut
	for i := range l.Starts {
		s := &l.Starts[i]
		if s.Initial {
			if s.SP.Offset > floorDone {
				floorDone = s.SP.Offset
			}
			continue
		}
		ctx = e.C.Ctx(s.Mode, l.switchedAt(s.ReqFrom, e.C.Mode))
		st.StartsTotal++
		if s.Mode != s.PrevMode {
			st.ModeSwitches++
		}
		if !s.Traffic {
			st.StartsNoTraffic++
		}
		for _, d := range v.Deletes {
			if d >= s.ReqFrom && d <= s.ReqDone {
				st.RecoveryPasses++
				break
			}
		}
		where := fmt.Sprintf("start %d of the run (requests %d..%d)", i+1, s.ReqFrom, s.ReqDone)
		if s.Err != nil {
			if strings.Contains(s.Err.Error(), "journal gap") {
				st.Refusals++
				add("restart|start-point-refused|journal-gap", "%s: StartPoint fails with %q — the instance cannot resume from the state the previous (stopped or interrupted) instance left", where, s.Err.Error())
			} else if strings.Contains(s.Err.Error(), "no bisync authoritative migration seed found") {
				// only provoked from states with committed units (switchPlan): the namespace has lost its recovery state
				st.Refusals++
				add("restart|migration-refused|no-recovery-state", "%s: start-up fails with %q although units are committed in this namespace", where, s.Err.Error())
			} else {
				st.Inconclusive = append(st.Inconclusive, fmt.Sprintf("%s: %v", where, s.Err))
			}
			continue
		}
		R := s.SP.Offset
		committed := v.Committed(s.ReqDone)
		maxEnd, nCommitted := base, 0
		for i := range e.Units {
			if committed[e.Units[i].Idx] > 0 {
				nCommitted++
				if e.Units[i].End > maxEnd {
					maxEnd = e.Units[i].End
				}
			}
		}
		floor, floorWhy := floorDone, "an earlier start had already returned"
		if floorCut > floor {
			floor, floorWhy = floorCut, "the start-up that was interrupted inside its own recovery requests was resuming from"
		}
		switch {
		case !e.knownRunID(s.SP.RunId) || R < 0:
			add("resume|position-lost", "%s returned %+v (= full resynchronisation) although %d units are committed and resume state is stored", where, s.SP, nCommitted)
			continue
		case !isBoundary(R):
			add("resume|not-a-unit-boundary", "%s: resume offset %d ends no replay unit (stream starts at %d)", where, R, base)
		default:
			if u := uncommittedUpTo(R, s.ReqDone); u != nil {
				add("resume|skips-uncommitted-unit", "%s: resume offset %d covers unit %d (ends %d, ids %v) which the target never committed", where, R, u.Idx, u.End, u.IDs)
			} else if !s.Mode.UsesFrontier() && R != maxEnd {
				add("resume|sync-mode-repeats-committed-units", "%s: resume offset %d but the last committed unit ends at %d: %d committed units would be applied a second time", where, R, maxEnd, countBetween(e.Units, committed, R))
			}
		}
		if R < floor {
			kind := "after-completed-start"
			if floorCut > floorDone {
				kind = "after-interrupted-recovery"
			}
			add("monotone|resume-point-decreased|"+kind, "%s: resume offset %d, but %s %d and no stored progress was removed by anything but start-up recovery itself", where, R, floorWhy, floor)
		}
		if R > floorDone {
			floorDone = R
		}
		floorCut = -1 // a start has completed: from here on its own promise is what counts
	}

	// ---- what the runs committed
	for i := range l.Starts {
		s := &l.Starts[i]
		if !s.Traffic || s.Err != nil {
			continue
		}
		ctx = e.C.Ctx(s.Mode, l.switchedAt(s.ReqFrom, e.C.Mode))
		var got []*TUnit
		for _, t := range v.TUnits {
			if own(t.Txn) && t.Txn > s.ReqDone && t.Complete() {
				got = append(got, t)
			}
		}
		st.UnitsCommitted += len(got)
		if !s.Initial {
			st.UnitsResumed += len(got)
		}
		if !isBoundary(s.SP.Offset) {
			continue
		}
		before := v.Committed(s.ReqDone)
		var want []*Unit
		for i := range e.Units {
			if e.Units[i].End > s.SP.Offset {
				want = append(want, &e.Units[i])
			}
		}
		seen := map[int]bool{}
		for k, t := range got {
			if before[t.Unit.Idx] > 0 {
				st.UnitsRepeated++
				if !s.Mode.UsesFrontier() {
					add("resumed-run|sync-mode-unit-applied-twice", "resumed from %d: unit %d (ids %v) committed again by request %d although it was committed before the restart", s.SP.Offset, t.Unit.Idx, t.Unit.IDs, t.Txn)
					break
				}
			}
			if seen[t.Unit.Idx] {
				add("resumed-run|unit-applied-twice-in-one-run", "run from %d committed unit %d twice", s.SP.Offset, t.Unit.Idx)
				break
			}
			seen[t.Unit.Idx] = true
			if k >= len(want) || want[k].Idx != t.Unit.Idx {
				exp := "nothing"
				if k < len(want) {
					exp = fmt.Sprintf("unit %d", want[k].Idx)
				}
				switch {
				case l.Stopped && s.Mode.UsesFrontier():
					// the journal's sequence gap keeps the frontier before the unit that was passed
					// over; whether anything is skipped for good is judged on the next start
					st.StopGapsFrontier++
				case l.Stopped:
					st.StopGapsSync++
					add("stop|unit-skipped-by-stopped-run", "%s: the stopped run committed unit %d (request %d) although %s was never committed — the next start resumes after it", l.StopSpec, t.Unit.Idx, t.Txn, exp)
				default:
					add("resumed-run|skips-or-reorders-units", "run from %d: position %d committed unit %d, expected %s", s.SP.Offset, k, t.Unit.Idx, exp)
				}
				break
			}
		}
		if !l.Stopped && l.Completed && l.SendErr != nil && strings.Contains(l.SendErr.Error(), "context canceled") && len(got) < len(want) {
			add("resumed-run|units-lost", "run from %d reached the last unit but committed only %d of %d units", s.SP.Offset, len(got), len(want))
		}
	}
	return fs, st
}

func countBetween(units []Unit, committed map[int]int, r int64) int {
	n := 0
	for i := range units {
		if units[i].End > r && committed[units[i].Idx] > 0 {
			n++
		}
	}
	return n
}

// Repeats reports whether the traffic start of l re-committed a unit committed before it.
func (e *Env) Repeats(l *RunLog) bool {
	v := Interpret(l.Lineage(), e.Units, e.RunID)
	for i := range l.Starts {
		s := &l.Starts[i]
		if !s.Traffic || s.Initial {
			continue
		}
		before := v.Committed(s.ReqDone)
		for _, t := range v.TUnits {
			if t.Txn > s.ReqDone && t.Complete() && before[t.Unit.Idx] > 0 {
				return true
			}
		}
	}
	return false
}

func (e *Env) knownRunID(id string) bool {
	if id == e.RunID {
		return true
	}
	for _, a := range e.AltRunIDs {
		if a == id {
			return true
		}
	}
	return false
}
