package bisweep

import (
	"errors"
	"fmt"
	"math/rand"
	"sort"
	"strings"

	"verif/internal/fakeredis"

	"github.com/mgtv-tech/redis-GunYu/config"
	"github.com/mgtv-tech/redis-GunYu/pkg/redis/checkpoint"
)

// Rec is one journal record as the history check sees it.
type Rec struct {
	Seq int64
	End int64
}

// Snap is a stored frontier (nil = none).
type Snap struct {
	Seq int64
	Off int64
}

// RefFrontier is the obvious definition: the longest gap-free run of sequence numbers that
// starts right after the snapshot frontier (after 0 when there is none).  ok=false: nothing is
// known at all (no snapshot and the run is empty).
func RefFrontier(snap *Snap, recs []Rec) (seq, off int64, ok bool) {
	if snap != nil {
		seq, off, ok = snap.Seq, snap.Off, true
	}
	by := map[int64]Rec{}
	for _, r := range recs {
		by[r.Seq] = r
	}
	for {
		r, has := by[seq+1]
		if !has {
			return
		}
		seq, off, ok = r.Seq, r.End, true
	}
}

// RebuildOutcome classifies one call of the real RebuildBisyncFrontier against RefFrontier.
type RebuildOutcome struct {
	Sig     string // "" = agrees
	What    string
	Refused bool // the function returned ErrBisyncJournalGap where the definition says "no progress"
}

// CheckRebuild calls checkpoint.RebuildBisyncFrontier(snapshot, records) on the given subset
// (records handed over in `order`) and compares with the definition.
func CheckRebuild(runID string, snap *Snap, subset []Rec) RebuildOutcome {
	var s *checkpoint.BisyncFrontierSnapshot
	if snap != nil {
		s = &checkpoint.BisyncFrontierSnapshot{Version: "1", RunID: runID, UnitSeq: snap.Seq, Offset: snap.Off, MTime: 5}
	}
	recs := make([]*checkpoint.BisyncCommitRecord, 0, len(subset))
	for _, r := range subset {
		recs = append(recs, &checkpoint.BisyncCommitRecord{Key: fmt.Sprintf("commit:%d", r.Seq), RecordType: "commit", Version: "1", RunID: runID,
			UnitSeq: r.Seq, StartOffset: r.End - 7, EndOffset: r.End, MTime: 10 + r.Seq})
	}
	got, err := checkpoint.RebuildBisyncFrontier(s, recs)
	wSeq, wOff, wOK := RefFrontier(snap, subset)
	desc := func() string {
		var sq []string
		for _, r := range subset {
			sq = append(sq, fmt.Sprint(r.Seq))
		}
		sn := "none"
		if snap != nil {
			sn = fmt.Sprintf("(seq %d, offset %d)", snap.Seq, snap.Off)
		}
		return fmt.Sprintf("snapshot %s, surviving record seqs [%s]", sn, strings.Join(sq, " "))
	}
	if err != nil {
		advanced := wOK && (snap == nil || wSeq > snap.Seq)
		if errors.Is(err, checkpoint.ErrBisyncJournalGap) && !advanced {
			return RebuildOutcome{Refused: true}
		}
		return RebuildOutcome{Sig: "rebuild|error-although-a-prefix-exists", What: fmt.Sprintf("%s: error %v, definition gives seq %d offset %d", desc(), err, wSeq, wOff)}
	}
	if got == nil {
		if wOK {
			return RebuildOutcome{Sig: "rebuild|stops-early", What: fmt.Sprintf("%s: returned no frontier, definition gives seq %d offset %d", desc(), wSeq, wOff)}
		}
		return RebuildOutcome{}
	}
	if !wOK {
		if got.UnitSeq == 0 {
			return RebuildOutcome{}
		}
		return RebuildOutcome{Sig: "rebuild|passes-gap", What: fmt.Sprintf("%s: returned seq %d offset %d, definition gives nothing", desc(), got.UnitSeq, got.Offset)}
	}
	switch {
	case got.UnitSeq > wSeq:
		return RebuildOutcome{Sig: "rebuild|passes-gap", What: fmt.Sprintf("%s: returned seq %d offset %d, the gap-free prefix ends at seq %d offset %d", desc(), got.UnitSeq, got.Offset, wSeq, wOff)}
	case got.UnitSeq < wSeq:
		return RebuildOutcome{Sig: "rebuild|stops-early", What: fmt.Sprintf("%s: returned seq %d offset %d, the gap-free prefix ends at seq %d offset %d", desc(), got.UnitSeq, got.Offset, wSeq, wOff)}
	case got.Offset != wOff:
		return RebuildOutcome{Sig: "rebuild|wrong-offset", What: fmt.Sprintf("%s: returned seq %d with offset %d, that unit ends at %d", desc(), got.UnitSeq, got.Offset, wOff)}
	}
	return RebuildOutcome{}
}

// EnumerateSubsets runs CheckRebuild on ALL subsets of recs (len ≤ 10 enforced by the caller),
// each handed over in a PRNG-shuffled order.  report is called for every disagreement.
func EnumerateSubsets(r *rand.Rand, runID string, snap *Snap, recs []Rec, report func(RebuildOutcome)) (subsets, refused int) {
	n := len(recs)
	for mask := 0; mask < 1<<n; mask++ {
		var sub []Rec
		for i := 0; i < n; i++ {
			if mask&(1<<i) != 0 {
				sub = append(sub, recs[i])
			}
		}
		r.Shuffle(len(sub), func(i, j int) { sub[i], sub[j] = sub[j], sub[i] })
		o := CheckRebuild(runID, snap, sub)
		subsets++
		if o.Refused {
			refused++
		}
		if o.Sig != "" {
			report(o)
		}
	}
	return
}

// Surviving extracts the stored frontier and the surviving journal records (those reachable
// through the index, as recovery finds them) from a bookkeeping state.
func Surviving(m *fakeredis.Server, runID string) (snap *Snap, recs []Rec) {
	m.With(func(dbs []fakeredis.DB) {
		db := dbs[0]
		// the namespace the checkpoint hash points at (a migration may have left an older one behind)
		ns := ""
		if h := db[config.CheckpointKeyHashKey]; h != nil && h.Kind == fakeredis.KHash {
			ns = string(h.Hash[runID])
		}
		if ns == "" {
			return
		}
		for k, o := range db {
			if !strings.Contains(k, ns) {
				continue
			}
			switch ClassOf([]byte(k)) {
			case KFrontier:
				if o.Kind == fakeredis.KHash && len(o.Hash) > 0 {
					snap = &Snap{Seq: atoi64(string(o.Hash["unit_seq"])), Off: atoi64(string(o.Hash["end_offset"]))}
				}
			case KIndex:
				if o.Kind != fakeredis.KZSet {
					continue
				}
				for member := range o.ZSet {
					if rec := db[member]; rec != nil && rec.Kind == fakeredis.KHash && len(rec.Hash) > 0 {
						recs = append(recs, Rec{Seq: atoi64(string(rec.Hash["unit_seq"])), End: atoi64(string(rec.Hash["end_offset"]))})
					}
				}
			}
		}
	})
	sort.Slice(recs, func(i, j int) bool { return recs[i].Seq < recs[j].Seq })
	return
}

// NamespaceSeed reads, from a bookkeeping state, the mode recorded for the namespace the
// checkpoint hash points at and whether that namespace holds what a migration to the other
// recovery family is seeded from (sync: a latest record; pipeline/parallel: a frontier, or a
// journal that starts at sequence number 1).
func NamespaceSeed(m *fakeredis.Server, runID string) (mode string, seed bool) {
	m.With(func(dbs []fakeredis.DB) {
		db := dbs[0]
		ns := ""
		if h := db[config.CheckpointKeyHashKey]; h != nil && h.Kind == fakeredis.KHash {
			ns = string(h.Hash[runID])
		}
		if root := db[ns]; ns != "" && root != nil && root.Kind == fakeredis.KHash {
			mode = string(root.Hash["bisync_mode"])
		}
		if mode == "sync" {
			for k, o := range db {
				if strings.Contains(k, ns) && ClassOf([]byte(k)) == KLatest && o.Kind == fakeredis.KHash && len(o.Hash) > 0 {
					seed = true
				}
			}
		}
	})
	if mode == "pipeline" || mode == "parallel" {
		snap, recs := Surviving(m, runID)
		seq, _, ok := RefFrontier(snap, recs)
		seed = ok && seq > 0
	}
	return
}
