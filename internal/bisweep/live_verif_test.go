//go:build verif

package bisweep

import (
	"fmt"
	"math/rand"
	"testing"

	"verif/internal/drive"
	"verif/internal/harness"

	"github.com/mgtv-tech/redis-GunYu/config"
	"github.com/mgtv-tech/redis-GunYu/syncer"
)

// TestLive drives the real tool through one small base run per mode and restarts it on every
// distinct state (engine sanity only: verdicts are the check's business).
func TestLive(t *testing.T) {
	drive.Quiet()
	d := NewDriver(syncer.VerifNewOutput)
	defer d.Close()
	for _, m := range []config.ReplayMode{config.ReplayModeSync, config.ReplayModePipeline, config.ReplayModeParallel} {
		c := Case{Key: "live" + string(m), Mode: m, Window: 2, NCmds: 8, PSelect: 0.1, PTxn: 0.3, PNoise: 0.1, MaxTxn: 2, Frags: 3, Base: 4000}
		r := rand.New(rand.NewSource(11))
		e := NewEnv(r, c, d, NewStandalone)
		base, why := e.RunBase(r)
		if base == nil || !base.Completed {
			t.Fatalf("%s: base run: %s %+v", m, why, base)
		}
		_, st := e.Judge(base)
		if st.UnitsCommitted != len(e.Units) {
			t.Fatalf("%s: %d units committed, stream has %d", m, st.UnitsCommitted, len(e.Units))
		}
		cuts := base.Cuts()
		if len(cuts) < len(e.Units)+1 {
			t.Fatalf("%s: %d distinct states for %d units", m, len(cuts), len(e.Units))
		}
		for ci, cut := range cuts {
			var modes []config.ReplayMode
			if ci == len(cuts)-1 { // everything committed: the first start also migrates the namespace
				modes = []config.ReplayMode{config.ReplayModeSync}
				if m == config.ReplayModeSync {
					modes[0] = config.ReplayModeParallel
				}
			}
			l, why := e.Restart(r, base, cut, 1, modes, "live")
			if l == nil {
				t.Fatalf("%s: restart after request %d: %s", m, cut.N, why)
			}
			if len(l.Starts) != 2 || l.Starts[0].Err != nil {
				t.Fatalf("%s: restart after request %d: starts %+v", m, cut.N, l.Starts)
			}
			if _, st := e.Judge(l); len(st.Inconclusive) != 0 {
				t.Fatalf("%s: %v", m, st.Inconclusive)
			}
		}
	}
	// clean stop in mid-traffic, then a fresh start
	for i, spec := range []StopSpec{{AtByte: 200, Frags: 1}, {AtRequest: 12, Frags: 1}} {
		c := Case{Key: fmt.Sprintf("livestop%d", i), Mode: config.ReplayModeSync, Window: 1, NCmds: 20, PTxn: 0.1, MaxTxn: 2, Frags: 1, Base: 7000}
		r := rand.New(rand.NewSource(5))
		e := NewEnv(r, c, d, NewStandalone)
		l, why := e.RunStopped(r, spec)
		if l == nil || !l.Stopped {
			t.Fatalf("clean stop %v: %s", spec, why)
		}
		cuts := l.Cuts()
		nl, why := e.Restart(r, l, cuts[len(cuts)-1], 1, nil, "livestop")
		if nl == nil || !nl.Completed {
			t.Fatalf("restart after clean stop %v: %s %+v", spec, why, nl)
		}
	}
	// one cluster scenario of each kind
	run := harness.New("C14", "fault_enumeration", "live test")
	outOfOrderStop(run, d, "cluster-ooo-live", 0)
	outOfOrderStop(run, d, "cluster-ooo-live-gap", 3)
	inProcessRestart(run, d, "cluster-inproc-live", 0)
	syncResync(run, d, "cluster-syncresync-live", 0)
	if run.Counter("cluster_out_of_order_stops") != 2 || run.Counter("cluster_gap_closed_last") != 1 || run.Counter("cluster_in_process_restarts") != 1 || run.Counter("cluster_sync_resyncs") != 1 {
		t.Fatalf("cluster scenarios did not run to their stop/failure: %d %d %d %d", run.Counter("cluster_out_of_order_stops"), run.Counter("cluster_gap_closed_last"), run.Counter("cluster_in_process_restarts"), run.Counter("cluster_sync_resyncs"))
	}
	// the fault sweeps on one case
	FaultSweeps(run, FaultOptions{NCases: 1, Workers: 1, Driver: d, Factory: NewStandalone})
	if run.Counter("flush_faults_run") < 10 || run.Counter("recovery_faults_run") < 30 {
		t.Fatalf("fault sweeps ran %d flush and %d recovery faults", run.Counter("flush_faults_run"), run.Counter("recovery_faults_run"))
	}
	// restart after a source fail-over, one case per mode
	FailoverRestarts(run, FailoverOptions{NCases: 3, Workers: 3, Driver: d, Factory: NewStandalone})
	if run.Counter("failover_restarts") < 6 {
		t.Fatalf("fail-over restarts: %d", run.Counter("failover_restarts"))
	}
}
