package bisweep

import (
	"fmt"
	"sort"
	"strings"

	"verif/internal/drive"
	"verif/internal/fakeredis"

	"github.com/mgtv-tech/redis-GunYu/config"
)

// StateSig is the canonical content of the bookkeeping namespace (all databases) plus the
// number of business writes applied: everything a restarted tool instance can observe of the
// history.  Modification-time fields and key expiry are left out (they differ between two
// otherwise equal requests and steer no decision on a standalone target, which has one slot).
func StateSig(m *fakeredis.Server, nBiz int) string {
	var parts []string
	m.With(func(dbs []fakeredis.DB) {
		for di, db := range dbs {
			for k, o := range db {
				if !drive.Reserved([]byte(k)) {
					continue
				}
				var sb strings.Builder
				fmt.Fprintf(&sb, "%d|%s|%s|", di, k, o.Kind)
				switch o.Kind {
				case fakeredis.KHash:
					fs := make([]string, 0, len(o.Hash))
					for f, v := range o.Hash {
						if strings.HasSuffix(f, "mtime") {
							continue
						}
						fs = append(fs, f+"="+string(v))
					}
					sort.Strings(fs)
					sb.WriteString(strings.Join(fs, ","))
				case fakeredis.KZSet:
					fs := make([]string, 0, len(o.ZSet))
					for f, v := range o.ZSet {
						fs = append(fs, fmt.Sprintf("%s=%g", f, v))
					}
					sort.Strings(fs)
					sb.WriteString(strings.Join(fs, ","))
				case fakeredis.KString:
					sb.Write(o.Str)
				default:
					fmt.Fprintf(&sb, "%v", o)
				}
				parts = append(parts, sb.String())
			}
		}
	})
	sort.Strings(parts)
	return fmt.Sprint(nBiz, parts)
}

func isBiz(a *fakeredis.App) bool {
	return a.Write && !a.IsErr && (len(a.Args) == 0 || !drive.Reserved(a.Args[0]))
}

// Cuts returns the crash points of a run: EVERY request prefix n with First ≤ n ≤ NReqs is a
// crash point; a restarted instance can only observe the target state, so prefixes are grouped by
// the state they leave (StateSig) and one representative (the first) per maximal stretch of
// equal state is returned with the number of prefixes it stands for, where the stretch's
// prefixes fall (Where), and the monotonicity floors that hold at the representative.
func (l *RunLog) Cuts() []Cut {
	m := fakeredis.New(serverOptions())
	m.Replay(reservedWrites(l.StartApps))
	nBiz := 0
	for i := range l.StartApps {
		if isBiz(&l.StartApps[i]) {
			nBiz++
		}
	}
	// requests of this run by number
	idx := 0
	for idx < len(l.Apps) && l.Apps[idx].ReqSeq <= l.First {
		a := &l.Apps[idx]
		if isBiz(a) {
			nBiz++
		} else if a.Write && !a.IsErr {
			m.Replay(l.Apps[idx : idx+1])
		}
		idx++
	}
	var cuts []Cut
	last := "\x00"
	cls := newClassifier(l)
	for n := l.First; n <= l.NReqs; n++ {
		changed := n == l.First
		for idx < len(l.Apps) && l.Apps[idx].ReqSeq <= n {
			a := &l.Apps[idx]
			if isBiz(a) {
				nBiz++
				changed = true
			} else if a.Write && !a.IsErr {
				m.Replay(l.Apps[idx : idx+1])
				changed = true
			}
			idx++
		}
		if changed {
			if s := StateSig(m, nBiz); s != last {
				last = s
				fd, fc := l.floorsAt(n)
				cuts = append(cuts, Cut{N: n, FloorDone: fd, FloorCut: fc, Mode: l.modeAt(n), Switched: l.switchedAt(n, l.baseMode())})
			}
		}
		c := &cuts[len(cuts)-1]
		c.Stands++
		w := cls.where(n)
		dup := false
		for _, x := range c.Where {
			dup = dup || x == w
		}
		if !dup {
			c.Where = append(c.Where, w)
		}
	}
	return cuts
}

// floorsAt: what earlier starts of the lineage promise about a start made from the state after
// request n of this run.
func (l *RunLog) floorsAt(n int64) (done, cut int64) {
	done, cut = l.FloorDone, -1
	anyDone := false
	for i := range l.Starts {
		s := &l.Starts[i]
		if s.Err != nil || s.SP.Offset < 0 {
			continue
		}
		switch {
		case s.ReqDone <= n:
			anyDone = true
			if s.SP.Offset > done {
				done = s.SP.Offset
			}
		case s.ReqFrom <= n && !s.Initial:
			// n falls inside this start's own bookkeeping / recovery requests
			cut = s.SP.Offset
		}
	}
	if !anyDone && l.Depth > 0 && l.FloorCut > cut {
		// no start of this run has completed yet: the promise pending at the parent's cut stands
		cut = l.FloorCut
	}
	return
}

// modeAt: the mode of the instance whose requests request n belongs to.
func (l *RunLog) modeAt(n int64) config.ReplayMode {
	m := l.ModeAtCut
	for i := range l.Starts {
		if l.Starts[i].ReqFrom <= n || l.Starts[i].Initial {
			m = l.Starts[i].Mode
		}
	}
	return m
}

// baseMode: the mode of the lineage's base run.
func (l *RunLog) baseMode() config.ReplayMode {
	if l.Depth == 0 && len(l.Starts) > 0 {
		return l.Starts[0].Mode
	}
	return l.BaseMode
}

// switchedAt: has any start of the lineage whose requests begin at or before n used another mode
// than the base run?
func (l *RunLog) switchedAt(n int64, base config.ReplayMode) bool {
	sw := l.Switched
	for i := range l.Starts {
		if l.Starts[i].ReqFrom <= n && l.Starts[i].Mode != base {
			sw = true
		}
	}
	return sw
}

// classifier tells where a request prefix falls.
type classifier struct {
	l        *RunLog
	openAt   []int32 // per request index: number of open MULTI blocks after it
	flushEnd map[int64]int64
	delReq   map[int64]bool
	firstSeq int64
}

func isJournalDelete(q *fakeredis.Req) bool {
	if len(q.Args) == 0 || q.Kind != fakeredis.ReqDirect {
		return false
	}
	c := ClassOf(q.Args[0])
	return ((q.Cmd == "DEL" || q.Cmd == "UNLINK") && c == KCommit) || (q.Cmd == "ZREM" && c == KIndex)
}

func newClassifier(l *RunLog) *classifier {
	c := &classifier{l: l, flushEnd: map[int64]int64{}, delReq: map[int64]bool{}}
	if len(l.Reqs) > 0 {
		c.firstSeq = l.Reqs[0].Seq
	}
	open := map[int64]bool{}
	c.openAt = make([]int32, len(l.Reqs))
	lastOnConn := map[int64]int64{} // conn → request number of its frontier HSET whose cleanup is running
	for i := range l.Reqs {
		q := &l.Reqs[i]
		switch q.Kind {
		case fakeredis.ReqMulti:
			open[q.Conn] = true
		case fakeredis.ReqExec, fakeredis.ReqDiscard:
			delete(open, q.Conn)
		}
		c.openAt[i] = int32(len(open))
		if isJournalDelete(q) {
			c.delReq[q.Seq] = true
			if f, ok := lastOnConn[q.Conn]; ok {
				c.flushEnd[f] = q.Seq
			}
			continue
		}
		if q.Kind == fakeredis.ReqDirect && q.Cmd == "HSET" && len(q.Args) > 0 && ClassOf(q.Args[0]) == KFrontier {
			lastOnConn[q.Conn] = q.Seq
			c.flushEnd[q.Seq] = q.Seq
			continue
		}
		if q.Cmd != "PING" {
			delete(lastOnConn, q.Conn)
		}
	}
	return c
}

func (c *classifier) where(n int64) string {
	l := c.l
	// inside a (non-initial) start's bookkeeping + StartPoint requests
	var lastDone *Start
	for i := range l.Starts {
		s := &l.Starts[i]
		if !s.Initial && s.ReqFrom <= n && n < s.ReqDone {
			for q := s.ReqFrom; q <= n; q++ {
				if c.delReq[q] {
					return "inside-recovery/journal-cleanup"
				}
			}
			return "inside-recovery"
		}
		if s.ReqDone <= n {
			lastDone = s
		}
	}
	i := int(n - c.firstSeq)
	if i >= 0 && i < len(c.openAt) && c.openAt[i] > 0 {
		return "in-unit"
	}
	for f, end := range c.flushEnd {
		if f <= n && n < end {
			return "between-frontier-save-and-journal-delete"
		}
	}
	if lastDone != nil && !lastDone.Traffic {
		return "idle"
	}
	if lastDone != nil && lastDone.SendEnd > 0 && n >= lastDone.SendEnd {
		return "after-stop"
	}
	return "between-units"
}
