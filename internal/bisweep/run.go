package bisweep

import (
	"context"
	"fmt"
	"math/rand"
	"strconv"
	"strings"
	"sync"
	"time"

	"verif/internal/drive"
	"verif/internal/fakeredis"
	"verif/internal/gen"

	"github.com/mgtv-tech/redis-GunYu/config"
	"github.com/mgtv-tech/redis-GunYu/syncer"
)

// Case is one base-run configuration.
type Case struct {
	Key       string
	Mode      config.ReplayMode
	Window    uint // replay.batchCmdCount: in-flight window of pipeline mode, lane buffer of parallel mode
	NCmds     int
	PSelect   float64
	PTxn      float64
	PNoise    float64
	MaxTxn    int
	Frags     int           // feeding fragments of the base run (1 = whole stream in one write)
	Pauses    int           // idle gaps placed between fragments of the base run
	Pause     time.Duration // length of a gap (chosen around the tool's 100 ms frontier flush interval)
	ExecDelay time.Duration // reply delay of EXEC on the target (completion lags dispatch)
	StopLate  bool          // base run: stop only after the stored frontier covers the last unit
	ForeignDB int           // > 0: the target holds an unrelated key in that database
	Base      int64         // source offset of the first stream byte (= offset of the empty snapshot)
	// Failover: start-ups of this case look the replication ids up on the source double that
	// reports [FailoverRunIDs] (a new master_replid, the old one as master_replid2).
	Failover bool
	Tag      string // extra signature context ("" = none)
}

func (c Case) String() string {
	return fmt.Sprintf("mode=%s window=%d n=%d sel=%.2f txn=%.2f noise=%.2f frags=%d pauses=%dx%v execdelay=%v stoplate=%v foreigndb=%d base=%d",
		c.Mode, c.Window, c.NCmds, c.PSelect, c.PTxn, c.PNoise, c.Frags, c.Pauses, c.Pause, c.ExecDelay, c.StopLate, c.ForeignDB, c.Base)
}

func (c Case) Frontier() bool { return c.Mode.UsesFrontier() }

// Ctx is the signature context: mode of the instance, whether the lineage has used another
// replay mode before (namespace switched / migrated), and the environment.
func (c Case) Ctx(mode config.ReplayMode, switched bool) string {
	s := "mode=" + string(mode)
	if switched {
		s += "|after-mode-switch"
	}
	if c.ForeignDB > 0 {
		s += "|target-has-other-db"
	}
	if c.Tag != "" {
		s += "|" + c.Tag
	}
	return s
}

// GenCase draws a configuration.
func GenCase(r *rand.Rand, key string) Case {
	c := Case{Key: key}
	c.Mode = []config.ReplayMode{config.ReplayModeSync, config.ReplayModePipeline, config.ReplayModeParallel, config.ReplayModePipeline}[r.Intn(4)]
	c.Window = []uint{1, 2, 4, 100}[r.Intn(4)]
	c.NCmds = 8 + r.Intn(18)
	c.PSelect, c.PTxn, c.PNoise = 0.12, 0.2, 0.12
	c.MaxTxn = 1 + r.Intn(4)
	c.Frags = []int{1, 3, 8, 20}[r.Intn(4)]
	if c.Frontier() {
		c.Pauses = r.Intn(4)
		c.Pause = []time.Duration{40 * time.Millisecond, 105 * time.Millisecond, 130 * time.Millisecond}[r.Intn(3)]
		c.StopLate = r.Intn(3) == 0
	} else {
		c.Pauses = r.Intn(2)
		c.Pause = 10 * time.Millisecond
	}
	if c.Pauses >= c.Frags {
		c.Frags = c.Pauses + 1
	}
	c.ExecDelay = []time.Duration{0, 0, 300 * time.Microsecond, 2 * time.Millisecond}[r.Intn(4)]
	if r.Intn(4) == 0 {
		c.ForeignDB = 1 + r.Intn(15)
	}
	c.Base = int64(1000 + r.Intn(1000000))
	return c
}

// Driver creates tool instances the way the tool does at start-up.  The start-up path reads the
// process-global configuration (config.GetSyncerConfig()) while it builds the output's own
// configuration.  The global is therefore only ever written while no start-up is in flight, and
// start-ups that need the SAME global configuration (mode, window) run concurrently: cfgGate
// admits them in batches per configuration key.  After VerifNewOutput has returned the
// RedisOutput only uses its own copy (nothing else in the replay path reads the global).
type Driver struct {
	// NewOutput is syncer.VerifNewOutput (injected by the check: it exists under build tag verif).
	NewOutput func(cfg syncer.SyncerConfig) (*syncer.RedisOutput, error)

	gate cfgGate
	src  *fakeredis.Server
	// srcNew: the source after a fail-over with granted continuation (started on first use)
	newOnce sync.Once
	srcNew  *fakeredis.Server
}

// cfgGate: a shared/exclusive gate keyed by configuration.  Holders of the current key share it;
// the global configuration is re-installed only when nobody holds the gate.  When holders of
// another key are waiting, newcomers of the current key queue up too, and when the gate drains
// the key with the most waiters gets a turn for exactly the goroutines waiting at that moment.
type cfgGate struct {
	mu      sync.Mutex
	cond    *sync.Cond
	cur     string
	holders int
	waiting map[string]int
	total   int
	turn    string
	quota   int
}

func (g *cfgGate) acquire(key string, install func()) {
	g.mu.Lock()
	if g.cond == nil {
		g.cond = sync.NewCond(&g.mu)
		g.waiting = map[string]int{}
	}
	g.waiting[key]++
	g.total++
	for {
		byTurn := g.turn == key && g.quota > 0
		free := g.holders == 0 && g.turn == ""
		join := g.holders > 0 && g.turn == "" && g.cur == key && g.total == g.waiting[key]
		if byTurn || free || join {
			if byTurn {
				if g.quota--; g.quota == 0 {
					g.turn = ""
				}
			}
			break
		}
		g.cond.Wait()
	}
	g.waiting[key]--
	g.total--
	if g.cur != key {
		// holders == 0 here: a turn starts only on a drained gate, and free/join imply it
		install()
		g.cur = key
	}
	g.holders++
	g.mu.Unlock()
}

func (g *cfgGate) release() {
	g.mu.Lock()
	g.holders--
	if g.holders == 0 && g.turn == "" && g.total > 0 {
		best := ""
		for k, n := range g.waiting {
			if n > 0 && (best == "" || n > g.waiting[best] || (n == g.waiting[best] && k < best)) {
				best = k
			}
		}
		g.turn, g.quota = best, g.waiting[best]
	}
	g.cond.Broadcast()
	g.mu.Unlock()
}

// NewDriver starts the source double (answers INFO replication with a fixed replication id).
func NewDriver(newOutput func(cfg syncer.SyncerConfig) (*syncer.RedisOutput, error)) *Driver {
	return &Driver{NewOutput: newOutput, src: fakeredis.MustStart(fakeredis.Options{})}
}

func (d *Driver) Close() {
	d.src.Close()
	d.newOnce.Do(func() {})
	if d.srcNew != nil {
		d.srcNew.Close()
	}
}

// SourceRunIDs: what the source double reports as master_replid / master_replid2.
func SourceRunIDs() []string { return []string{strings.Repeat("f", 40), strings.Repeat("0", 40)} }

// FailoverRunIDs: what the source reports after a fail-over that continues the same offset space
// (PSYNC continuation): a new master_replid, the previous one as master_replid2.
func FailoverRunIDs() []string { return []string{strings.Repeat("e", 40), strings.Repeat("f", 40)} }

func (d *Driver) failoverSource() *fakeredis.Server {
	d.newOnce.Do(func() {
		s := fakeredis.MustStart(fakeredis.Options{})
		ids := FailoverRunIDs()
		body := []byte(fmt.Sprintf("# Replication\r\nrole:master\r\nconnected_slaves:0\r\nmaster_failover_state:no-failover\r\n"+
			"master_replid:%s\r\nmaster_replid2:%s\r\nmaster_repl_offset:0\r\nsecond_repl_offset:1\r\n\r\n", ids[0], ids[1]))
		s.SetHooks(nil, func(r *fakeredis.Req) (fakeredis.Reply, bool) {
			if r.Cmd == "INFO" && len(r.Args) == 1 && strings.EqualFold(string(r.Args[0]), "replication") {
				return body, true
			}
			return nil, false
		}, nil)
		d.srcNew = s
	})
	return d.srcNew
}

// OpenCfg is what varies between start-ups.
type OpenCfg struct {
	Target         config.RedisConfig
	Mode           config.ReplayMode
	Window         uint
	Parallelism    int  // replay.parallelism: lanes of parallel mode on a cluster target (0 = one per shard)
	CanTransaction bool // SyncerConfig.CanTransaction (cmd/syncer.go: false for a cluster target fed from a standalone source)
	Failover       bool // look the replication ids up on the failed-over source double
}

// Open performs the real start-up bookkeeping against tgt and returns the output to replay with.
func (d *Driver) Open(tgt Target, c Case, mode config.ReplayMode) (*syncer.RedisOutput, error) {
	return d.OpenCfg(OpenCfg{Target: tgt.Redis(), Mode: mode, Window: c.Window, CanTransaction: true, Failover: c.Failover})
}

// OpenCfg is Open for an arbitrary target configuration.
func (d *Driver) OpenCfg(oc OpenCfg) (*syncer.RedisOutput, error) {
	d.gate.acquire(fmt.Sprintf("%s/%d/%d", oc.Mode, oc.Window, oc.Parallelism), func() {
		tr := true
		tdb := -1
		g := config.GetSyncerConfig()
		g.Input = &config.InputConfig{}
		g.Channel = &config.ChannelConfig{}
		g.Output = &config.OutputConfig{Replay: config.ReplayConfig{
			ResumeFromBreakPoint: &tr, BisyncEnabled: &tr, ReplayRdbEnableRestore: &tr, ReplayTransaction: &tr,
			KeyExists: "replace", MaxProtoBulkLen: 512 << 20, TargetDbCfg: &tdb, TargetDb: -1,
			BatchCmdCount: oc.Window, BatchTicker: 10 * time.Millisecond, BatchBufferSize: 64 * 1024, KeepaliveTicker: time.Hour,
			ReplayRdbParallel: 1, Parallelism: oc.Parallelism, UpdateCheckpointTicker: time.Hour, Mode: oc.Mode,
			Stats: config.OutputStats{DisableLog: true, LogInterval: time.Hour},
		}}
	})
	defer d.gate.release()
	src := d.src
	if oc.Failover {
		src = d.failoverSource()
	}
	scfg := syncer.SyncerConfig{Id: 1, Input: drive.StandaloneRedis(src.Addr(), "7.2.0"), Output: oc.Target,
		Channel:        config.ChannelConfig{Type: config.ChannelTypeMemory, Memory: &config.MemoryConfig{MaxSize: 1 << 20, LogSize: 1 << 16}},
		CanTransaction: oc.CanTransaction}
	return d.NewOutput(scfg)
}

// Start is one tool start (bookkeeping + StartPoint) inside a run.
type Start struct {
	Mode     config.ReplayMode
	PrevMode config.ReplayMode // mode of the previous start of the lineage
	ReqFrom  int64             // number of the first request of this start
	ReqDone  int64             // requests processed when StartPoint returned
	SP       syncer.StartPoint
	Err      error
	Initial  bool // the very first start: empty target, full sync of an empty snapshot follows
	Traffic  bool // Send with stream data follows
	IdleSend bool // Send on an idle feeder follows, then stop
	SendEnd  int64
}

// RunLog is what one explored lifetime (a base run, or a chain of starts on one rebuilt state)
// left on the target.  All request numbers are lineage-global: SeqBase = number of requests of
// the ancestors up to their cuts, so StartApps ++ Apps is one consistently numbered history.
type RunLog struct {
	Depth     int
	Path      string
	StartApps []fakeredis.App
	SeqBase   int64
	Apps      []fakeredis.App
	Reqs      []fakeredis.Req
	NReqs     int64
	First     int64 // first crash point of this run
	Starts    []Start
	Completed bool
	SendErr   error
	Note      string
	// monotonicity floor inherited from the ancestors: the largest resume offset a completed
	// earlier start returned (FloorDone) and, for a cut inside a start's own recovery requests,
	// the offset that interrupted start was about to return (FloorCut).
	FloorDone int64
	FloorCut  int64
	CutWhere  string
	ModeAtCut config.ReplayMode // mode of the instance whose requests the cut falls into
	Switched  bool              // an ancestor start (up to the cut) ran in another mode than the base run
	BaseMode  config.ReplayMode
	// Stopped: a clean-stop run — the Send context was cancelled at a logical instant in the middle
	// of the traffic and the target drained everything the tool had sent.
	Stopped  bool
	StopSpec string
}

// Lineage returns the whole history this run extends.
func (l *RunLog) Lineage() []fakeredis.App {
	out := make([]fakeredis.App, 0, len(l.StartApps)+len(l.Apps))
	out = append(out, l.StartApps...)
	return append(out, l.Apps...)
}

// StateAt returns the history up to and including request n.
func (l *RunLog) StateAt(n int64) []fakeredis.App {
	out := append([]fakeredis.App{}, l.StartApps...)
	for _, a := range l.Apps {
		if a.ReqSeq <= n {
			out = append(out, a)
		}
	}
	return out
}

// Env is one base run with its stream.
type Env struct {
	C       Case
	D       *Driver
	Factory TargetFactory
	RunID   string
	IDs     []string
	Stream  *gen.Stream
	Units   []Unit
	EndUnit map[int64]*Unit
	Last    *Unit
	Base    *RunLog
	Watch   time.Duration
	// AltRunIDs: further replication ids a start point may legitimately carry (after a fail-over)
	AltRunIDs []string
}

func (e *Env) targetOptions() TargetOptions {
	o := TargetOptions{ForeignDB: e.C.ForeignDB}
	if d := e.C.ExecDelay; d > 0 {
		o.ExecDelay = func() { time.Sleep(d) }
	}
	return o
}

// reservedWrites keeps what the original double really executed: writes to the bookkeeping
// namespace (business writes are log-only there).
func reservedWrites(apps []fakeredis.App) []fakeredis.App {
	out := make([]fakeredis.App, 0, len(apps))
	for _, a := range apps {
		if a.Write && !a.IsErr && len(a.Args) > 0 && drive.Reserved(a.Args[0]) {
			out = append(out, a)
		}
	}
	return out
}

// NewEnv generates the stream of a case (no run yet).
func NewEnv(r *rand.Rand, c Case, d *Driver, f TargetFactory) *Env {
	e := &Env{C: c, D: d, Factory: f, Watch: 120 * time.Second}
	e.IDs = SourceRunIDs()
	e.RunID = e.IDs[0]
	e.Stream = gen.GenStream(r, gen.StreamOptions{Hist: "b" + alnum(strings.TrimPrefix(c.Key, "case-")), NCmds: c.NCmds, MaxDB: 2,
		PSelect: c.PSelect, PTxn: c.PTxn, PNoise: c.PNoise, MaxTxnLen: c.MaxTxn, StartDB: -1})
	e.Stream.AppendSentinel(e.Stream.LastDB())
	e.Units = UnitsOf(e.Stream, c.Base)
	e.EndUnit = map[int64]*Unit{}
	for i := range e.Units {
		e.EndUnit[e.Units[i].End] = &e.Units[i]
	}
	e.Last = &e.Units[len(e.Units)-1]
	return e
}

// alnum keeps what gen's id syntax allows inside a history tag.
func alnum(s string) string {
	return strings.Map(func(r rune) rune {
		if (r >= '0' && r <= '9') || (r >= 'a' && r <= 'z') || (r >= 'A' && r <= 'Z') {
			return r
		}
		return -1
	}, s)
}

func (e *Env) streamEnd() int64 { return e.C.Base + int64(len(e.Stream.Bytes)) }

// plan splits data into `frags` PRNG-placed fragments, `pauses` of which are followed by a gap.
func plan(r *rand.Rand, data []byte, frags, pauses int, pause time.Duration) []drive.Step {
	if len(data) == 0 {
		return nil
	}
	if frags < 1 {
		frags = 1
	}
	if frags > len(data) {
		frags = len(data)
	}
	cuts := map[int]bool{}
	for len(cuts) < frags-1 {
		cuts[1+r.Intn(len(data)-1)] = true
	}
	var steps []drive.Step
	last := 0
	for i := 1; i <= len(data); i++ {
		if cuts[i] || i == len(data) {
			steps = append(steps, drive.Step{Data: data[last:i]})
			last = i
		}
	}
	for i := 0; i < pauses && len(steps) > 1; i++ {
		steps[r.Intn(len(steps)-1)].Pause = pause
	}
	return steps
}

// watcher observes the target's effect log for logical completion events.
type watcher struct {
	lastID     string
	lastEnd    string
	unitDone   chan struct{}
	frontDone  chan struct{}
	unitClosed bool
	frClosed   bool
}

func (e *Env) watch(tgt Target) *watcher {
	w := &watcher{lastID: e.Last.IDs[len(e.Last.IDs)-1], lastEnd: fmt.Sprint(e.Last.End), unitDone: make(chan struct{}), frontDone: make(chan struct{})}
	tgt.SetOnApplied(func(a *fakeredis.App) { // called under the target's lock
		if !a.Write || a.IsErr || len(a.Args) == 0 {
			return
		}
		if !w.unitClosed && gen.FindID(a.Args) == w.lastID {
			w.unitClosed = true
			close(w.unitDone)
		}
		if !w.frClosed && ClassOf(a.Args[0]) == KFrontier && hfields(a.Args)["end_offset"] == w.lastEnd {
			w.frClosed = true
			close(w.frontDone)
		}
	})
	return w
}

func shift(apps []fakeredis.App, reqs []fakeredis.Req, by int64) {
	if by == 0 {
		return
	}
	for i := range apps {
		apps[i].ReqSeq += by
		apps[i].QueuedSeq += by
		if apps[i].Txn != 0 {
			apps[i].Txn += by
		}
	}
	for i := range reqs {
		reqs[i].Seq += by
	}
}

func (l *RunLog) capture(tgt Target) {
	l.Apps = tgt.Applied()
	l.Reqs = tgt.Requests()
	shift(l.Apps, l.Reqs, l.SeqBase)
	l.NReqs = l.SeqBase + tgt.Seq()
}

// connsOfSend: connections (each opens with a PING) Send creates before it reads the stream.
func connsOfSend(mode config.ReplayMode) int64 {
	if mode.UsesFrontier() {
		return 2
	}
	return 1
}

// waitSeq waits (logical event: request count) until the target has processed n requests.
func waitSeq(tgt Target, n int64, watch time.Duration) bool {
	for t0 := time.Now(); tgt.Seq() < n; {
		if time.Since(t0) > watch {
			return false
		}
		time.Sleep(200 * time.Microsecond)
	}
	return true
}

// feed runs Send from sp over the rest of the stream until the last unit is committed (and, if
// late, until the stored frontier covers it), then stops the tool by cancelling its context.
func (e *Env) feed(r *rand.Rand, tgt Target, out *syncer.RedisOutput, l *RunLog, st *Start, frags, pauses int, late bool) string {
	ctx := context.Background()
	ss := &drive.Session{IDs: e.IDs, Out: out, Watch: e.Watch}
	off := st.SP.Offset
	rest := e.Stream.Bytes[off-e.C.Base:]
	w := e.watch(tgt)
	before := tgt.Seq()
	ar := ss.SendAof(ctx, off, plan(r, rest, frags, pauses, e.C.Pause), false, 4096)
	done := w.unitDone
	if off >= e.Last.End {
		// nothing left to commit: an idle Send; logical completion = its connections are up
		ch := make(chan struct{})
		done = ch
		go func() {
			defer close(ch)
			waitSeq(tgt, before+connsOfSend(st.Mode), e.Watch)
		}()
		late = false
	}
	select {
	case <-done:
		l.Completed = true
		if late && st.Mode.UsesFrontier() {
			select {
			case <-w.frontDone:
			case er := <-ar.Done:
				ar.F.Abort()
				l.SendErr = er
				st.SendEnd = l.SeqBase + tgt.Seq()
				return ""
			case <-time.After(e.Watch):
				ar.Stop(10 * time.Second)
				return "watchdog: stored frontier never covered the last unit"
			}
		}
		er, ok := ar.Stop(e.Watch)
		if !ok {
			return "Send did not return after cancel"
		}
		l.SendErr = er
	case er := <-ar.Done:
		ar.F.Abort()
		l.SendErr = er
	case <-time.After(e.Watch):
		ar.Stop(10 * time.Second)
		return fmt.Sprintf("watchdog: last unit not committed (handed %d of %d bytes)", ar.F.Handed(), len(rest))
	}
	st.SendEnd = l.SeqBase + tgt.Seq()
	return ""
}

// RunBase performs the base run: first start on an empty target, full sync of an empty
// snapshot, StartPoint again, incremental replay of the whole stream.
func (e *Env) RunBase(r *rand.Rand) (*RunLog, string) {
	ctx := context.Background()
	tgt := e.Factory(e.targetOptions())
	defer tgt.Close()
	l := &RunLog{FloorDone: -1, FloorCut: -1, BaseMode: e.C.Mode, ModeAtCut: e.C.Mode}
	st := Start{ReqFrom: 1, Initial: true, Traffic: true, Mode: e.C.Mode}
	out, err := e.D.Open(tgt, e.C, e.C.Mode)
	if err != nil {
		return nil, "start-up bookkeeping: " + err.Error()
	}
	sp, err := out.StartPoint(ctx, e.IDs)
	if err != nil {
		return nil, "initial StartPoint: " + err.Error()
	}
	if sp.Offset >= 0 {
		return nil, fmt.Sprintf("initial start point not initial: %+v", sp)
	}
	ss := &drive.Session{IDs: e.IDs, Out: out, Watch: e.Watch}
	if err := ss.FullSync(ctx, drive.EmptyRDB, e.C.Base); err != nil {
		return nil, "initial full sync: " + err.Error()
	}
	sp, err = out.StartPoint(ctx, e.IDs)
	if err != nil || sp.Offset != e.C.Base || sp.RunId != e.RunID {
		return nil, fmt.Sprintf("start point after the full sync: %+v %v (want offset %d)", sp, err, e.C.Base)
	}
	st.SP = sp
	st.ReqDone = tgt.Seq()
	l.First = st.ReqDone
	if why := e.feed(r, tgt, out, l, &st, e.C.Frags, e.C.Pauses, e.C.StopLate); why != "" {
		return nil, why
	}
	l.Starts = []Start{st}
	l.capture(tgt)
	return l, ""
}

// Cut describes a crash point of a run.
type Cut struct {
	N         int64 // state = history up to and including request N
	Stands    int   // number of request prefixes leaving this state (a maximal stretch)
	Where     []string
	FloorDone int64
	FloorCut  int64
	Mode      config.ReplayMode // mode of the instance whose requests the cut falls into
	Switched  bool              // a start of the lineage up to the cut ran in another mode than the base run
}

// Restart rebuilds the state of `cut` in run p on a fresh target and starts the tool on it:
// idleStarts starts without traffic (bookkeeping + StartPoint, some followed by a Send on an
// idle feeder that is stopped), then one start that replays the rest of the stream.  modes[i]
// is the replay mode start i is configured with ("" = the mode of the previous start): a
// different one makes the start-up bookkeeping switch / migrate the namespace.
// skewMtimes returns a copy of the bookkeeping writes with every "mtime" field of an HSET / HMSET
// raised by d (nanoseconds, the unit the tool stores).
func skewMtimes(apps []fakeredis.App, d time.Duration) []fakeredis.App {
	out := make([]fakeredis.App, len(apps))
	for i, a := range apps {
		out[i] = a
		if (a.Cmd != "HSET" && a.Cmd != "HMSET") || len(a.Args) < 3 {
			continue
		}
		args := append([][]byte(nil), a.Args...)
		for j := 1; j+1 < len(args); j += 2 {
			if strings.HasSuffix(string(args[j]), "mtime") {
				if v, err := strconv.ParseInt(string(args[j+1]), 10, 64); err == nil && v > 0 {
					args[j+1] = []byte(strconv.FormatInt(v+int64(d), 10))
				}
			}
		}
		out[i].Args = args
	}
	return out
}

func (e *Env) Restart(r *rand.Rand, p *RunLog, cut Cut, idleStarts int, modes []config.ReplayMode, path string) (*RunLog, string) {
	ctx := context.Background()
	state := p.StateAt(cut.N)
	tgt := e.Factory(e.targetOptions())
	defer tgt.Close()
	stored := reservedWrites(state)
	if mr := rand.New(rand.NewSource(int64(cut.N)*7919 + int64(len(state)))); mr.Intn(4) == 0 {
		// the run that wrote the bookkeeping lived on a host whose wall clock is ahead of the host
		// that starts now (by two minutes, or by an hour): every stored mtime lies in the starting
		// host's future.  mtime is a value the writer sends; order among the records is unchanged
		stored = skewMtimes(stored, []time.Duration{2 * time.Minute, time.Hour}[mr.Intn(2)])
	}
	tgt.Replay(stored)
	l := &RunLog{Depth: p.Depth + 1, Path: path, StartApps: state, SeqBase: cut.N, First: cut.N, FloorDone: cut.FloorDone, FloorCut: cut.FloorCut, ModeAtCut: cut.Mode, Switched: cut.Switched, BaseMode: e.C.Mode}
	prev := cut.Mode
	if len(cut.Where) > 0 {
		l.CutWhere = cut.Where[0]
	}
	defer func() { l.capture(tgt) }()
	for i := 0; i <= idleStarts; i++ {
		st := Start{ReqFrom: l.SeqBase + tgt.Seq() + 1, Traffic: i == idleStarts, Mode: prev, PrevMode: prev}
		if i < len(modes) && modes[i] != "" {
			st.Mode = modes[i]
		}
		prev = st.Mode
		out, err := e.D.Open(tgt, e.C, st.Mode)
		if err != nil {
			st.Err = fmt.Errorf("start-up bookkeeping: %w", err)
			st.ReqDone = l.SeqBase + tgt.Seq()
			l.Starts = append(l.Starts, st)
			return l, ""
		}
		sp, err := out.StartPoint(ctx, e.IDs)
		st.SP, st.Err = sp, err
		st.ReqDone = l.SeqBase + tgt.Seq()
		usable := err == nil && e.knownRunID(sp.RunId) && sp.Offset >= e.C.Base && sp.Offset <= e.streamEnd() &&
			(sp.Offset == e.C.Base || e.EndUnit[sp.Offset] != nil)
		if !usable {
			// no Send is possible from here (an error, no position = the tool would full-sync, or a
			// position that is not a unit boundary); the oracle judges the start itself.  A further
			// start is what a supervisor would do next.
			l.Starts = append(l.Starts, st)
			if st.Traffic {
				l.Note = "resume position unusable for feeding"
				return l, ""
			}
			continue
		}
		if st.Traffic {
			frags, pauses := 1, 0
			if r.Intn(6) == 0 {
				frags, pauses = 4, 1
			}
			why := e.feed(r, tgt, out, l, &st, frags, pauses, r.Intn(4) == 0)
			l.Starts = append(l.Starts, st)
			if why != "" {
				return nil, why
			}
			return l, ""
		}
		if r.Intn(2) == 0 {
			// Send on an idle source, then stop
			st.IdleSend = true
			ss := &drive.Session{IDs: e.IDs, Out: out, Watch: e.Watch}
			before := tgt.Seq()
			ar := ss.SendAof(ctx, sp.Offset, nil, false, 4096)
			up := waitSeq(tgt, before+connsOfSend(st.Mode), e.Watch)
			if _, ok := ar.Stop(e.Watch); !ok || !up {
				return nil, "idle Send: connections not opened or Send did not return after cancel"
			}
			st.SendEnd = l.SeqBase + tgt.Seq()
		}
		l.Starts = append(l.Starts, st)
	}
	return l, ""
}

// StopSpec is the logical instant at which a clean-stop run cancels the Send context (the way
// the tool is stopped): right after the target processed its AtRequest-th request of the
// incremental phase, or right after the feeder handed out byte AtByte of the stream.
type StopSpec struct {
	AtRequest int64
	AtByte    int64
	Frags     int
}

func (s StopSpec) String() string {
	if s.AtRequest > 0 {
		return fmt.Sprintf("cancel at target request %d of the incremental phase (frags=%d)", s.AtRequest, s.Frags)
	}
	return fmt.Sprintf("cancel after the feeder handed out stream byte %d (frags=%d)", s.AtByte, s.Frags)
}

// RunStopped is a base run whose Send context is cancelled at spec's instant while stream data is
// still being handed out.  It waits for Send to return and for the target to drain what the tool
// had sent; the final state is what the next start finds.
func (e *Env) RunStopped(r *rand.Rand, spec StopSpec) (*RunLog, string) {
	bg := context.Background()
	tgt := e.Factory(e.targetOptions())
	defer tgt.Close()
	l := &RunLog{FloorDone: -1, FloorCut: -1, BaseMode: e.C.Mode, ModeAtCut: e.C.Mode, Stopped: true, StopSpec: spec.String()}
	st := Start{ReqFrom: 1, Initial: true, Traffic: true, Mode: e.C.Mode}
	out, err := e.D.Open(tgt, e.C, e.C.Mode)
	if err != nil {
		return nil, "start-up bookkeeping: " + err.Error()
	}
	sp, err := out.StartPoint(bg, e.IDs)
	if err != nil || sp.Offset >= 0 {
		return nil, fmt.Sprintf("initial StartPoint: %+v %v", sp, err)
	}
	ss := &drive.Session{IDs: e.IDs, Out: out, Watch: e.Watch}
	if err := ss.FullSync(bg, drive.EmptyRDB, e.C.Base); err != nil {
		return nil, "initial full sync: " + err.Error()
	}
	sp, err = out.StartPoint(bg, e.IDs)
	if err != nil || sp.Offset != e.C.Base || sp.RunId != e.RunID {
		return nil, fmt.Sprintf("start point after the full sync: %+v %v (want offset %d)", sp, err, e.C.Base)
	}
	st.SP = sp
	st.ReqDone = tgt.Seq()
	l.First = st.ReqDone

	ctx, cancel := context.WithCancel(bg)
	defer cancel()
	w := e.watch(tgt)
	if spec.AtRequest > 0 {
		at := l.First + spec.AtRequest
		tgt.SetOnRequest(func(q *fakeredis.Req) { // under the target's lock; cancel never blocks
			if q.Seq >= at {
				cancel()
			}
		})
	}
	data := e.Stream.Bytes
	var steps []drive.Step
	if spec.AtByte > 0 && spec.AtByte < int64(len(data)) {
		steps = append(plan(r, data[:spec.AtByte], spec.Frags, 0, 0), plan(r, data[spec.AtByte:], spec.Frags, 0, 0)...)
	} else {
		steps = plan(r, data, spec.Frags, 0, 0)
	}
	ar := ss.SendAof(ctx, sp.Offset, steps, false, 4096)
	if spec.AtByte > 0 {
		go func() {
			for t0 := time.Now(); ar.F.Handed() < spec.AtByte && time.Since(t0) < e.Watch; {
				time.Sleep(20 * time.Microsecond)
			}
			cancel()
		}()
	}
	select {
	case er := <-ar.Done:
		l.SendErr = er
	case <-w.unitDone:
		// the whole stream was committed before the instant came: stop now
		l.Completed = true
		cancel()
		select {
		case er := <-ar.Done:
			l.SendErr = er
		case <-time.After(e.Watch):
			ar.F.Abort()
			return nil, "Send did not return after cancel"
		}
	case <-time.After(e.Watch):
		cancel()
		ar.F.Abort()
		return nil, "watchdog: clean-stop run neither stopped nor finished"
	}
	ar.F.Abort()
	tgt.SetOnRequest(nil)
	if !tgt.WaitIdle(5 * time.Second) {
		return nil, "target did not drain after the stop"
	}
	select {
	case <-w.unitDone:
		l.Completed = true
	default:
	}
	st.SendEnd = tgt.Seq()
	l.Starts = []Start{st}
	l.capture(tgt)
	return l, ""
}
