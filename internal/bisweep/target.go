// Package bisweep: request-prefix crash sweep of BIDIRECTIONAL incremental replay resume
// (property C14).  Modelled on internal/sweep, but the resume state is the bisync namespace
// (marker / latest / commit journal / index / frontier / root checkpoint) instead of the plain
// checkpoint hash, a restart is the tool's REAL start-up bookkeeping (syncer.VerifNewOutput:
// run-id lookup on a source double, namespace resolution, UpdateCheckpoint) followed by
// StartPoint, and every restart is itself followed by further starts without traffic.
//
// The engine talks to the target through the small Target interface so that a cluster double
// can be plugged in later: a Target must expose ONE globally ordered request/effect log (the
// crash points are prefixes of it) and be able to rebuild its state from a prefix of that log.
package bisweep

import (
	"sync"
	"time"

	"verif/internal/drive"
	"verif/internal/fakeredis"

	"github.com/mgtv-tech/redis-GunYu/config"
)

// Target is the replay target the tool is pointed at.
type Target interface {
	// Redis is the output configuration handed to the tool.
	Redis() config.RedisConfig
	// Seq is the number of requests processed so far (global order over all nodes).
	Seq() int64
	// Requests / Applied return copies of the wire-level and effect-level logs in global order;
	// App.ReqSeq refers to Req.Seq.
	Requests() []fakeredis.Req
	Applied() []fakeredis.App
	// Replay rebuilds the state left by a prefix of an effect log on a fresh target.
	Replay(apps []fakeredis.App)
	// SetOnApplied installs a callback invoked for every applied command (under the target's lock).
	SetOnApplied(fn func(a *fakeredis.App))
	// SetOnRequest installs a callback invoked (under the target's lock) after every request.
	SetOnRequest(fn func(r *fakeredis.Req))
	// SetFault installs fault hooks (both called under the target's lock): inject answers a request
	// without executing it; drop lets it execute and closes the connection instead of replying.
	SetFault(inject func(r *fakeredis.Req) (fakeredis.Reply, bool), drop func(r *fakeredis.Req) bool)
	// WaitIdle waits until every client connection is closed and what it had sent is processed.
	WaitIdle(d time.Duration) bool
	Close()
}

// TargetOptions describe the environment of a target double.
type TargetOptions struct {
	// ExecDelay is called (without any lock) before the reply of an EXEC is written: makes
	// completion lag dispatch in pipeline mode.
	ExecDelay func()
	// ForeignDB >= 1: the target holds an unrelated key in that database before the tool ever
	// connects (a bidirectional target is a live master with its own clients).
	ForeignDB int
}

// TargetFactory creates a fresh, empty target.
type TargetFactory func(o TargetOptions) Target

// standalone is a single fakeredis server.  Business writes are logged, not executed (the
// oracle works on the logs; arbitrary generated streams would otherwise fail on type clashes
// no consistent replica could see); the reserved bookkeeping namespace is executed for real.
type standalone struct {
	srv    *fakeredis.Server
	hmu    sync.Mutex
	onReq  func(r *fakeredis.Req)
	inject func(r *fakeredis.Req) (fakeredis.Reply, bool)
	drop   func(r *fakeredis.Req) bool
}

// ForeignKey is the unrelated key pre-loaded when TargetOptions.ForeignDB is set.
const ForeignKey = "foreign:app:key"

func serverOptions() fakeredis.Options {
	return fakeredis.Options{Permissive: true, LogOnly: func(cmd string, args [][]byte) bool {
		return len(args) == 0 || !drive.Reserved(args[0])
	}}
}

// NewStandalone is the TargetFactory of a standalone double.
func NewStandalone(o TargetOptions) Target {
	srv := fakeredis.New(serverOptions())
	if o.ExecDelay != nil {
		d := o.ExecDelay
		srv.ReplyDelay = func(cmd string) {
			if cmd == "EXEC" {
				d()
			}
		}
	}
	if o.ForeignDB > 0 {
		srv.With(func(dbs []fakeredis.DB) {
			dbs[o.ForeignDB][ForeignKey] = &fakeredis.Obj{Kind: fakeredis.KString, Str: []byte("owned-by-someone-else")}
		})
	}
	if err := srv.Start(); err != nil {
		panic(err)
	}
	return &standalone{srv: srv}
}

func (t *standalone) Redis() config.RedisConfig              { return drive.StandaloneRedis(t.srv.Addr(), "7.2.0") }
func (t *standalone) Seq() int64                             { return t.srv.Seq() }
func (t *standalone) Requests() []fakeredis.Req              { return t.srv.Requests() }
func (t *standalone) Applied() []fakeredis.App               { return t.srv.Applied() }
func (t *standalone) Replay(apps []fakeredis.App)            { t.srv.Replay(apps) }
func (t *standalone) SetOnApplied(fn func(a *fakeredis.App)) { t.srv.SetOnApplied(fn) }
func (t *standalone) SetOnRequest(fn func(r *fakeredis.Req)) {
	t.hmu.Lock()
	defer t.hmu.Unlock()
	t.onReq = fn
	t.srv.SetHooks(t.onReq, t.inject, t.drop)
}
func (t *standalone) SetFault(inject func(r *fakeredis.Req) (fakeredis.Reply, bool), drop func(r *fakeredis.Req) bool) {
	t.hmu.Lock()
	defer t.hmu.Unlock()
	t.inject, t.drop = inject, drop
	t.srv.SetHooks(t.onReq, t.inject, t.drop)
}
func (t *standalone) WaitIdle(d time.Duration) bool { return t.srv.WaitNoConns(d) }
func (t *standalone) Close()                        { t.srv.Close() }

// singlePrimary is a Redis Cluster of one primary that serves every slot: the same server double
// behind the cluster protocol, so logs, replay of a recorded state and fault hooks are those of
// the standalone target, while the tool talks to it through its cluster client (a pool of
// connections per node: a lost reply costs one connection, the client stays usable).
type singlePrimary struct {
	standalone
	cl  *fakeredis.Cluster
	cfg config.RedisConfig
}

// NewSinglePrimaryCluster is the TargetFactory of that double.
func NewSinglePrimaryCluster(o TargetOptions) Target {
	cl := fakeredis.NewCluster(1, serverOptions())
	cfg, err := clusterTarget(cl, 1)
	if err != nil {
		panic(err)
	}
	return &singlePrimary{standalone: standalone{srv: cl.Node(0)}, cl: cl, cfg: cfg}
}

func (t *singlePrimary) Redis() config.RedisConfig { return t.cfg }
func (t *singlePrimary) Close()                    { t.cl.Close() }
