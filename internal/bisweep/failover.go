package bisweep

// Restart after a source fail-over with granted continuation (property C14, all three modes,
// standalone double).  The source's replication ids change from [OLD, 0…] to [NEW, OLD] between a
// stop and the next start, with no traffic in between: the real start-up bookkeeping
// (syncer.newOutput → checkpoint.UpdateCheckpoint) re-keys the namespace's root checkpoint to NEW
// before StartPoint is asked, while the committed recovery state (latest record / frontier /
// journal) still carries OLD.  States: taken from one uninterrupted gated run (batch 1, flush,
// batch 2, flush; batch 3 is left for afterwards) — after batch 1, before the second flush
// (frontier + journal beyond it), at the end.  On each: a plain restart (ids unchanged), then the
// fail-over restart, which replays the rest of the stream under NEW, is stopped, and is followed
// by a fresh instance (ids still [NEW, OLD]).  Judged by the ordinary oracle: the resume point
// never moves backwards past committed units, sync mode repeats nothing.

import (
	"context"
	"fmt"
	"math/rand"
	"sync"
	"time"

	"verif/internal/fakeredis"
	"verif/internal/harness"

	"github.com/mgtv-tech/redis-GunYu/config"
)

type FailoverOptions struct {
	NCases  int // modes rotate: sync, pipeline, parallel
	Workers int
	Driver  *Driver
	Factory TargetFactory
}

// FailoverRestarts runs the scenario for o.NCases cases.
func FailoverRestarts(run *harness.Run, o FailoverOptions) {
	x := &explorer{run: run, o: Options{Driver: o.Driver, Factory: o.Factory}, sem: make(chan struct{}, 16), seenSubs: map[string]bool{}}
	harness.Parallel(o.NCases, o.Workers, func(i int) {
		key := fmt.Sprintf("failover-%d", i)
		if !run.WantCase(key) {
			return
		}
		mode := []config.ReplayMode{config.ReplayModeSync, config.ReplayModePipeline, config.ReplayModeParallel}[i%3]
		fe := newFaultEnv(run.Rand(key), key, mode, o.Driver, o.Factory)
		fe.C.Tag = "after-source-failover"
		fe.AltRunIDs = []string{FailoverRunIDs()[0]}
		run.Seen("modes", string(mode))
		l0, _, why := fe.gatedRun(nil)
		if l0 == nil {
			run.Inconclusive("%s: uninterrupted run: %s", key, why)
			return
		}
		fs, st := fe.Judge(l0)
		x.account(st, key, l0)
		x.report(fe.Env, l0, fs)
		// the states
		type stateAt struct {
			name string
			n    int64
		}
		states := []stateAt{{"both-batches-committed", l0.NReqs}}
		v := Interpret(l0.Lineage(), fe.Units, fe.RunID)
		for _, t := range v.TUnits {
			if t.Complete() && t.Unit.Idx == fe.batch[0][1] { // last unit of batch 1
				states = append(states, stateAt{"first-batch-committed", t.Txn})
			}
		}
		var hsets []int64
		for _, q := range l0.Reqs {
			if q.Kind != fakeredis.ReqQueued && classOfReq(&q) == "frontier-hset" {
				hsets = append(hsets, q.Seq)
			}
		}
		if len(hsets) == 2 {
			states = append(states, stateAt{"frontier+journal", hsets[1] - 1})
		}
		var wg sync.WaitGroup
		for _, s := range states {
			s := s
			wg.Add(1)
			go func() {
				defer wg.Done()
				x.sem <- struct{}{}
				defer func() { <-x.sem }()
				x.failoverOne(fe, key, s.name, s.n, l0.StateAt(s.n))
			}()
		}
		wg.Wait()
	})
}

func (x *explorer) failoverOne(fe *fenv, key, sname string, cutN int64, state []fakeredis.App) {
	run := x.run
	ctx := context.Background()
	ckey := fmt.Sprintf("%s|%s", key, sname)
	tgt := fe.Factory(fe.targetOptions())
	defer tgt.Close()
	tgt.Replay(reservedWrites(state))
	mode := fe.C.Mode
	l := &RunLog{Depth: 1, StartApps: state, SeqBase: cutN, First: cutN, FloorDone: fe.C.Base, FloorCut: -1, ModeAtCut: mode, BaseMode: mode,
		Path: fmt.Sprintf("stop after request %d of the uninterrupted run (%s); restart with unchanged replication ids; then the source fails over (ids [NEW, OLD]) and the tool is started again, no traffic in between", cutN, sname)}
	// plain restart
	sA := Start{Mode: mode, PrevMode: mode, ReqFrom: cutN + tgt.Seq() + 1}
	outA, err := fe.D.Open(tgt, fe.C, mode)
	if err != nil {
		run.Inconclusive("%s: plain restart: start-up bookkeeping: %v", ckey, err)
		return
	}
	sA.SP, sA.Err = outA.StartPoint(ctx, fe.IDs)
	sA.ReqDone = cutN + tgt.Seq()
	// restart after the fail-over: bookkeeping against the new ids, StartPoint with them
	e2 := *fe.Env
	e2.C.Failover = true
	e2.IDs = FailoverRunIDs()
	sB := Start{Mode: mode, PrevMode: mode, ReqFrom: cutN + tgt.Seq() + 1, Traffic: true}
	outB, err := e2.D.Open(tgt, e2.C, mode)
	if err != nil {
		run.Inconclusive("%s: restart after the fail-over: start-up bookkeeping: %v", ckey, err)
		return
	}
	sB.SP, sB.Err = outB.StartPoint(ctx, e2.IDs)
	sB.ReqDone = cutN + tgt.Seq()
	run.Eval(1)
	run.Count("failover_restarts", 1)
	run.Count("restarts", 1)
	run.Distinct(fmt.Sprintf("%s|%s", fe.C.Ctx(mode, false), sname))
	usable := sB.Err == nil && e2.knownRunID(sB.SP.RunId) && (sB.SP.Offset == fe.C.Base || fe.EndUnit[sB.SP.Offset] != nil)
	if usable {
		if why := e2.feed(rand.New(rand.NewSource(cutN)), tgt, outB, l, &sB, 1, 0, mode.UsesFrontier()); why != "" {
			run.Inconclusive("%s: replay after the fail-over: %s", ckey, why)
			return
		}
	}
	l.Starts = []Start{sA, sB}
	l.capture(tgt)
	fs, st := e2.Judge(l)
	x.account(st, key, l)
	x.report(&e2, l, fs)
	if !usable {
		return
	}
	// one more fresh instance, ids still [NEW, OLD]
	cuts := l.Cuts()
	nl, why := e2.Restart(rand.New(rand.NewSource(cutN+3)), l, cuts[len(cuts)-1], 1, nil, l.Path+" → rest of the stream replayed under NEW, stop, fresh instance")
	if nl == nil {
		run.Inconclusive("%s: fresh instance after the fail-over run: %s", ckey, why)
		return
	}
	run.Count("restarts", 1)
	fs, st = e2.Judge(nl)
	x.account(st, key, nl)
	x.report(&e2, nl, fs)
}

var _ = time.Second
