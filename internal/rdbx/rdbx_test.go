package rdbx

import (
	"bytes"
	"encoding/hex"
	"fmt"
	"math"
	"math/rand"
	"os"
	"reflect"
	"sort"
	"strconv"
	"strings"
	"testing"
	"time"
)

func TestCRC64CheckValue(t *testing.T) {
	if got := CRC64Bitwise(0, []byte("123456789")); got != 0xe9c6d914c4b8d9ca {
		t.Fatalf("bitwise CRC64 check value %#x", got)
	}
	if got := CRC64(0, []byte("123456789")); got != 0xe9c6d914c4b8d9ca {
		t.Fatalf("table CRC64 check value %#x", got)
	}
	r := rand.New(rand.NewSource(1))
	for i := 0; i < 2000; i++ {
		b := make([]byte, r.Intn(300))
		r.Read(b)
		cut := 0
		if len(b) > 0 {
			cut = r.Intn(len(b))
		}
		if CRC64(CRC64(0, b[:cut]), b[cut:]) != CRC64Bitwise(0, b) {
			t.Fatalf("table and bitwise CRC64 differ on %x", b)
		}
	}
	if crc16([]byte("123456789")) != 0x31C3 {
		t.Fatalf("crc16 check value")
	}
	if keySlot([]byte("foo{bar}zap")) != crc16([]byte("bar"))&16383 || keySlot([]byte("foo{}{bar}")) != crc16([]byte("foo{}{bar}"))&16383 {
		t.Fatalf("hash tag rule")
	}
}

func TestLZF(t *testing.T) {
	// hand-made stream: literal "abc", then back reference len 6 offset 3 -> "abcabcabc"
	out, err := LZFDecompress([]byte{0x02, 'a', 'b', 'c', 0x80 | 0x00, 0x02}, 9)
	if err != nil || string(out) != "abcabcabc" {
		t.Fatalf("KAT: %q %v", out, err)
	}
	// long match form: ctrl 0xE0, extra length byte; "a" followed by 263 more 'a' (overlapping, offset 0)
	out, err = LZFDecompress([]byte{0x00, 'a', 0xE0, 254, 0x00}, 1+7+254+2)
	if err != nil || len(out) != 264 || strings.Trim(string(out), "a") != "" {
		t.Fatalf("KAT long: %d %v", len(out), err)
	}
	r := rand.New(rand.NewSource(2))
	for i := 0; i < 3000; i++ {
		n := r.Intn(3000)
		b := make([]byte, n)
		switch r.Intn(4) {
		case 0:
			r.Read(b)
		case 1:
			for j := range b {
				b[j] = byte("ab"[r.Intn(2)])
			}
		case 2:
			pat := make([]byte, 1+r.Intn(20))
			r.Read(pat)
			for j := range b {
				b[j] = pat[j%len(pat)]
			}
		default:
			for j := range b {
				b[j] = byte(j / 300)
			}
		}
		for m := LZFGreedy; m <= LZFShortRuns; m++ {
			c := LZFCompressMode(b, m)
			d, err := LZFDecompress(c, len(b))
			if err != nil || !bytes.Equal(d, b) {
				t.Fatalf("mode %v: round trip failed for %d bytes: %v", m, n, err)
			}
			if _, err := LZFDecompress(c, len(b)+1); err == nil && len(b) > 0 {
				t.Fatalf("mode %v: wrong length accepted", m)
			}
		}
	}
	// compressible input really yields back references
	c := LZFCompress(bytes.Repeat([]byte("hello world "), 50))
	if len(c) > 100 {
		t.Fatalf("greedy compressor did not compress: %d", len(c))
	}
	// malformed
	for _, bad := range [][]byte{{0x05, 'a'}, {0x20, 0x00}, {0xE0}, {0xE0, 1}, {0x40}} {
		if _, err := LZFDecompress(bad, 10); err == nil {
			t.Fatalf("malformed stream %x accepted", bad)
		}
	}
}

func TestBacklen(t *testing.T) {
	for _, c := range []struct{ l, n int }{{1, 1}, {127, 1}, {128, 2}, {16382, 2}, {16383, 3}, {2097150, 3}, {2097151, 4}, {268435454, 4}, {268435455, 5}} {
		b := appendLpBacklen(nil, c.l)
		if len(b) != c.n {
			t.Fatalf("backlen(%d) has %d bytes, want %d", c.l, len(b), c.n)
		}
		// parse right to left as lpDecodeBacklen does
		var v uint64
		shift := uint(0)
		for i := len(b) - 1; ; i-- {
			v |= uint64(b[i]&127) << shift
			if b[i]&128 == 0 {
				if i != 0 {
					t.Fatalf("backlen(%d) stops early", c.l)
				}
				break
			}
			shift += 7
		}
		if v != uint64(c.l) {
			t.Fatalf("backlen(%d) decodes to %d", c.l, v)
		}
	}
}

// testN: number of generated datasets; RDBX_N overrides (soak runs).
func testN(normal, short int) int {
	if v, err := strconv.Atoi(os.Getenv("RDBX_N")); err == nil && v > 0 {
		return v
	}
	if testing.Short() {
		return short
	}
	return normal
}

func mustHex(s string) []byte {
	b, err := hex.DecodeString(strings.NewReplacer(" ", "", "\n", "", "\t", "").Replace(s))
	if err != nil {
		panic(err)
	}
	return b
}

// Known-answer vectors taken from the format documentation in the Redis sources.
func TestKnownAnswers(t *testing.T) {
	// ziplist.c header comment: the ziplist holding "2" and "5"
	doc := mustHex("0f000000 0c000000 0200 00f3 02f6 ff")
	var f featSet
	_, b, _ := EncodeValue(Value{Kind: KindList, List: [][]byte{[]byte("2"), []byte("5")}}, Encoding{Type: TypeListZiplist})
	if want := append([]byte{byte(len(doc))}, doc...); !bytes.Equal(b, want) {
		t.Fatalf("ziplist [2 5]: got %x want %x", b, want)
	}
	r := &rd{f: &f}
	if got := r.ziplist(doc); len(got) != 2 || string(got[0]) != "2" || string(got[1]) != "5" {
		t.Fatalf("ziplist doc example decodes to %q", got)
	}
	// same comment, "Hello World" appended: [02] [0b] [48 65 6c 6c 6f 20 57 6f 72 6c 64]
	_, b, _ = EncodeValue(Value{Kind: KindList, List: [][]byte{[]byte("2"), []byte("5"), []byte("Hello World")}}, Encoding{Type: TypeListZiplist})
	if !bytes.HasSuffix(b, mustHex("02f6 020b48656c6c6f20576f726c64 ff")) {
		t.Fatalf("ziplist with Hello World: %x", b)
	}

	// integer entry encodings, value by value
	type kat struct {
		v   string
		enc Encoding
		hex string // entry bytes after the prevlen byte
	}
	for _, k := range []kat{
		{"0", Encoding{}, "f1"}, {"12", Encoding{}, "fd"}, {"13", Encoding{}, "fe0d"}, {"-1", Encoding{}, "feff"},
		{"-128", Encoding{}, "fe80"}, {"-129", Encoding{}, "c07fff"}, {"32767", Encoding{}, "c0ff7f"},
		{"32768", Encoding{}, "f0008000"}, {"-32769", Encoding{}, "f0ff7fff"}, {"-8388608", Encoding{}, "f0000080"},
		{"8388607", Encoding{}, "f0ffff7f"}, {"-8388609", Encoding{}, "d0ffff7fff"}, {"-70000", Encoding{}, "f090eefe"},
		{"2147483648", Encoding{}, "e00000008000000000"}, {"-9223372036854775808", Encoding{}, "e00000000000000080"},
		{"5", Encoding{IntWidth: W16}, "c00500"}, {"5", Encoding{IntWidth: W24}, "f0050000"}, {"-1", Encoding{IntWidth: W64}, "e0ffffffffffffffff"},
		{"007", Encoding{}, "03303037"}, {"5", Encoding{NoInt: true}, "0135"},
	} {
		e := k.enc
		e.Type = TypeListZiplist
		_, b, _ := EncodeValue(Value{Kind: KindList, List: [][]byte{[]byte(k.v)}}, e)
		want := mustHex(k.hex)
		got := b[1+10+1 : len(b)-1]
		if !bytes.Equal(got, want) {
			t.Errorf("ziplist entry %s (%+v): got %x want %x", k.v, k.enc, got, want)
		}
		v, _, err := DecodeValue(TypeListZiplist, b)
		if err != nil || len(v.List) != 1 || string(v.List[0]) != k.v {
			t.Errorf("ziplist entry %s decodes to %q, %v", k.v, v.List, err)
		}
	}
	for _, k := range []kat{
		{"0", Encoding{}, "00 01"}, {"127", Encoding{}, "7f 01"}, {"128", Encoding{}, "c080 02"}, {"-1", Encoding{}, "dfff 02"},
		{"-4096", Encoding{}, "d000 02"}, {"4095", Encoding{}, "cfff 02"}, {"4096", Encoding{}, "f10010 03"},
		{"-4097", Encoding{}, "f1ffef 03"}, {"-32768", Encoding{}, "f10080 03"}, {"32768", Encoding{}, "f2008000 04"},
		{"-8388608", Encoding{}, "f2000080 04"}, {"-70000", Encoding{}, "f290eefe 04"}, {"8388608", Encoding{}, "f300008000 05"},
		{"-2147483649", Encoding{}, "f4ffffff7fffffffff 09"}, {"9223372036854775807", Encoding{}, "f4ffffffffffffff7f 09"},
		{"5", Encoding{IntWidth: W13}, "c005 02"}, {"-1", Encoding{IntWidth: W24}, "f2ffffff 04"},
		{"a_0", Encoding{}, "83615f30 04"}, {"", Encoding{}, "80 01"}, {"a", Encoding{Hdr: HdrMid}, "e00161 03"}, {"a", Encoding{Hdr: HdrBig}, "f00100000061 06"},
	} {
		e := k.enc
		e.Type = TypeSetListpack
		_, b, _ := EncodeValue(Value{Kind: KindSet, Set: [][]byte{[]byte(k.v)}}, e)
		want := mustHex(k.hex)
		got := b[1+6 : len(b)-1]
		if !bytes.Equal(got, want) {
			t.Errorf("listpack entry %s (%+v): got %x want %x", k.v, k.enc, got, want)
		}
		v, _, err := DecodeValue(TypeSetListpack, b)
		if err != nil || len(v.Set) != 1 || string(v.Set[0]) != k.v {
			t.Errorf("listpack entry %s decodes to %q, %v", k.v, v.Set, err)
		}
	}
	// RDB lengths and integer strings
	for _, k := range []struct {
		s   string
		e   Encoding
		hex string
	}{
		{"a", Encoding{}, "0161"}, {"a", Encoding{Len: Len14}, "400161"}, {"a", Encoding{Len: Len32}, "800000000161"},
		{"a", Encoding{Len: Len64}, "81000000000000000161"},
		{"1", Encoding{Str: StrInt}, "c001"}, {"-1", Encoding{Str: StrInt}, "c0ff"}, {"255", Encoding{Str: StrInt}, "c1ff00"},
		{"-32768", Encoding{Str: StrInt}, "c10080"}, {"65536", Encoding{Str: StrInt}, "c200000100"},
		{"-2147483648", Encoding{Str: StrInt}, "c200000080"}, {"2147483648", Encoding{Str: StrInt}, "0a32313437343833363438"},
		{"1", Encoding{Str: StrInt, StrIntWidth: 4}, "c201000000"}, {"01", Encoding{Str: StrInt}, "023031"},
	} {
		_, b, _ := EncodeValue(Value{Kind: KindString, Str: []byte(k.s)}, k.e)
		if !bytes.Equal(b, mustHex(k.hex)) {
			t.Errorf("string %q (%+v): got %x want %s", k.s, k.e, b, k.hex)
		}
		v, _, err := DecodeValue(TypeString, b)
		if err != nil || string(v.Str) != k.s {
			t.Errorf("string %q decodes to %q, %v", k.s, v.Str, err)
		}
	}
	// intset: 16-bit, three members, sorted
	_, b, _ = EncodeValue(Value{Kind: KindSet, Set: [][]byte{[]byte("3"), []byte("-2"), []byte("1")}}, Encoding{Type: TypeSetIntset})
	if !bytes.Equal(b, mustHex("0e 02000000 03000000 feff 0100 0300")) {
		t.Errorf("intset: %x", b)
	}
	// zipmap from the zipmap.c comment: "foo" => "bar", "hello" => "world"
	//   <zmlen><len>"foo"<len><free>"bar"<len>"hello"<len><free>"world"<ZIPMAP_END>
	_, b, _ = EncodeValue(Value{Kind: KindHash, Hash: [][2][]byte{{[]byte("foo"), []byte("bar")}, {[]byte("hello"), []byte("world")}}}, Encoding{Type: TypeHashZipmap})
	if !bytes.Equal(b[1:], []byte("\x02\x03foo\x03\x00bar\x05hello\x05\x00world\xff")) {
		t.Errorf("zipmap: %q", b)
	}
	// ZSET ascii scores
	_, b, _ = EncodeValue(Value{Kind: KindZSet, ZSet: []ZMember{{[]byte("a"), math.Inf(1)}, {[]byte("b"), math.Inf(-1)}, {[]byte("c"), math.NaN()}, {[]byte("d"), 1.5}}}, Encoding{Type: TypeZSet})
	if !bytes.Equal(b, []byte("\x04\x01a\xfe\x01b\xff\x01c\xfd\x01d\x031.5")) {
		t.Errorf("zset ascii: %q", b)
	}
}

func sortedCopy(s []string) []string {
	out := append([]string(nil), s...)
	sort.Strings(out)
	return out
}

func roundTrip(t *testing.T, ds []Key, fo FileOptions, seed int64) map[string]bool {
	t.Helper()
	file, per := EncodeFile(ds, fo)
	got, err := DecodeFile(file)
	if err != nil {
		t.Fatalf("seed %d: DecodeFile: %v\nfile %x", seed, err, clip(file))
	}
	if len(got) != len(ds) {
		t.Fatalf("seed %d: %d keys in, %d out", seed, len(ds), len(got))
	}
	seen := map[string]bool{}
	for i := range ds {
		want := ds[i]
		if ok, why := EqualKey(want, got[i]); !ok {
			t.Fatalf("seed %d key %d (%s): %s\nvalue bytes %x", seed, i, want.Enc.Describe(), why, clip(per[i].ValueBytes))
		}
		if got[i].Enc.Type != per[i].TypeByte || per[i].TypeByte != want.Enc.Type {
			t.Fatalf("seed %d key %d (%s): type asked %d, written %d, read %d", seed, i, want.Enc.Describe(), want.Enc.Type, per[i].TypeByte, got[i].Enc.Type)
		}
		if !reflect.DeepEqual(per[i].Features, got[i].Enc.Observed) {
			t.Fatalf("seed %d key %d (%s): encoder says it emitted %v, decoder met %v", seed, i, want.Enc.Describe(), per[i].Features, got[i].Enc.Observed)
		}
		if file[per[i].TypeOffset] != per[i].TypeByte || !bytes.Equal(file[per[i].ValueOffset:per[i].Offset+per[i].Len], per[i].ValueBytes) {
			t.Fatalf("seed %d key %d: offsets do not describe the file", seed, i)
		}
		// the value on its own, and as a DUMP payload
		v, feats, err := DecodeValue(per[i].TypeByte, per[i].ValueBytes)
		if err != nil {
			t.Fatalf("seed %d key %d: DecodeValue: %v", seed, i, err)
		}
		if ok, why := EqualDeep(want.Value, v); !ok {
			t.Fatalf("seed %d key %d: DecodeValue: %s", seed, i, why)
		}
		dump := DumpPayload(per[i].TypeByte, per[i].ValueBytes, uint16(fo.Version))
		v2, tb, ver, err := DecodeDump(dump)
		if err != nil || tb != per[i].TypeByte || int(ver) != fo.Version {
			t.Fatalf("seed %d key %d: DecodeDump: %v type %d ver %d", seed, i, err, tb, ver)
		}
		if ok, why := EqualDeep(want.Value, v2); !ok {
			t.Fatalf("seed %d key %d: DecodeDump: %s", seed, i, why)
		}
		for _, f := range feats {
			seen[f] = true
		}
		for _, f := range per[i].Features {
			seen[f] = true
		}
		seen["label:"+want.Enc.Describe()] = true
		seen[fmt.Sprintf("type:%d", per[i].TypeByte)] = true
	}
	return seen
}

func clip(b []byte) []byte {
	if len(b) > 600 {
		return b[:600]
	}
	return b
}

// (a) decode(encode(ds)) == ds over thousands of generated datasets, all encodings.
func TestRoundTripGenerated(t *testing.T) {
	n := testN(6000, 800)
	seen := map[string]bool{}
	keys := 0
	for seed := int64(0); seed < int64(n); seed++ {
		rng := rand.New(rand.NewSource(seed))
		opt := GenOptions{Version: 6 + rng.Intn(8), AllowNaN: seed%5 == 0, Interleave: seed%7 == 0}
		switch seed % 10 {
		case 1:
			opt.MaxElemBytes = 17000
			opt.NumKeys = 2
		case 2:
			opt.MinValueBytes = 1024 + rng.Intn(3072)
			opt.NumKeys = 2
		case 3:
			opt.Plain = true
		case 4:
			opt.Version = MaxRDBVersion
			opt.MaxElemBytes = 5000
		}
		ds := GenDataset(rng, opt)
		fo := GenFileOptions(rng, opt.Version, opt.Plain)
		for f := range roundTrip(t, ds, fo, seed) {
			seen[f] = true
		}
		keys += len(ds)
	}
	// every feature the package knows must have been exercised (both directions)
	var missing []string
	for _, f := range AllFeatures() {
		if !seen[f] && f != "lp:backlen4" && f != "lp:backlen5" { // need elements of 2 MiB / 256 MiB
			missing = append(missing, f)
		}
	}
	if len(missing) > 0 && !testing.Short() {
		t.Errorf("features never generated: %v", missing)
	}
	for _, ty := range allTypes {
		if !seen[fmt.Sprintf("type:%d", ty)] {
			t.Errorf("type %d never generated", ty)
		}
	}
	labels := 0
	for f := range seen {
		if strings.HasPrefix(f, "label:") {
			labels++
		}
	}
	t.Logf("%d datasets, %d keys, %d distinct labels", n, keys, labels)
}

// Each encoding on its own, with the size option: hashes (and the others) larger than a chunk
// threshold of 1..4 KiB.
func TestRoundTripPerTypeSized(t *testing.T) {
	for _, ty := range allTypes {
		for seed := int64(0); seed < 60; seed++ {
			rng := rand.New(rand.NewSource(seed*131 + int64(ty)))
			min := 0
			if seed%2 == 1 && ty != TypeString {
				min = 1024 << uint(seed%3)
			}
			ds := GenDataset(rng, GenOptions{Types: []byte{ty}, MinValueBytes: min, NumKeys: 3})
			if len(ds) != 3 {
				t.Fatalf("type %d: %d keys", ty, len(ds))
			}
			file, per := EncodeFile(ds, FileOptions{Version: 13})
			for i := range ds {
				if ds[i].Enc.Type != ty || per[i].TypeByte != ty {
					t.Fatalf("type restriction ignored: asked %d got %d/%d", ty, ds[i].Enc.Type, per[i].TypeByte)
				}
				if len(per[i].ValueBytes) < min {
					t.Fatalf("type %d: value of %d bytes, asked for at least %d", ty, len(per[i].ValueBytes), min)
				}
			}
			roundTrip(t, ds, FileOptions{Version: 13}, seed)
			_ = file
		}
	}
}

func TestGeneratorDeterministicAndUnique(t *testing.T) {
	a := GenDataset(rand.New(rand.NewSource(42)), GenOptions{NumKeys: 30})
	b := GenDataset(rand.New(rand.NewSource(42)), GenOptions{NumKeys: 30})
	fa, _ := EncodeFile(a, FileOptions{Version: 13})
	fb, _ := EncodeFile(b, FileOptions{Version: 13})
	if !bytes.Equal(fa, fb) {
		t.Fatalf("same seed, different dataset")
	}
	names := map[string]bool{}
	for _, k := range a {
		if names[string(k.Key)] {
			t.Fatalf("duplicate key name %q", k.Key)
		}
		names[string(k.Key)] = true
		if k.Enc.Describe() == "" || !strings.Contains(k.Enc.Describe(), "/") {
			t.Fatalf("label %q", k.Enc.Describe())
		}
	}
	// Avoid
	for seed := int64(0); seed < 300; seed++ {
		ds := GenDataset(rand.New(rand.NewSource(seed)), GenOptions{Avoid: []string{"int24-neg", "len-unknown", "zm:bigitem"}})
		_, per := EncodeFile(ds, FileOptions{Version: 13})
		for i, s := range per {
			j := strings.Join(s.Features, " ") + " " + ds[i].Enc.Label
			if strings.Contains(j, "int24-neg") || strings.Contains(j, "len-unknown") || strings.Contains(j, "zm:bigitem") {
				t.Fatalf("avoided feature generated: %s", j)
			}
		}
	}
	// Plain: nothing a current Redis would not write itself
	for seed := int64(0); seed < 300; seed++ {
		ds := GenDataset(rand.New(rand.NewSource(seed)), GenOptions{Plain: true})
		_, per := EncodeFile(ds, FileOptions{Version: 13})
		for i, s := range per {
			for _, f := range s.Features {
				switch f {
				case "zl:len-unknown", "lp:len-unknown", "zm:biglen", "ql:plain", "stream:idmp", "op:expire-s":
					t.Fatalf("plain dataset has %s (%s)", f, ds[i].Enc.Label)
				}
			}
		}
	}
}

// The decoder must fail cleanly (error, no panic, no huge allocation) on damaged input, and must
// notice every single-byte change of a checksummed file.
func TestDecoderRobust(t *testing.T) {
	for seed := int64(0); seed < 40; seed++ {
		rng := rand.New(rand.NewSource(seed))
		ds := GenDataset(rng, GenOptions{NoTTL: seed%2 == 0})
		file, per := EncodeFile(ds, FileOptions{Version: 11, Aux: DefaultAux(11)})
		for cut := 0; cut < len(file); cut++ {
			if _, err := DecodeFile(file[:cut]); err == nil {
				t.Fatalf("seed %d: truncation at %d of %d accepted", seed, cut, len(file))
			}
		}
		mut := make([]byte, len(file))
		for pos := 0; pos < len(file); pos++ {
			for _, d := range []byte{1, 0x80, 0xff} {
				copy(mut, file)
				if d == 0xff {
					if mut[pos] == 0xff {
						continue
					}
					mut[pos] = 0xff
				} else {
					mut[pos] ^= d
				}
				if _, err := DecodeFile(mut); err == nil {
					t.Fatalf("seed %d: alteration at %d accepted", seed, pos)
				}
			}
		}
		// the same on bare values (no checksum to save us): must not panic
		for i := range per {
			vb := per[i].ValueBytes
			m := make([]byte, len(vb))
			for pos := 0; pos < len(vb); pos++ {
				copy(m, vb)
				m[pos] ^= byte(1 + rng.Intn(255))
				DecodeValue(per[i].TypeByte, m)
				DecodeValue(per[i].TypeByte, vb[:pos])
			}
		}
	}
	// DUMP footer
	p := DumpPayload(TypeString, []byte("\x03abc"), 10)
	if _, _, _, err := DecodeDump(p); err != nil {
		t.Fatal(err)
	}
	bad := append([]byte(nil), p...)
	bad[len(bad)-1] ^= 1
	if _, _, _, err := DecodeDump(bad); err != ErrChecksum {
		t.Fatalf("bad crc: %v", err)
	}
	if _, _, _, err := DecodeDump(DumpPayload(TypeString, []byte("\x03abc"), 14)); err != ErrVersion {
		t.Fatalf("future version: %v", err)
	}
	if _, _, _, err := DecodeDump(DumpPayload(TypeString, []byte("\x03abcd"), 10)); err != ErrTrailing {
		t.Fatalf("trailing byte: %v", err)
	}
	// no-checksum form
	f, _ := EncodeFile([]Key{{Key: []byte("a"), Value: Value{Kind: KindString, Str: []byte("b")}}}, FileOptions{Version: 9, NoChecksum: true})
	if fi, err := DecodeFileInfo(f); err != nil || fi.HasChecksum {
		t.Fatalf("crc=0 form: %v", err)
	}
}

func TestEqualSemantics(t *testing.T) {
	b := func(s ...string) [][]byte {
		var o [][]byte
		for _, x := range s {
			o = append(o, []byte(x))
		}
		return o
	}
	eq := func(a, c Value, want bool) {
		t.Helper()
		if ok, why := Equal(a, c); ok != want {
			t.Fatalf("Equal = %v (%s), want %v", ok, why, want)
		}
	}
	eq(Value{Kind: KindList, List: b("a", "b")}, Value{Kind: KindList, List: b("b", "a")}, false)
	eq(Value{Kind: KindSet, Set: b("a", "b")}, Value{Kind: KindSet, Set: b("b", "a")}, true)
	eq(Value{Kind: KindSet, Set: b("a", "b")}, Value{Kind: KindSet, Set: b("b", "a", "a")}, false)
	eq(Value{Kind: KindSet, Set: b("a")}, Value{Kind: KindList, List: b("a")}, false)
	eq(Value{Kind: KindZSet, ZSet: []ZMember{{[]byte("a"), 0}}}, Value{Kind: KindZSet, ZSet: []ZMember{{[]byte("a"), math.Copysign(0, -1)}}}, false)
	eq(Value{Kind: KindZSet, ZSet: []ZMember{{[]byte("a"), math.NaN()}}}, Value{Kind: KindZSet, ZSet: []ZMember{{[]byte("a"), math.Float64frombits(0x7ff8000000000001)}}}, true)
	pt1, pt2 := 0.1, 0.2
	eq(Value{Kind: KindZSet, ZSet: []ZMember{{[]byte("a"), pt1 + pt2}}}, Value{Kind: KindZSet, ZSet: []ZMember{{[]byte("a"), 0.3}}}, false)
	eq(Value{Kind: KindHash, Hash: [][2][]byte{{[]byte("f"), []byte("1")}, {[]byte("g"), []byte("2")}}}, Value{Kind: KindHash, Hash: [][2][]byte{{[]byte("g"), []byte("2")}, {[]byte("f"), []byte("1")}}}, true)
	s1 := &Stream{Entries: []StreamEntry{{MS: 1, Seq: 1, Fields: [][2][]byte{{[]byte("a"), []byte("b")}}}, {MS: 1, Seq: 2, Deleted: true}}, LastMS: 1, LastSeq: 2}
	s2 := &Stream{Entries: []StreamEntry{{MS: 1, Seq: 1, Fields: [][2][]byte{{[]byte("a"), []byte("b")}}}}, LastMS: 1, LastSeq: 2}
	eq(Value{Kind: KindStream, Stream: s1}, Value{Kind: KindStream, Stream: s2}, true)
	if ok, _ := EqualDeep(Value{Kind: KindStream, Stream: s1}, Value{Kind: KindStream, Stream: s2}); ok {
		t.Fatalf("EqualDeep ignores deleted entries")
	}
	s3 := &Stream{Entries: s2.Entries, LastMS: 1, LastSeq: 3}
	eq(Value{Kind: KindStream, Stream: s2}, Value{Kind: KindStream, Stream: s3}, false)
}

func TestPerformance(t *testing.T) {
	rng := rand.New(rand.NewSource(7))
	var sets [][]Key
	total := 0
	for len(sets) < 200 {
		ds := GenDataset(rng, GenOptions{NumKeys: 10, MinValueBytes: 300})
		f, _ := EncodeFile(ds, FileOptions{Version: 13})
		if len(f) < 3000 || len(f) > 6000 {
			continue
		}
		total += len(f)
		sets = append(sets, ds)
	}
	start := time.Now()
	for _, ds := range sets {
		f, _ := EncodeFile(ds, FileOptions{Version: 13})
		if _, err := DecodeFile(f); err != nil {
			t.Fatal(err)
		}
	}
	per := time.Since(start) / time.Duration(len(sets))
	t.Logf("encode+decode of a ~%d byte dataset: %v", total/len(sets), per)
	start = time.Now()
	rng = rand.New(rand.NewSource(8))
	for i := 0; i < 2000; i++ {
		GenDataset(rng, GenOptions{})
	}
	t.Logf("GenDataset (default options): %v per dataset", time.Since(start)/2000)
	if per > 2*time.Millisecond {
		t.Errorf("encode+decode too slow: %v", per)
	}
}

// Exhaustive little sweep, independent of the random generator: every integer boundary (and its
// neighbours) and every string-length boundary in every container encoding under every element
// option.
func TestDirectedBoundaries(t *testing.T) {
	var ints []string
	for _, v := range []int64{0, 1, 12, 13, -1, 63, 64, 127, 128, -128, -129, 255, 256, 4095, 4096, -4096, -4097, 8191, 8192,
		32767, 32768, -32768, -32769, 65535, 65536, 8388607, 8388608, -8388608, -8388609, -70000, 16777215, 16777216,
		2147483647, 2147483648, -2147483648, -2147483649, 4294967295, 4294967296, math.MaxInt64, math.MaxInt64 - 1, math.MinInt64, math.MinInt64 + 1} {
		ints = append(ints, fmt.Sprint(v))
	}
	var elems [][]byte
	for _, s := range ints {
		elems = append(elems, []byte(s))
	}
	for _, s := range nonCanon {
		elems = append(elems, []byte(s))
	}
	for _, n := range []int{0, 1, 62, 63, 64, 65, 126, 127, 128, 252, 253, 254, 255, 256, 4094, 4095, 4096, 4097} {
		elems = append(elems, bytes.Repeat([]byte{byte('a' + n%26)}, n))
	}
	big := [][]byte{}
	for _, n := range []int{16376, 16377, 16378, 16379, 16382, 16383, 16384, 16385, 70000} {
		big = append(big, append([]byte(fmt.Sprint(n, ":")), bytes.Repeat([]byte{byte('A' + n%26)}, n-len(fmt.Sprint(n, ":")))...))
	}
	seen := map[string]bool{}
	check := func(v Value, e Encoding) {
		t.Helper()
		tb, vb, feats := EncodeValue(v, e)
		if tb != e.Type {
			t.Fatalf("type %d: encoder fell back to %d", e.Type, tb)
		}
		got, feats2, err := DecodeValue(tb, vb)
		if err != nil {
			t.Fatalf("type %d %+v: %v", e.Type, e, err)
		}
		if ok, why := EqualDeep(v, got); !ok {
			t.Fatalf("type %d %+v: %s", e.Type, e, why)
		}
		if !reflect.DeepEqual(feats, feats2) {
			t.Fatalf("type %d %+v: features %v vs %v", e.Type, e, feats, feats2)
		}
		for _, f := range feats {
			seen[f] = true
		}
	}
	var opts []Encoding
	for _, w := range []IntWidth{WAuto, W8, W13, W16, W24, W32, W64} {
		for _, h := range []HdrForm{HdrMin, HdrMid, HdrBig} {
			for _, flags := range []int{0, 1, 2, 3, 4, 8} {
				opts = append(opts, Encoding{IntWidth: w, Hdr: h, LenUnknown: flags&1 != 0, PrevLen5: flags&2 != 0, NoInt: flags&4 != 0, BlobLZF: flags&8 != 0,
					Len: LenForm(int(w) % 4), Str: StrMode(int(h)+int(w)) % 4, LZF: LZFMode(int(w) % 4), StrIntWidth: []uint8{0, 2, 4}[int(w)%3]})
			}
		}
	}
	uniq := func(in [][]byte) [][]byte {
		m := map[string]bool{}
		var out [][]byte
		for _, x := range in {
			if !m[string(x)] {
				m[string(x)] = true
				out = append(out, x)
			}
		}
		return out
	}
	for oi, o := range opts {
		all := elems
		if oi%6 == 0 {
			all = append(append([][]byte{}, elems...), big...)
		}
		for _, ty := range []byte{TypeList, TypeListZiplist, TypeQuicklist, TypeQuicklist2} {
			e := o
			e.Type = ty
			e.NodeSize = oi % 5
			if oi%4 == 1 {
				e.PlainMin = 254
			}
			check(Value{Kind: KindList, List: all}, e)
		}
		for _, ty := range []byte{TypeSet, TypeSetListpack} {
			e := o
			e.Type = ty
			check(Value{Kind: KindSet, Set: uniq(all)}, e)
		}
		var h [][2][]byte
		var z []ZMember
		for i, x := range uniq(all) {
			h = append(h, [2][]byte{x, all[(i*7)%len(all)]})
			z = append(z, ZMember{x, float64(i) - 20.5})
		}
		for _, ty := range []byte{TypeHash, TypeHashZiplist, TypeHashListpack, TypeHashZipmap} {
			e := o
			e.Type = ty
			e.ZipmapFree = oi % 5
			e.ZipmapBigLen = oi%2 == 0
			check(Value{Kind: KindHash, Hash: h}, e)
		}
		for _, ty := range []byte{TypeZSet, TypeZSet2, TypeZSetZiplist, TypeZSetListpack} {
			e := o
			e.Type = ty
			check(Value{Kind: KindZSet, ZSet: z}, e)
		}
		// strings
		for _, x := range all {
			e := o
			e.Type = TypeString
			check(Value{Kind: KindString, Str: x}, e)
		}
	}
	// scores, every representation
	var z []ZMember
	for i, c := range scoreClasses {
		for j, s := range c.vals {
			z = append(z, ZMember{[]byte(fmt.Sprintf("m%d.%d", i, j)), s})
		}
	}
	z = append(z, ZMember{[]byte("nan"), math.NaN()})
	for _, ty := range []byte{TypeZSet, TypeZSet2, TypeZSetZiplist, TypeZSetListpack} {
		check(Value{Kind: KindZSet, ZSet: z}, Encoding{Type: ty})
	}
	// intset widths
	for _, w := range []int{0, 2, 4, 8} {
		for _, hi := range []int64{math.MaxInt16, math.MaxInt16 + 1, math.MaxInt32, math.MaxInt32 + 1, math.MaxInt64} {
			var s [][]byte
			for _, v := range []int64{0, -1, 1, hi, -hi - 1, hi - 1} {
				s = append(s, []byte(fmt.Sprint(v)))
			}
			check(Value{Kind: KindSet, Set: s}, Encoding{Type: TypeSetIntset, IntsetWidth: w})
		}
	}
	// 4-byte listpack back-length: one element of 2 MiB
	huge := bytes.Repeat([]byte("0123456789abcdef"), 131072)
	check(Value{Kind: KindList, List: [][]byte{[]byte("x"), huge[:2097151-5-1], []byte("y"), huge[:2097151-5], []byte("z")}}, Encoding{Type: TypeQuicklist2})
	check(Value{Kind: KindList, List: [][]byte{[]byte("x"), huge, []byte("y")}}, Encoding{Type: TypeListZiplist})
	for _, f := range []string{"lp:backlen1", "lp:backlen2", "lp:backlen3", "lp:backlen4", "zl:prevlen5", "zl:str32", "lp:str32", "zm:bigitem", "zm:item253", "rdb:len64", "rdb:lzf"} {
		if !seen[f] {
			t.Errorf("directed sweep never produced %s", f)
		}
	}
}
