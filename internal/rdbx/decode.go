package rdbx

import (
	"bytes"
	"errors"
	"fmt"
	"math"
	"strconv"
)

// The decoder is written against the format description only and shares nothing with encode.go
// except the data model, CRC64 and LZF.  It is strict: every structural invariant a Redis started
// with sanitize-dump-payload would check (ziplist zlbytes/zltail/prevlen chain, listpack
// back-lengths, header counts, intset order, exact consumption of the input) is checked here, so a
// blob it accepts is one a real server accepts.

// DecodeError is the error type returned for malformed input.
type DecodeError struct {
	Off int // offset in the input being decoded (file or payload), -1 if unknown
	Msg string
}

func (e *DecodeError) Error() string { return fmt.Sprintf("rdbx: %s (at offset %d)", e.Msg, e.Off) }

var (
	ErrChecksum = errors.New("rdbx: checksum mismatch")
	ErrVersion  = errors.New("rdbx: unsupported RDB version")
	ErrTrailing = errors.New("rdbx: trailing bytes after the value")
)

// FileInfo is everything DecodeFileInfo learns from a file.
type FileInfo struct {
	Version     int
	Aux         [][2][]byte
	Functions   [][]byte
	Keys        []Key
	KeyOffsets  []int    // offset of each key's type byte
	ValueSpans  [][2]int // [start,end) of each key's serialised value in the file
	FuncSpans   [][2]int // [start,end) of each FUNCTION2 payload (the RDB string after the opcode)
	HasChecksum bool     // false when the footer is all zero
	SelectDBs   int      // number of SELECTDB opcodes met
	ResizeDBs   int
	SlotInfos   int
}

type rd struct {
	b    []byte
	p    int
	base int // offset of b[0] in the outermost input, for error messages
	f    *featSet
}

type decodePanic struct{ err error }

func (r *rd) fail(format string, a ...interface{}) {
	panic(decodePanic{&DecodeError{Off: r.base + r.p, Msg: fmt.Sprintf(format, a...)}})
}

func catch(err *error) {
	if x := recover(); x != nil {
		if dp, ok := x.(decodePanic); ok {
			*err = dp.err
			return
		}
		*err = &DecodeError{Off: -1, Msg: fmt.Sprintf("internal error: %v", x)}
	}
}

func (r *rd) left() int { return len(r.b) - r.p }

func (r *rd) u8() byte {
	if r.p >= len(r.b) {
		r.fail("unexpected end of input")
	}
	c := r.b[r.p]
	r.p++
	return c
}

func (r *rd) take(n int) []byte {
	if n < 0 || n > r.left() {
		r.fail("need %d bytes, %d left", n, r.left())
	}
	s := r.b[r.p : r.p+n : r.p+n]
	r.p += n
	return s
}

func (r *rd) le(n int) uint64 {
	s := r.take(n)
	var v uint64
	for i := n - 1; i >= 0; i-- {
		v = v<<8 | uint64(s[i])
	}
	return v
}

func (r *rd) be(n int) uint64 {
	s := r.take(n)
	var v uint64
	for i := 0; i < n; i++ {
		v = v<<8 | uint64(s[i])
	}
	return v
}

// lenOrEnc reads an RDB length; isEnc is set for the 11xxxxxx "special encoding" form.
func (r *rd) lenOrEnc() (v uint64, isEnc bool) {
	c := r.u8()
	switch c >> 6 {
	case 0:
		r.f.add(fRdbLen6)
		return uint64(c & 0x3f), false
	case 1:
		r.f.add(fRdbLen14)
		return uint64(c&0x3f)<<8 | uint64(r.u8()), false
	case 3:
		return uint64(c & 0x3f), true
	}
	switch c {
	case 0x80:
		r.f.add(fRdbLen32)
		return r.be(4), false
	case 0x81:
		r.f.add(fRdbLen64)
		return r.be(8), false
	}
	r.p--
	r.fail("invalid length byte 0x%02x", c)
	return 0, false
}

func (r *rd) length() uint64 {
	v, enc := r.lenOrEnc()
	if enc {
		r.p--
		r.fail("expected a length, found string encoding %d", v)
	}
	return v
}

// count reads a length that announces that many following items of at least minBytes each.
func (r *rd) count(minBytes int) int {
	v := r.length()
	if v > uint64(r.left()/minBytes) {
		r.fail("count %d exceeds remaining input", v)
	}
	return int(v)
}

func (r *rd) str() []byte {
	v, enc := r.lenOrEnc()
	if !enc {
		if v > uint64(r.left()) {
			r.fail("string of %d bytes, %d left", v, r.left())
		}
		r.f.add(fRdbRaw)
		return r.take(int(v))
	}
	switch v {
	case 0:
		r.f.add(fRdbInt8)
		return strconv.AppendInt(nil, int64(int8(r.u8())), 10)
	case 1:
		r.f.add(fRdbInt16)
		return strconv.AppendInt(nil, int64(int16(r.le(2))), 10)
	case 2:
		r.f.add(fRdbInt32)
		return strconv.AppendInt(nil, int64(int32(r.le(4))), 10)
	case 3:
		clen := r.length()
		ulen := r.length()
		if clen > uint64(r.left()) {
			r.fail("LZF string of %d compressed bytes, %d left", clen, r.left())
		}
		if ulen > 1<<32 {
			r.fail("LZF string claims %d bytes", ulen)
		}
		at := r.p
		out, err := LZFDecompress(r.take(int(clen)), int(ulen))
		if err != nil {
			r.p = at
			r.fail("LZF string does not decompress to %d bytes", ulen)
		}
		r.f.add(fRdbLZF)
		return out
	}
	r.p--
	r.fail("unknown string encoding %d", v)
	return nil
}

func (r *rd) sub(blob []byte) *rd {
	// offsets inside a nested blob are reported relative to the blob (the blob may be decompressed)
	return &rd{b: blob, f: r.f, base: 0}
}

// ---------------------------------------------------------------------------------------------
// ziplist

func (r *rd) ziplist(blob []byte) [][]byte {
	z := r.sub(blob)
	if len(blob) < 11 {
		z.fail("ziplist shorter than header+end")
	}
	zlbytes := z.le(4)
	zltail := z.le(4)
	zllen := int(z.le(2))
	if zlbytes != uint64(len(blob)) {
		z.fail("ziplist zlbytes %d != blob size %d", zlbytes, len(blob))
	}
	var out [][]byte
	prevStart, prevLen := -1, 0
	for {
		if z.left() < 1 {
			z.fail("ziplist without end marker")
		}
		if z.b[z.p] == 0xFF {
			z.p++
			break
		}
		start := z.p
		var pl uint64
		if c := z.u8(); c < 254 {
			pl = uint64(c)
			z.f.add(fZlPrev1)
		} else { // 254: the 5-byte form (255 was handled as the end marker above)
			pl = z.le(4)
			z.f.add(fZlPrev5)
		}
		if pl != uint64(prevLen) {
			z.p = start
			z.fail("ziplist prevlen %d, previous entry is %d bytes", pl, prevLen)
		}
		enc := z.u8()
		var el []byte
		switch {
		case enc>>6 == 0:
			el = z.take(int(enc & 0x3f))
			z.f.add(fZlStr6)
		case enc>>6 == 1:
			el = z.take(int(enc&0x3f)<<8 | int(z.u8()))
			z.f.add(fZlStr14)
		case enc == 0x80:
			n := z.be(4)
			if n > uint64(z.left()) {
				z.fail("ziplist string of %d bytes, %d left", n, z.left())
			}
			el = z.take(int(n))
			z.f.add(fZlStr32)
		case enc == 0xC0:
			v := int64(int16(z.le(2)))
			z.f.add(posneg(v, fZlInt16Pos, fZlInt16Neg))
			el = strconv.AppendInt(nil, v, 10)
		case enc == 0xD0:
			v := int64(int32(z.le(4)))
			z.f.add(posneg(v, fZlInt32Pos, fZlInt32Neg))
			el = strconv.AppendInt(nil, v, 10)
		case enc == 0xE0:
			v := int64(z.le(8))
			z.f.add(posneg(v, fZlInt64Pos, fZlInt64Neg))
			el = strconv.AppendInt(nil, v, 10)
		case enc == 0xF0:
			// ZIP_INT_24B: three bytes, little endian, SIGNED (ziplist.c loads them into the upper
			// part of an int32 and shifts right arithmetically by 8).
			u := uint32(z.le(3))
			v := int64(int32(u<<8) >> 8)
			z.f.add(posneg(v, fZlInt24Pos, fZlInt24Neg))
			el = strconv.AppendInt(nil, v, 10)
		case enc == 0xFE:
			v := int64(int8(z.u8()))
			z.f.add(posneg(v, fZlInt8Pos, fZlInt8Neg))
			el = strconv.AppendInt(nil, v, 10)
		case enc >= 0xF1 && enc <= 0xFD:
			el = strconv.AppendInt(nil, int64(enc&0x0f)-1, 10)
			z.f.add(fZlImm4)
		default:
			z.p--
			z.fail("invalid ziplist entry encoding 0x%02x", enc)
		}
		out = append(out, el)
		prevStart, prevLen = start, z.p-start
	}
	if z.left() != 0 {
		z.fail("%d bytes after the ziplist end marker", z.left())
	}
	wantTail := uint64(10)
	if prevStart >= 0 {
		wantTail = uint64(prevStart)
	}
	if zltail != wantTail {
		z.fail("ziplist zltail %d, last entry at %d", zltail, wantTail)
	}
	// zllen == 65535 means "unknown, count by walking to the 0xFF end marker"
	if zllen == 65535 {
		z.f.add(fZlLenUnknown)
	} else if zllen != len(out) {
		z.fail("ziplist zllen %d, %d entries present", zllen, len(out))
	}
	return out
}

// ---------------------------------------------------------------------------------------------
// listpack

type lpItem struct {
	s     []byte
	v     int64
	isInt bool
}

func (it lpItem) bytes() []byte {
	if it.isInt {
		return strconv.AppendInt(nil, it.v, 10)
	}
	return it.s
}

func signExtend(u uint64, bits uint) int64 {
	sh := 64 - bits
	return int64(u<<sh) >> sh
}

func (r *rd) listpackItems(blob []byte) []lpItem {
	l := r.sub(blob)
	if len(blob) < 7 {
		l.fail("listpack shorter than header+end")
	}
	total := l.le(4)
	numele := int(l.le(2))
	if total != uint64(len(blob)) {
		l.fail("listpack total-bytes %d != blob size %d", total, len(blob))
	}
	var out []lpItem
	for {
		if l.left() < 1 {
			l.fail("listpack without end marker")
		}
		if l.b[l.p] == 0xFF {
			l.p++
			break
		}
		start := l.p
		c := l.u8()
		var it lpItem
		switch {
		case c&0x80 == 0:
			it = lpItem{isInt: true, v: int64(c)}
			l.f.add(fLpUint7)
		case c&0xC0 == 0x80:
			it.s = l.take(int(c & 0x3f))
			l.f.add(fLpStr6)
		case c&0xE0 == 0xC0:
			it = lpItem{isInt: true, v: signExtend(uint64(c&0x1f)<<8|uint64(l.u8()), 13)}
			l.f.add(posneg(it.v, fLpInt13Pos, fLpInt13Neg))
		case c&0xF0 == 0xE0:
			it.s = l.take(int(c&0x0f)<<8 | int(l.u8()))
			l.f.add(fLpStr12)
		case c == 0xF0:
			n := l.le(4)
			if n > uint64(l.left()) {
				l.fail("listpack string of %d bytes, %d left", n, l.left())
			}
			it.s = l.take(int(n))
			l.f.add(fLpStr32)
		case c == 0xF1:
			it = lpItem{isInt: true, v: signExtend(l.le(2), 16)}
			l.f.add(posneg(it.v, fLpInt16Pos, fLpInt16Neg))
		case c == 0xF2:
			it = lpItem{isInt: true, v: signExtend(l.le(3), 24)}
			l.f.add(posneg(it.v, fLpInt24Pos, fLpInt24Neg))
		case c == 0xF3:
			it = lpItem{isInt: true, v: signExtend(l.le(4), 32)}
			l.f.add(posneg(it.v, fLpInt32Pos, fLpInt32Neg))
		case c == 0xF4:
			it = lpItem{isInt: true, v: int64(l.le(8))}
			l.f.add(posneg(it.v, fLpInt64Pos, fLpInt64Neg))
		default:
			l.p--
			l.fail("invalid listpack entry encoding 0x%02x", c)
		}
		// back-length: the size of encoding+payload in 7-bit groups, most significant group first,
		// every byte but the first has the top bit set (it is parsed right to left)
		el := uint64(l.p - start)
		var nb int
		switch {
		case el <= 127:
			nb = 1
		case el < 16383:
			nb = 2
		case el < 2097151:
			nb = 3
		case el < 268435455:
			nb = 4
		default:
			nb = 5
		}
		bl := l.take(nb)
		var got uint64
		for i, x := range bl {
			if (i == 0) != (x&0x80 == 0) {
				l.p -= nb
				l.fail("malformed listpack back-length % x", bl)
			}
			got = got<<7 | uint64(x&0x7f)
		}
		if got != el {
			l.p -= nb
			l.fail("listpack back-length %d, entry is %d bytes", got, el)
		}
		l.f.add(fLpBack1 + feature(nb-1))
		out = append(out, it)
	}
	if l.left() != 0 {
		l.fail("%d bytes after the listpack end marker", l.left())
	}
	if numele == 65535 {
		l.f.add(fLpLenUnknown)
	} else if numele != len(out) {
		l.fail("listpack num-elements %d, %d entries present", numele, len(out))
	}
	return out
}

func (r *rd) listpack(blob []byte) [][]byte {
	items := r.listpackItems(blob)
	out := make([][]byte, len(items))
	for i, it := range items {
		out[i] = it.bytes()
	}
	return out
}

// ---------------------------------------------------------------------------------------------
// values

func (r *rd) parseScore(s []byte) float64 {
	f, err := strconv.ParseFloat(string(s), 64)
	if err != nil {
		if ne, ok := err.(*strconv.NumError); !ok || ne.Err != strconv.ErrRange {
			r.fail("score %q is not a number", s)
		}
	}
	return f
}

func (r *rd) noteScore(f float64) {
	switch {
	case math.IsNaN(f):
		r.f.add(fScoreNaN)
	case math.IsInf(f, 1):
		r.f.add(fScoreInf)
	case math.IsInf(f, -1):
		r.f.add(fScoreNegInf)
	}
}

func pairs(r *rd, flat [][]byte, what string) [][2][]byte {
	if len(flat)%2 != 0 {
		r.fail("%s with an odd number of entries (%d)", what, len(flat))
	}
	out := make([][2][]byte, len(flat)/2)
	for i := range out {
		out[i] = [2][]byte{flat[2*i], flat[2*i+1]}
	}
	return out
}

func (r *rd) value(t byte) Value {
	switch t {
	case TypeString:
		return Value{Kind: KindString, Str: r.str()}

	case TypeList:
		n := r.count(1)
		l := make([][]byte, n)
		for i := range l {
			l[i] = r.str()
		}
		return Value{Kind: KindList, List: l}
	case TypeListZiplist:
		return Value{Kind: KindList, List: r.ziplist(r.str())}
	case TypeQuicklist:
		n := r.count(1)
		var l [][]byte
		for i := 0; i < n; i++ {
			l = append(l, r.ziplist(r.str())...)
			r.f.add(fQlZiplist)
		}
		return Value{Kind: KindList, List: l}
	case TypeQuicklist2:
		n := r.count(2)
		var l [][]byte
		for i := 0; i < n; i++ {
			switch c := r.length(); c {
			case 1:
				l = append(l, r.str())
				r.f.add(fQlPlain)
			case 2:
				l = append(l, r.listpack(r.str())...)
				r.f.add(fQlPacked)
			default:
				r.fail("unknown quicklist node container %d", c)
			}
		}
		return Value{Kind: KindList, List: l}

	case TypeSet:
		n := r.count(1)
		s := make([][]byte, n)
		for i := range s {
			s[i] = r.str()
		}
		return Value{Kind: KindSet, Set: s}
	case TypeSetIntset:
		is := r.sub(r.str())
		width := is.le(4)
		n := is.le(4)
		if width != 2 && width != 4 && width != 8 {
			is.fail("intset encoding %d", width)
		}
		if n*width != uint64(is.left()) {
			is.fail("intset of %d x %d bytes, %d present", n, width, is.left())
		}
		s := make([][]byte, n)
		var prev int64
		for i := range s {
			v := signExtend(is.le(int(width)), uint(width*8))
			if i > 0 && v <= prev {
				is.fail("intset not strictly ascending (%d after %d)", v, prev)
			}
			prev = v
			s[i] = strconv.AppendInt(nil, v, 10)
		}
		r.f.add(map[uint64]feature{2: fIntset16, 4: fIntset32, 8: fIntset64}[width])
		return Value{Kind: KindSet, Set: s}
	case TypeSetListpack:
		return Value{Kind: KindSet, Set: r.listpack(r.str())}

	case TypeZSet, TypeZSet2:
		n := r.count(2)
		z := make([]ZMember, n)
		for i := range z {
			z[i].Member = r.str()
			if t == TypeZSet2 {
				z[i].Score = math.Float64frombits(r.le(8))
				r.f.add(fScoreBin)
			} else {
				switch c := r.u8(); c {
				case 253:
					z[i].Score = math.NaN()
				case 254:
					z[i].Score = math.Inf(1)
				case 255:
					z[i].Score = math.Inf(-1)
				default:
					z[i].Score = r.parseScore(r.take(int(c)))
				}
				r.f.add(fScoreAscii)
			}
			r.noteScore(z[i].Score)
		}
		return Value{Kind: KindZSet, ZSet: z}
	case TypeZSetZiplist, TypeZSetListpack:
		var flat [][]byte
		if t == TypeZSetZiplist {
			flat = r.ziplist(r.str())
		} else {
			flat = r.listpack(r.str())
		}
		ps := pairs(r, flat, "sorted set")
		z := make([]ZMember, len(ps))
		for i, p := range ps {
			z[i] = ZMember{Member: p[0], Score: r.parseScore(p[1])}
			r.noteScore(z[i].Score)
		}
		return Value{Kind: KindZSet, ZSet: z}

	case TypeHash:
		n := r.count(2)
		h := make([][2][]byte, n)
		for i := range h {
			h[i][0] = r.str()
			h[i][1] = r.str()
		}
		return Value{Kind: KindHash, Hash: h}
	case TypeHashZiplist:
		return Value{Kind: KindHash, Hash: pairs(r, r.ziplist(r.str()), "hash")}
	case TypeHashListpack:
		return Value{Kind: KindHash, Hash: pairs(r, r.listpack(r.str()), "hash")}
	case TypeHashZipmap:
		return Value{Kind: KindHash, Hash: r.zipmap(r.str())}

	case TypeStreamListpacks, TypeStreamListpacks2, TypeStreamListpacks3, TypeStreamListpacks4:
		return Value{Kind: KindStream, Stream: r.stream(t)}
	}
	r.p--
	r.fail("unsupported value type %d", t)
	return Value{}
}

// zipmap.c: <zmlen> {<len>key <len><free>value<free bytes>}... <0xFF>; len is one byte below 254,
// else the byte 254 followed by a 4-byte little-endian length.  zmlen is exact below 254; a value
// of 254 means "count the entries".
func (r *rd) zipmap(blob []byte) [][2][]byte {
	m := r.sub(blob)
	zmlen := m.u8()
	itemLen := func() int {
		c := m.u8()
		if c < 254 {
			if c == 253 {
				m.f.add(fZmItem253)
			}
			return int(c)
		}
		if c == 255 {
			m.p--
			m.fail("zipmap end marker where a length was expected")
		}
		n := m.le(4)
		if n > uint64(m.left()) {
			m.fail("zipmap item of %d bytes, %d left", n, m.left())
		}
		m.f.add(fZmBigItem)
		return int(n)
	}
	var out [][2][]byte
	for {
		if m.left() < 1 {
			m.fail("zipmap without end marker")
		}
		if m.b[m.p] == 0xFF {
			m.p++
			break
		}
		k := m.take(itemLen())
		vl := itemLen()
		free := int(m.u8())
		v := m.take(vl)
		m.take(free)
		if free > 0 {
			m.f.add(fZmFree)
		}
		out = append(out, [2][]byte{k, v})
	}
	if m.left() != 0 {
		m.fail("%d bytes after the zipmap end marker", m.left())
	}
	switch {
	case zmlen == 255:
		m.fail("zipmap zmlen 255")
	case zmlen == 254:
		m.f.add(fZmBigLen)
	case int(zmlen) != len(out):
		m.fail("zipmap zmlen %d, %d entries present", zmlen, len(out))
	}
	return out
}

func (r *rd) streamID() (ms, seq uint64) {
	ms = r.be(8)
	seq = r.be(8)
	return
}

func (r *rd) stream(t byte) *Stream {
	s := &Stream{}
	nlp := r.count(2)
	if nlp > 1 {
		r.f.add(fStreamMultiLP)
	}
	for i := 0; i < nlp; i++ {
		rk := r.str()
		if len(rk) != 16 {
			r.fail("stream node key of %d bytes", len(rk))
		}
		k := r.sub(rk)
		mms, mseq := k.streamID()
		items := r.listpackItems(r.str())
		pos := 0
		next := func(what string) lpItem {
			if pos >= len(items) {
				r.fail("stream listpack ends inside %s", what)
			}
			pos++
			return items[pos-1]
		}
		nextInt := func(what string) int64 {
			it := next(what)
			if it.isInt {
				return it.v
			}
			// lpGetInteger on a string entry: accept only canonical integers
			v, err := strconv.ParseInt(string(it.s), 10, 64)
			if err != nil || strconv.FormatInt(v, 10) != string(it.s) {
				r.fail("stream listpack: %s is not an integer", what)
			}
			return v
		}
		live := nextInt("count")
		dead := nextInt("deleted")
		nmf := nextInt("num-fields")
		if live < 0 || dead < 0 || nmf < 0 || nmf > int64(len(items)) {
			r.fail("stream listpack master entry out of range")
		}
		mfields := make([][]byte, nmf)
		for j := range mfields {
			mfields[j] = next("master field").bytes()
		}
		if z := next("master terminator"); !z.isInt || z.v != 0 {
			r.fail("stream listpack master entry is not terminated by 0")
		}
		var seenLive, seenDead int64
		ownDiff := false
		for pos < len(items) {
			flags := nextInt("flags")
			if flags&^3 != 0 {
				r.fail("stream entry flags %d", flags)
			}
			msd := nextInt("ms-diff")
			sqd := nextInt("seq-diff")
			if msd < 0 || sqd < 0 {
				r.f.add(fStreamNegDiff)
			}
			en := StreamEntry{MS: mms + uint64(msd), Seq: mseq + uint64(sqd), Deleted: flags&1 != 0}
			var want int64
			if flags&2 != 0 {
				en.Fields = make([][2][]byte, nmf)
				for j := range en.Fields {
					en.Fields[j] = [2][]byte{mfields[j], next("value").bytes()}
				}
				want = nmf + 3
				r.f.add(fStreamSameFields)
				if ownDiff {
					r.f.add(fStreamSameAfterOwn)
				}
			} else {
				nf := nextInt("entry num-fields")
				if nf < 0 || nf > int64(len(items)) {
					r.fail("stream entry with %d fields", nf)
				}
				en.Fields = make([][2][]byte, nf)
				for j := range en.Fields {
					f := next("field").bytes()
					en.Fields[j] = [2][]byte{f, next("value").bytes()}
				}
				want = 2*nf + 4
				r.f.add(fStreamOwnFields)
				if nf != nmf {
					ownDiff = true
				}
			}
			if got := nextInt("lp-count"); got != want {
				r.fail("stream entry lp-count %d, want %d", got, want)
			}
			if en.Deleted {
				seenDead++
				r.f.add(fStreamDeleted)
			} else {
				seenLive++
			}
			s.Entries = append(s.Entries, en)
		}
		if seenLive != live || seenDead != dead {
			r.fail("stream listpack announces %d+%d entries, holds %d+%d", live, dead, seenLive, seenDead)
		}
	}
	s.Length = r.length()
	s.LastMS = r.length()
	s.LastSeq = r.length()
	var liveTotal uint64
	var first *StreamEntry
	for i := range s.Entries {
		if !s.Entries[i].Deleted {
			liveTotal++
			if first == nil {
				first = &s.Entries[i]
			}
		}
	}
	if liveTotal != s.Length {
		r.fail("stream length %d, %d live entries present", s.Length, liveTotal)
	}
	if nlp == 0 {
		r.f.add(fStreamEmpty)
	}
	if t >= TypeStreamListpacks2 {
		s.FirstMS = r.length()
		s.FirstSeq = r.length()
		s.MaxDelMS = r.length()
		s.MaxDelSeq = r.length()
		s.EntriesAdded = r.length()
	} else {
		// what rdbLoadObject derives for a v1 stream
		s.EntriesAdded = s.Length
		if first != nil {
			s.FirstMS, s.FirstSeq = first.MS, first.Seq
		}
	}
	ng := r.count(4)
	for i := 0; i < ng; i++ {
		r.f.add(fStreamGroups)
		g := StreamGroup{Name: r.str()}
		g.LastMS = r.length()
		g.LastSeq = r.length()
		if t >= TypeStreamListpacks2 {
			g.EntriesRead = r.length()
		}
		np := r.count(25)
		g.PEL = make([]StreamPEL, np)
		inPEL := make(map[StreamID]bool, np)
		for j := range g.PEL {
			r.f.add(fStreamPEL)
			pe := &g.PEL[j]
			pe.MS, pe.Seq = r.streamID()
			pe.DeliveryTime = int64(r.le(8))
			pe.DeliveryCount = r.length()
			id := StreamID{pe.MS, pe.Seq}
			if inPEL[id] {
				r.fail("duplicate id %d-%d in group PEL", pe.MS, pe.Seq)
			}
			inPEL[id] = true
		}
		nc := r.count(10)
		g.Consumers = make([]StreamConsumer, nc)
		for j := range g.Consumers {
			c := &g.Consumers[j]
			c.Name = r.str()
			c.SeenTime = int64(r.le(8))
			if t >= TypeStreamListpacks3 {
				c.ActiveTime = int64(r.le(8))
			} else {
				c.ActiveTime = c.SeenTime
			}
			npc := r.count(16)
			c.Pending = make([]StreamID, npc)
			for x := range c.Pending {
				ms, seq := r.streamID()
				c.Pending[x] = StreamID{ms, seq}
				if !inPEL[c.Pending[x]] {
					r.fail("consumer PEL entry %d-%d is not in the group PEL", ms, seq)
				}
			}
		}
		s.Groups = append(s.Groups, g)
	}
	if t >= TypeStreamListpacks4 {
		// UNVERIFIED layout (mirrors the tool's reader)
		r.f.add(fStreamIDMP)
		im := &StreamIDMP{}
		im.Duration = r.length()
		im.MaxEntries = r.length()
		np := r.count(2)
		for i := 0; i < np; i++ {
			pr := StreamProducer{ID: r.str()}
			ne := r.count(3)
			for j := 0; j < ne; j++ {
				ie := StreamIIDEntry{IID: r.str()}
				ie.MS = r.length()
				ie.Seq = r.length()
				pr.Entries = append(pr.Entries, ie)
			}
			im.Producers = append(im.Producers, pr)
		}
		im.IIDsAdded = r.length()
		im.IIDsDuplicates = r.length()
		s.IDMP = im
	}
	return s
}

// ---------------------------------------------------------------------------------------------
// entry points

// DecodeValue decodes one serialised value of the given type; the whole input must be consumed.
func DecodeValue(typeByte byte, valueBytes []byte) (v Value, features []string, err error) {
	defer catch(&err)
	var f featSet
	r := &rd{b: valueBytes, f: &f}
	v = r.value(typeByte)
	if r.left() != 0 {
		return Value{}, nil, ErrTrailing
	}
	return v, f.names(), nil
}

// DecodeDump opens a DUMP payload: type ‖ value ‖ version(LE16) ‖ CRC64(LE64).  It fails on a bad
// checksum, on a version newer than MaxRDBVersion, on a malformed value and on bytes left over
// between the value and the footer.
func DecodeDump(payload []byte) (v Value, typeByte byte, ver uint16, err error) {
	if len(payload) < 11 {
		return Value{}, 0, 0, &DecodeError{Off: 0, Msg: "DUMP payload shorter than type+footer"}
	}
	n := len(payload)
	ver = uint16(payload[n-10]) | uint16(payload[n-9])<<8
	typeByte = payload[0]
	var crc uint64
	for i := 0; i < 8; i++ {
		crc |= uint64(payload[n-8+i]) << (8 * uint(i))
	}
	if CRC64(0, payload[:n-8]) != crc {
		return Value{}, typeByte, ver, ErrChecksum
	}
	if ver > MaxRDBVersion {
		return Value{}, typeByte, ver, ErrVersion
	}
	v, _, err = DecodeValue(typeByte, payload[1:n-10])
	return v, typeByte, ver, err
}

// DecodeFile parses a complete RDB file and verifies the CRC64 footer when it is non-zero.
func DecodeFile(file []byte) ([]Key, error) {
	fi, err := DecodeFileInfo(file)
	if err != nil {
		return nil, err
	}
	return fi.Keys, nil
}

func DecodeFileInfo(file []byte) (fi *FileInfo, err error) {
	defer catch(&err)
	var f featSet
	r := &rd{b: file, f: &f}
	hdr := r.take(9)
	if !bytes.Equal(hdr[:5], []byte("REDIS")) {
		r.p = 0
		r.fail("bad magic %q", hdr[:5])
	}
	ver := 0
	for _, c := range hdr[5:] {
		if c < '0' || c > '9' {
			r.p = 5
			r.fail("bad version %q", hdr[5:])
		}
		ver = ver*10 + int(c-'0')
	}
	if ver < 1 || ver > MaxRDBVersion {
		return nil, ErrVersion
	}
	fi = &FileInfo{Version: ver}
	db := 0
	var pend Key // opcodes collected for the next key
	f = featSet{}
	for {
		op := r.u8()
		switch op {
		case OpAux:
			k := r.str()
			v := r.str()
			fi.Aux = append(fi.Aux, [2][]byte{k, v})
			f = featSet{}
		case OpFunction2:
			fstart := r.p
			fi.Functions = append(fi.Functions, r.str())
			fi.FuncSpans = append(fi.FuncSpans, [2]int{fstart, r.p})
			f = featSet{}
		case OpSelectDB:
			n := r.length()
			if n > math.MaxInt32 {
				r.fail("database number %d", n)
			}
			db = int(n)
			fi.SelectDBs++
			f = featSet{}
		case OpResizeDB:
			r.length()
			r.length()
			fi.ResizeDBs++
			f = featSet{}
		case OpSlotInfo:
			r.length()
			r.length()
			r.length()
			fi.SlotInfos++
			f = featSet{}
		case OpExpireMs:
			pend.ExpireAtMs = int64(r.le(8))
			f.add(fOpExpireMs)
		case OpExpire:
			pend.ExpireAtMs = int64(r.le(4)) * 1000
			f.add(fOpExpireSec)
		case OpIdle:
			pend.Enc.HasIdle, pend.Enc.Idle = true, r.length()
			f.add(fOpIdle)
		case OpFreq:
			pend.Enc.HasFreq, pend.Enc.Freq = true, r.u8()
			f.add(fOpFreq)
		case OpModuleAux, OpFunction, 6, 7:
			r.p--
			r.fail("modules / pre-release functions are not supported by rdbx (opcode %d)", op)
		case OpEOF:
			if pend.ExpireAtMs != 0 || pend.Enc.HasIdle || pend.Enc.HasFreq {
				r.p--
				r.fail("key attributes followed by EOF")
			}
			if ver >= 5 {
				body := r.p
				crc := r.le(8)
				if crc != 0 {
					fi.HasChecksum = true
					if CRC64(0, file[:body]) != crc {
						return nil, ErrChecksum
					}
				}
			}
			if r.left() != 0 {
				r.fail("%d bytes after the end of the file", r.left())
			}
			return fi, nil
		default:
			k := pend
			pend = Key{}
			k.DB = db
			fi.KeyOffsets = append(fi.KeyOffsets, r.p-1)
			k.Key = r.str()
			vstart := r.p
			k.Value = r.value(op)
			fi.ValueSpans = append(fi.ValueSpans, [2]int{vstart, r.p})
			k.Enc.Type = op
			k.Enc.Observed = f.names()
			f = featSet{}
			fi.Keys = append(fi.Keys, k)
		}
	}
}
