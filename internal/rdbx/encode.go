package rdbx

import (
	"encoding/binary"
	"fmt"
	"math"
	"sort"
	"strconv"
)

// Serialized describes where and how one key was written by EncodeFile.
type Serialized struct {
	TypeByte    byte     // type code actually used (== Key.Enc.Type unless the value cannot be represented that way)
	ValueBytes  []byte   // exact serialisation of the value: the bytes after type byte and key name; what DUMP frames
	Offset      int      // offset in the file of the key's record: its first EXPIRETIME/IDLE/FREQ opcode, else the type byte
	Len         int      // length of the record (opcodes + type byte + key name + value)
	TypeOffset  int      // offset of the type byte
	ValueOffset int      // offset of the first value byte
	Features    []string // sorted format features emitted for this record (same vocabulary as Encoding.Observed)
}

// FileOptions are the file-level knobs of EncodeFile.  Nothing is added implicitly: a version 6
// file with Aux set will contain AUX opcodes (the loader does not care; generators should not).
type FileOptions struct {
	Version        int         // header REDIS00vv; 0 means 9
	Aux            [][2]string // AUX fields, written in order right after the header
	Functions      [][]byte    // FUNCTION2 payloads (library source), written after AUX
	ResizeDB       bool        // RESIZEDB after every SELECTDB
	SlotInfo       bool        // SLOT_INFO (0xf4) before every key (Redis 7.4+/8 cluster files)
	SelectEveryKey bool        // SELECTDB before every key instead of only when the DB changes
	NoSelectDB0    bool        // do not emit the initial SELECTDB when the first key is in DB 0
	NoChecksum     bool        // write 8 zero bytes instead of the CRC64 ("checksum disabled")
}

// DefaultAux returns AUX fields like the ones a Redis of that RDB version writes.
func DefaultAux(version int) [][2]string {
	if version < 7 {
		return nil
	}
	ver := map[int]string{7: "3.2.13", 8: "4.0.14", 9: "5.0.14", 10: "7.0.15", 11: "7.2.4", 12: "7.4.2", 13: "8.2.1"}[version]
	aux := [][2]string{{"redis-ver", ver}, {"redis-bits", "64"}, {"ctime", "1711009626"}, {"used-mem", "1000368"}}
	if version >= 8 {
		aux = append(aux, [2]string{"repl-stream-db", "0"}, [2]string{"repl-id", "4ecc5b13427774e6359e61924899e5f63668c3de"}, [2]string{"repl-offset", "0"})
	}
	if version >= 9 {
		aux = append(aux, [2]string{"aof-preamble", "0"})
	}
	return aux
}

// ---------------------------------------------------------------------------------------------
// low-level writer

type wr struct {
	b    []byte
	f    featSet
	lenf LenForm
}

func (w *wr) length(n uint64) {
	switch {
	case n < 1<<6 && w.lenf == LenMin:
		w.b = append(w.b, byte(n))
		w.f.add(fRdbLen6)
	case n < 1<<14 && w.lenf <= Len14:
		w.b = append(w.b, 0x40|byte(n>>8), byte(n))
		w.f.add(fRdbLen14)
	case n <= math.MaxUint32 && w.lenf <= Len32:
		w.b = append(w.b, 0x80, byte(n>>24), byte(n>>16), byte(n>>8), byte(n))
		w.f.add(fRdbLen32)
	default:
		w.b = append(w.b, 0x81, byte(n>>56), byte(n>>48), byte(n>>40), byte(n>>32), byte(n>>24), byte(n>>16), byte(n>>8), byte(n))
		w.f.add(fRdbLen64)
	}
}

func (w *wr) raw(s []byte) {
	w.length(uint64(len(s)))
	w.b = append(w.b, s...)
	w.f.add(fRdbRaw)
}

func (w *wr) u64le(v uint64) {
	w.b = binary.LittleEndian.AppendUint64(w.b, v)
}

// tryInt writes s as an integer-encoded string object if it is a canonical integer in int32 range
// (rdbTryIntegerEncoding: at most 11 characters, representation round-trips exactly).
func (w *wr) tryInt(s []byte, minBytes uint8) bool {
	if len(s) > 11 {
		return false
	}
	v, ok := canonInt(s)
	if !ok || v < math.MinInt32 || v > math.MaxInt32 {
		return false
	}
	switch {
	case v >= math.MinInt8 && v <= math.MaxInt8 && minBytes <= 1:
		w.b = append(w.b, 0xC0, byte(v))
		w.f.add(fRdbInt8)
	case v >= math.MinInt16 && v <= math.MaxInt16 && minBytes <= 2:
		w.b = append(w.b, 0xC1, byte(v), byte(v>>8))
		w.f.add(fRdbInt16)
	default:
		w.b = append(w.b, 0xC2, byte(v), byte(v>>8), byte(v>>16), byte(v>>24))
		w.f.add(fRdbInt32)
	}
	return true
}

func (w *wr) lzf(s []byte, mode LZFMode) {
	c := LZFCompressMode(s, mode)
	w.b = append(w.b, 0xC3)
	w.length(uint64(len(c)))
	w.length(uint64(len(s)))
	w.b = append(w.b, c...)
	w.f.add(fRdbLZF)
}

// str writes one RDB string object.
func (w *wr) str(s []byte, mode StrMode, e *Encoding) {
	switch mode {
	case StrInt:
		if w.tryInt(s, e.StrIntWidth) {
			return
		}
	case StrLZF:
		min := e.LZFMin
		if min < 1 {
			min = 1
		}
		if len(s) >= min {
			w.lzf(s, e.LZF)
			return
		}
	case StrAuto:
		if w.tryInt(s, e.StrIntWidth) {
			return
		}
		if len(s) > 20 {
			if c := LZFCompressMode(s, e.LZF); len(c) < len(s)-4 {
				w.b = append(w.b, 0xC3)
				w.length(uint64(len(c)))
				w.length(uint64(len(s)))
				w.b = append(w.b, c...)
				w.f.add(fRdbLZF)
				return
			}
		}
	}
	w.raw(s)
}

func (w *wr) blob(s []byte, e *Encoding) {
	if e.BlobLZF && len(s) > 0 {
		w.lzf(s, e.LZF)
		return
	}
	w.raw(s)
}

// canonInt reports whether s is the canonical decimal representation of an int64 (what
// string2ll accepts: no leading zeros, no '+', no "-0", no spaces).
func canonInt(s []byte) (int64, bool) {
	n := len(s)
	if n == 0 || n > 20 {
		return 0, false
	}
	if n == 1 && s[0] == '0' {
		return 0, true
	}
	i := 0
	neg := false
	if s[0] == '-' {
		neg = true
		i = 1
		if n == 1 {
			return 0, false
		}
	}
	if s[i] < '1' || s[i] > '9' {
		return 0, false
	}
	var v uint64
	for ; i < n; i++ {
		c := s[i]
		if c < '0' || c > '9' {
			return 0, false
		}
		if v > math.MaxUint64/10 {
			return 0, false
		}
		v *= 10
		d := uint64(c - '0')
		if v > math.MaxUint64-d {
			return 0, false
		}
		v += d
	}
	if neg {
		if v > 1<<63 {
			return 0, false
		}
		return -int64(v), true // also right for v == 1<<63
	}
	if v > math.MaxInt64 {
		return 0, false
	}
	return int64(v), true
}

// ---------------------------------------------------------------------------------------------
// ziplist builder (ziplist.c)
//
//	<zlbytes u32le> <zltail u32le> <zllen u16le> <entry>... <0xFF>
//	entry = <prevlen: 1 byte if < 254, else 0xFE + u32le> <encoding> <payload>

type zlBuilder struct {
	b       []byte
	prevLen int
	lastOff int
	n       int
	e       *Encoding
	f       *featSet
}

func newZl(e *Encoding, f *featSet, hint int) *zlBuilder {
	return &zlBuilder{b: make([]byte, 10, 16+hint), e: e, f: f}
}

func (z *zlBuilder) add(s []byte) {
	start := len(z.b)
	if z.prevLen < 254 && !z.e.PrevLen5 {
		z.b = append(z.b, byte(z.prevLen))
		z.f.add(fZlPrev1)
	} else {
		z.b = append(z.b, 0xFE, byte(z.prevLen), byte(z.prevLen>>8), byte(z.prevLen>>16), byte(z.prevLen>>24))
		z.f.add(fZlPrev5)
	}
	isInt := false
	if !z.e.NoInt {
		if v, ok := canonInt(s); ok {
			isInt = true
			z.int(v)
		}
	}
	if !isInt {
		n := len(s)
		switch {
		case n < 1<<6 && z.e.Hdr == HdrMin:
			z.b = append(z.b, byte(n))
			z.f.add(fZlStr6)
		case n < 1<<14 && z.e.Hdr <= HdrMid:
			z.b = append(z.b, 0x40|byte(n>>8), byte(n))
			z.f.add(fZlStr14)
		default:
			z.b = append(z.b, 0x80, byte(n>>24), byte(n>>16), byte(n>>8), byte(n))
			z.f.add(fZlStr32)
		}
		z.b = append(z.b, s...)
	}
	z.prevLen = len(z.b) - start
	z.lastOff = start
	z.n++
}

func posneg(v int64, pos, neg feature) feature {
	if v < 0 {
		return neg
	}
	return pos
}

func (z *zlBuilder) int(v int64) {
	w := z.e.IntWidth
	switch {
	case v >= 0 && v <= 12 && w == WAuto:
		z.b = append(z.b, 0xF1+byte(v))
		z.f.add(fZlImm4)
	case v >= math.MinInt8 && v <= math.MaxInt8 && w <= W8:
		z.b = append(z.b, 0xFE, byte(v))
		z.f.add(posneg(v, fZlInt8Pos, fZlInt8Neg))
	case v >= math.MinInt16 && v <= math.MaxInt16 && w <= W16:
		z.b = append(z.b, 0xC0, byte(v), byte(v>>8))
		z.f.add(posneg(v, fZlInt16Pos, fZlInt16Neg))
	case v >= -(1<<23) && v <= 1<<23-1 && w <= W24:
		z.b = append(z.b, 0xF0, byte(v), byte(v>>8), byte(v>>16))
		z.f.add(posneg(v, fZlInt24Pos, fZlInt24Neg))
	case v >= math.MinInt32 && v <= math.MaxInt32 && w <= W32:
		z.b = append(z.b, 0xD0, byte(v), byte(v>>8), byte(v>>16), byte(v>>24))
		z.f.add(posneg(v, fZlInt32Pos, fZlInt32Neg))
	default:
		z.b = append(z.b, 0xE0)
		z.b = binary.LittleEndian.AppendUint64(z.b, uint64(v))
		z.f.add(posneg(v, fZlInt64Pos, fZlInt64Neg))
	}
}

func (z *zlBuilder) finish() []byte {
	z.b = append(z.b, 0xFF)
	binary.LittleEndian.PutUint32(z.b[0:], uint32(len(z.b)))
	tail := z.lastOff
	if z.n == 0 {
		tail = 10
	}
	binary.LittleEndian.PutUint32(z.b[4:], uint32(tail))
	cnt := z.n
	if cnt >= 65535 || z.e.LenUnknown {
		cnt = 65535
		z.f.add(fZlLenUnknown)
	}
	binary.LittleEndian.PutUint16(z.b[8:], uint16(cnt))
	return z.b
}

// ---------------------------------------------------------------------------------------------
// listpack builder (listpack.c)
//
//	<total-bytes u32le> <num-elements u16le> <entry>... <0xFF>
//	entry = <encoding+payload> <backlen: size of encoding+payload, 7 bits per byte, read backwards>

type lpBuilder struct {
	b []byte
	n int
	e *Encoding
	f *featSet
}

func newLp(e *Encoding, f *featSet, hint int) *lpBuilder {
	return &lpBuilder{b: make([]byte, 6, 16+hint), e: e, f: f}
}

// lpBacklenSize mirrors lpEncodeBacklen: note the strict "<" from the second step on.
func lpBacklenSize(l int) int {
	switch {
	case l <= 127:
		return 1
	case l < 16383:
		return 2
	case l < 2097151:
		return 3
	case l < 268435455:
		return 4
	}
	return 5
}

func appendLpBacklen(b []byte, l int) []byte {
	u := uint64(l)
	switch lpBacklenSize(l) {
	case 1:
		return append(b, byte(u))
	case 2:
		return append(b, byte(u>>7), byte(u&127)|128)
	case 3:
		return append(b, byte(u>>14), byte((u>>7)&127)|128, byte(u&127)|128)
	case 4:
		return append(b, byte(u>>21), byte((u>>14)&127)|128, byte((u>>7)&127)|128, byte(u&127)|128)
	}
	return append(b, byte(u>>28), byte((u>>21)&127)|128, byte((u>>14)&127)|128, byte((u>>7)&127)|128, byte(u&127)|128)
}

func (l *lpBuilder) backlen(start int) {
	el := len(l.b) - start
	l.f.add(fLpBack1 + feature(lpBacklenSize(el)-1))
	l.b = appendLpBacklen(l.b, el)
	l.n++
}

// addInt appends an integer element using the smallest width that is at least min.
func (l *lpBuilder) addInt(v int64, min IntWidth) {
	start := len(l.b)
	switch {
	case v >= 0 && v <= 127 && min == WAuto:
		l.b = append(l.b, byte(v))
		l.f.add(fLpUint7)
	case v >= -4096 && v <= 4095 && min <= W13:
		u := uint16(v) & 0x1FFF // two's complement in 13 bits
		l.b = append(l.b, 0xC0|byte(u>>8), byte(u))
		l.f.add(posneg(v, fLpInt13Pos, fLpInt13Neg))
	case v >= math.MinInt16 && v <= math.MaxInt16 && min <= W16:
		l.b = append(l.b, 0xF1, byte(v), byte(v>>8))
		l.f.add(posneg(v, fLpInt16Pos, fLpInt16Neg))
	case v >= -(1<<23) && v <= 1<<23-1 && min <= W24:
		l.b = append(l.b, 0xF2, byte(v), byte(v>>8), byte(v>>16))
		l.f.add(posneg(v, fLpInt24Pos, fLpInt24Neg))
	case v >= math.MinInt32 && v <= math.MaxInt32 && min <= W32:
		l.b = append(l.b, 0xF3, byte(v), byte(v>>8), byte(v>>16), byte(v>>24))
		l.f.add(posneg(v, fLpInt32Pos, fLpInt32Neg))
	default:
		l.b = append(l.b, 0xF4)
		l.b = binary.LittleEndian.AppendUint64(l.b, uint64(v))
		l.f.add(posneg(v, fLpInt64Pos, fLpInt64Neg))
	}
	l.backlen(start)
}

func (l *lpBuilder) addStr(s []byte) {
	start := len(l.b)
	n := len(s)
	switch {
	case n < 1<<6 && l.e.Hdr == HdrMin:
		l.b = append(l.b, 0x80|byte(n))
		l.f.add(fLpStr6)
	case n < 1<<12 && l.e.Hdr <= HdrMid:
		l.b = append(l.b, 0xE0|byte(n>>8), byte(n))
		l.f.add(fLpStr12)
	default:
		l.b = append(l.b, 0xF0, byte(n), byte(n>>8), byte(n>>16), byte(n>>24))
		l.f.add(fLpStr32)
	}
	l.b = append(l.b, s...)
	l.backlen(start)
}

// add appends an element the way lpAppend does: as an integer when it is a canonical one.
func (l *lpBuilder) add(s []byte) {
	if !l.e.NoInt {
		if v, ok := canonInt(s); ok {
			l.addInt(v, l.e.IntWidth)
			return
		}
	}
	l.addStr(s)
}

func (l *lpBuilder) finish(allowUnknown bool) []byte {
	l.b = append(l.b, 0xFF)
	binary.LittleEndian.PutUint32(l.b[0:], uint32(len(l.b)))
	cnt := l.n
	if cnt >= 65535 || (allowUnknown && l.e.LenUnknown) {
		cnt = 65535
		l.f.add(fLpLenUnknown)
	}
	binary.LittleEndian.PutUint16(l.b[4:], uint16(cnt))
	return l.b
}

// ---------------------------------------------------------------------------------------------
// scores

// scoreText is the textual form of a score stored inside a ziplist/listpack or in the ZSET (type 3)
// ascii form: integers as integers, everything else with 17 significant digits (round-trips).
func scoreText(f float64) []byte {
	switch {
	case math.IsNaN(f):
		return []byte("nan")
	case math.IsInf(f, 1):
		return []byte("inf")
	case math.IsInf(f, -1):
		return []byte("-inf")
	case f == 0:
		if math.Signbit(f) {
			return []byte("-0")
		}
		return []byte("0")
	}
	if f == math.Trunc(f) && math.Abs(f) < 1<<53 {
		return strconv.AppendInt(nil, int64(f), 10)
	}
	return strconv.AppendFloat(nil, f, 'g', 17, 64)
}

func scoreFeature(f *featSet, s float64) {
	switch {
	case math.IsNaN(s):
		f.add(fScoreNaN)
	case math.IsInf(s, 1):
		f.add(fScoreInf)
	case math.IsInf(s, -1):
		f.add(fScoreNegInf)
	}
}

func sortedZSet(zs []ZMember) []ZMember {
	out := make([]ZMember, len(zs))
	copy(out, zs)
	sort.SliceStable(out, func(i, j int) bool {
		a, b := out[i].Score, out[j].Score
		an, bn := math.IsNaN(a), math.IsNaN(b)
		if an || bn {
			if an != bn {
				return bn // NaN last
			}
			return string(out[i].Member) < string(out[j].Member)
		}
		if a != b {
			return a < b
		}
		return string(out[i].Member) < string(out[j].Member)
	})
	return out
}

// ---------------------------------------------------------------------------------------------
// values

// EncodeValue serialises one value as the given encoding asks and returns the type code used, the
// value bytes and the features emitted.  If the value cannot be represented in e.Type (wrong kind,
// non-integer member for an intset, ...) the plainest encoding of the value's kind is used.
func EncodeValue(v Value, e Encoding) (typeByte byte, valueBytes []byte, features []string) {
	w := &wr{lenf: e.Len}
	t := encodeValue(w, &v, &e)
	return t, w.b, w.f.names()
}

func encodeValue(w *wr, v *Value, e *Encoding) byte {
	t := e.Type
	if k, ok := KindOfType(t); !ok || k != v.Kind {
		t = map[Kind]byte{KindString: TypeString, KindList: TypeList, KindSet: TypeSet, KindZSet: TypeZSet2, KindHash: TypeHash, KindStream: TypeStreamListpacks}[v.Kind]
	}
	switch v.Kind {
	case KindString:
		w.str(v.Str, e.Str, e)
	case KindList:
		encodeList(w, v.List, t, e)
	case KindSet:
		t = encodeSet(w, v.Set, t, e)
	case KindZSet:
		encodeZSet(w, v.ZSet, t, e)
	case KindHash:
		encodeHash(w, v.Hash, t, e)
	case KindStream:
		s := v.Stream
		if s == nil {
			s = &Stream{}
		}
		encodeStream(w, s, t, e)
	}
	return t
}

func sumLen(xs [][]byte) int {
	n := 0
	for _, x := range xs {
		n += len(x) + 11
	}
	return n
}

func encodeList(w *wr, l [][]byte, t byte, e *Encoding) {
	switch t {
	case TypeList:
		w.length(uint64(len(l)))
		for _, x := range l {
			w.str(x, e.Str, e)
		}
	case TypeListZiplist:
		z := newZl(e, &w.f, sumLen(l))
		for _, x := range l {
			z.add(x)
		}
		w.blob(z.finish(), e)
	case TypeQuicklist:
		nodes := splitNodes(len(l), e.NodeSize)
		w.length(uint64(len(nodes)))
		for _, nd := range nodes {
			z := newZl(e, &w.f, sumLen(l[nd[0]:nd[1]]))
			for _, x := range l[nd[0]:nd[1]] {
				z.add(x)
			}
			w.blob(z.finish(), e)
			w.f.add(fQlZiplist)
		}
	case TypeQuicklist2:
		// plan the nodes first: PLAIN nodes hold exactly one (large) element
		type node struct {
			plain    bool
			from, to int
		}
		var nodes []node
		per := e.NodeSize
		cur := -1
		for i, x := range l {
			if e.PlainMin > 0 && len(x) >= e.PlainMin {
				nodes = append(nodes, node{true, i, i + 1})
				cur = -1
				continue
			}
			if cur >= 0 && (per <= 0 || nodes[cur].to-nodes[cur].from < per) {
				nodes[cur].to = i + 1
				continue
			}
			nodes = append(nodes, node{false, i, i + 1})
			cur = len(nodes) - 1
		}
		w.length(uint64(len(nodes)))
		for _, nd := range nodes {
			if nd.plain {
				w.length(1) // QUICKLIST_NODE_CONTAINER_PLAIN
				w.blob(l[nd.from], e)
				w.f.add(fQlPlain)
				continue
			}
			w.length(2) // QUICKLIST_NODE_CONTAINER_PACKED
			p := newLp(e, &w.f, sumLen(l[nd.from:nd.to]))
			for _, x := range l[nd.from:nd.to] {
				p.add(x)
			}
			w.blob(p.finish(true), e)
			w.f.add(fQlPacked)
		}
	}
}

func splitNodes(n, per int) [][2]int {
	if n == 0 {
		return nil
	}
	if per <= 0 || per >= n {
		return [][2]int{{0, n}}
	}
	var out [][2]int
	for i := 0; i < n; i += per {
		j := i + per
		if j > n {
			j = n
		}
		out = append(out, [2]int{i, j})
	}
	return out
}

func encodeSet(w *wr, s [][]byte, t byte, e *Encoding) byte {
	if t == TypeSetIntset {
		vals := make([]int64, 0, len(s))
		for _, x := range s {
			v, ok := canonInt(x)
			if !ok {
				t = TypeSet
				break
			}
			vals = append(vals, v)
		}
		if t == TypeSetIntset {
			sort.Slice(vals, func(i, j int) bool { return vals[i] < vals[j] })
			width := 2
			if e.IntsetWidth == 4 || e.IntsetWidth == 8 {
				width = e.IntsetWidth
			}
			uniq := vals[:0]
			for i, v := range vals {
				if i > 0 && v == vals[i-1] {
					continue
				}
				uniq = append(uniq, v)
				if (v < math.MinInt32 || v > math.MaxInt32) && width < 8 {
					width = 8
				} else if (v < math.MinInt16 || v > math.MaxInt16) && width < 4 {
					width = 4
				}
			}
			b := make([]byte, 8, 8+width*len(uniq))
			binary.LittleEndian.PutUint32(b[0:], uint32(width))
			binary.LittleEndian.PutUint32(b[4:], uint32(len(uniq)))
			for _, v := range uniq {
				switch width {
				case 2:
					b = append(b, byte(v), byte(v>>8))
				case 4:
					b = append(b, byte(v), byte(v>>8), byte(v>>16), byte(v>>24))
				default:
					b = binary.LittleEndian.AppendUint64(b, uint64(v))
				}
			}
			w.f.add(map[int]feature{2: fIntset16, 4: fIntset32, 8: fIntset64}[width])
			w.blob(b, e)
			return t
		}
	}
	switch t {
	case TypeSetListpack:
		p := newLp(e, &w.f, sumLen(s))
		for _, x := range s {
			p.add(x)
		}
		w.blob(p.finish(true), e)
	default:
		t = TypeSet
		w.length(uint64(len(s)))
		for _, x := range s {
			w.str(x, e.Str, e)
		}
	}
	return t
}

func encodeZSet(w *wr, zs []ZMember, t byte, e *Encoding) {
	for _, m := range zs {
		scoreFeature(&w.f, m.Score)
	}
	switch t {
	case TypeZSet:
		w.length(uint64(len(zs)))
		for _, m := range zs {
			w.str(m.Member, e.Str, e)
			switch {
			case math.IsNaN(m.Score):
				w.b = append(w.b, 253)
			case math.IsInf(m.Score, 1):
				w.b = append(w.b, 254)
			case math.IsInf(m.Score, -1):
				w.b = append(w.b, 255)
			default:
				txt := scoreText(m.Score)
				w.b = append(w.b, byte(len(txt)))
				w.b = append(w.b, txt...)
			}
			w.f.add(fScoreAscii)
		}
	case TypeZSet2:
		w.length(uint64(len(zs)))
		for _, m := range zs {
			w.str(m.Member, e.Str, e)
			w.u64le(math.Float64bits(m.Score))
			w.f.add(fScoreBin)
		}
	case TypeZSetZiplist:
		z := newZl(e, &w.f, len(zs)*24)
		for _, m := range sortedZSet(zs) {
			z.add(m.Member)
			z.add(scoreText(m.Score))
		}
		w.blob(z.finish(), e)
	case TypeZSetListpack:
		p := newLp(e, &w.f, len(zs)*24)
		for _, m := range sortedZSet(zs) {
			p.add(m.Member)
			p.add(scoreText(m.Score))
		}
		w.blob(p.finish(true), e)
	}
}

func encodeHash(w *wr, h [][2][]byte, t byte, e *Encoding) {
	switch t {
	case TypeHash:
		w.length(uint64(len(h)))
		for _, p := range h {
			w.str(p[0], e.Str, e)
			w.str(p[1], e.Str, e)
		}
	case TypeHashZiplist:
		z := newZl(e, &w.f, len(h)*24)
		for _, p := range h {
			z.add(p[0])
			z.add(p[1])
		}
		w.blob(z.finish(), e)
	case TypeHashListpack:
		l := newLp(e, &w.f, len(h)*24)
		for _, p := range h {
			l.add(p[0])
			l.add(p[1])
		}
		w.blob(l.finish(true), e)
	case TypeHashZipmap:
		// zipmap.c: <zmlen> { <len>field <len><free>value<free bytes> }... 0xFF
		//   len: 1 byte if < 254, else 254 + u32 (little endian on every supported platform)
		b := make([]byte, 0, 2+len(h)*24)
		if len(h) < 254 && !e.ZipmapBigLen {
			b = append(b, byte(len(h)))
		} else {
			b = append(b, 254)
			w.f.add(fZmBigLen)
		}
		zmLen := func(n int) {
			if n < 254 {
				b = append(b, byte(n))
				if n == 253 {
					w.f.add(fZmItem253)
				}
				return
			}
			b = append(b, 254, byte(n), byte(n>>8), byte(n>>16), byte(n>>24))
			w.f.add(fZmBigItem)
		}
		free := e.ZipmapFree
		if free < 0 || free > 4 {
			free = 0
		}
		for _, p := range h {
			zmLen(len(p[0]))
			b = append(b, p[0]...)
			zmLen(len(p[1]))
			b = append(b, byte(free))
			b = append(b, p[1]...)
			for i := 0; i < free; i++ {
				b = append(b, 0xFF-byte(i&1)) // leftovers: deliberately look like end / big-len markers
			}
			if free > 0 {
				w.f.add(fZmFree)
			}
		}
		b = append(b, 0xFF)
		w.blob(b, e)
	}
}

func sameFieldNames(a, b [][2][]byte) bool {
	if len(a) != len(b) {
		return false
	}
	for i := range a {
		if string(a[i][0]) != string(b[i][0]) {
			return false
		}
	}
	return true
}

func encodeStream(w *wr, s *Stream, t byte, e *Encoding) {
	nodes := splitNodes(len(s.Entries), e.NodeSize)
	w.length(uint64(len(nodes)))
	if len(nodes) > 1 {
		w.f.add(fStreamMultiLP)
	}
	if len(s.Entries) == 0 {
		w.f.add(fStreamEmpty)
	}
	for _, nd := range nodes {
		ents := s.Entries[nd[0]:nd[1]]
		master := ents[0]
		var id [16]byte
		binary.BigEndian.PutUint64(id[0:], master.MS)
		binary.BigEndian.PutUint64(id[8:], master.Seq)
		w.raw(id[:])

		// The structural integers are always written by lpAppendInteger (smallest width); only
		// field names and values go through the element options.
		p := newLp(e, &w.f, len(ents)*32)
		var live, dead int64
		for _, en := range ents {
			if en.Deleted {
				dead++
			} else {
				live++
			}
		}
		p.addInt(live, WAuto)
		p.addInt(dead, WAuto)
		p.addInt(int64(len(master.Fields)), WAuto)
		for _, fv := range master.Fields {
			p.add(fv[0])
		}
		p.addInt(0, WAuto)
		ownDiff := false // an entry with its own, differently sized field list came earlier in this listpack
		for _, en := range ents {
			same := !e.NoSameFields && sameFieldNames(en.Fields, master.Fields)
			if same && ownDiff {
				w.f.add(fStreamSameAfterOwn)
			}
			if !same && len(en.Fields) != len(master.Fields) {
				ownDiff = true
			}
			var flags int64
			if en.Deleted {
				flags |= 1
				w.f.add(fStreamDeleted)
			}
			if same {
				flags |= 2
			}
			p.addInt(flags, WAuto)
			msd := int64(en.MS - master.MS)
			sqd := int64(en.Seq - master.Seq)
			if msd < 0 || sqd < 0 {
				w.f.add(fStreamNegDiff)
			}
			p.addInt(msd, WAuto)
			p.addInt(sqd, WAuto)
			nf := int64(len(en.Fields))
			if same {
				for _, fv := range en.Fields {
					p.add(fv[1])
				}
				p.addInt(nf+3, WAuto)
				w.f.add(fStreamSameFields)
			} else {
				p.addInt(nf, WAuto)
				for _, fv := range en.Fields {
					p.add(fv[0])
					p.add(fv[1])
				}
				p.addInt(2*nf+4, WAuto)
				w.f.add(fStreamOwnFields)
			}
		}
		w.blob(p.finish(false), e)
	}
	w.length(s.Length)
	w.length(s.LastMS)
	w.length(s.LastSeq)
	if t >= TypeStreamListpacks2 {
		w.length(s.FirstMS)
		w.length(s.FirstSeq)
		w.length(s.MaxDelMS)
		w.length(s.MaxDelSeq)
		w.length(s.EntriesAdded)
	}
	w.length(uint64(len(s.Groups)))
	for gi := range s.Groups {
		g := &s.Groups[gi]
		w.f.add(fStreamGroups)
		w.str(g.Name, e.Str, e)
		w.length(g.LastMS)
		w.length(g.LastSeq)
		if t >= TypeStreamListpacks2 {
			w.length(g.EntriesRead)
		}
		w.length(uint64(len(g.PEL)))
		for _, pe := range g.PEL {
			w.f.add(fStreamPEL)
			var id [16]byte
			binary.BigEndian.PutUint64(id[0:], pe.MS)
			binary.BigEndian.PutUint64(id[8:], pe.Seq)
			w.b = append(w.b, id[:]...)
			w.u64le(uint64(pe.DeliveryTime))
			w.length(pe.DeliveryCount)
		}
		w.length(uint64(len(g.Consumers)))
		for ci := range g.Consumers {
			c := &g.Consumers[ci]
			w.str(c.Name, e.Str, e)
			w.u64le(uint64(c.SeenTime))
			if t >= TypeStreamListpacks3 {
				w.u64le(uint64(c.ActiveTime))
			}
			w.length(uint64(len(c.Pending)))
			for _, pid := range c.Pending {
				var id [16]byte
				binary.BigEndian.PutUint64(id[0:], pid.MS)
				binary.BigEndian.PutUint64(id[8:], pid.Seq)
				w.b = append(w.b, id[:]...)
			}
		}
	}
	if t >= TypeStreamListpacks4 {
		// UNVERIFIED layout, mirrors /repo/pkg/rdb StreamParser.readStreamIDMP.
		im := s.IDMP
		if im == nil {
			im = &StreamIDMP{}
		}
		w.f.add(fStreamIDMP)
		w.length(im.Duration)
		w.length(im.MaxEntries)
		w.length(uint64(len(im.Producers)))
		for _, pr := range im.Producers {
			w.str(pr.ID, e.Str, e)
			w.length(uint64(len(pr.Entries)))
			for _, ie := range pr.Entries {
				w.str(ie.IID, e.Str, e)
				w.length(ie.MS)
				w.length(ie.Seq)
			}
		}
		w.length(im.IIDsAdded)
		w.length(im.IIDsDuplicates)
	}
}

// ---------------------------------------------------------------------------------------------
// files and DUMP payloads

// EncodeFile writes a complete RDB file.  Keys are written in the given order; a SELECTDB is
// emitted whenever the DB changes.  perKey[i] describes keys[i].
func EncodeFile(keys []Key, opt FileOptions) (file []byte, perKey []Serialized) {
	ver := opt.Version
	if ver == 0 {
		ver = 9
	}
	size := 64
	for i := range keys {
		size += len(keys[i].Key) + 32
	}
	w := &wr{b: make([]byte, 0, size*2)}
	w.b = append(w.b, fmt.Sprintf("REDIS%04d", ver)...)
	auxEnc := &Encoding{}
	for _, a := range opt.Aux {
		w.b = append(w.b, OpAux)
		w.str([]byte(a[0]), StrInt, auxEnc)
		w.str([]byte(a[1]), StrInt, auxEnc)
	}
	for _, fn := range opt.Functions {
		w.b = append(w.b, OpFunction2)
		w.raw(fn)
	}
	dbSize := map[int]int{}
	dbExp := map[int]int{}
	for i := range keys {
		dbSize[keys[i].DB]++
		if keys[i].ExpireAtMs != 0 {
			dbExp[keys[i].DB]++
		}
	}
	perKey = make([]Serialized, len(keys))
	curDB := -1
	if opt.NoSelectDB0 {
		curDB = 0
	}
	for i := range keys {
		k := &keys[i]
		w.lenf = LenMin
		if k.DB != curDB || opt.SelectEveryKey {
			w.b = append(w.b, OpSelectDB)
			w.length(uint64(k.DB))
			if opt.ResizeDB {
				w.b = append(w.b, OpResizeDB)
				w.length(uint64(dbSize[k.DB]))
				w.length(uint64(dbExp[k.DB]))
			}
			curDB = k.DB
		}
		if opt.SlotInfo {
			w.b = append(w.b, OpSlotInfo)
			w.length(uint64(keySlot(k.Key)))
			w.length(1)
			if k.ExpireAtMs != 0 {
				w.length(1)
			} else {
				w.length(0)
			}
		}
		w.f = featSet{}
		s := &perKey[i]
		s.Offset = len(w.b)
		e := &k.Enc
		if k.ExpireAtMs != 0 {
			if e.ExpireSec && k.ExpireAtMs%1000 == 0 && k.ExpireAtMs > 0 && k.ExpireAtMs/1000 <= math.MaxUint32 {
				sec := uint32(k.ExpireAtMs / 1000)
				w.b = append(w.b, OpExpire, byte(sec), byte(sec>>8), byte(sec>>16), byte(sec>>24))
				w.f.add(fOpExpireSec)
			} else {
				w.b = append(w.b, OpExpireMs)
				w.u64le(uint64(k.ExpireAtMs))
				w.f.add(fOpExpireMs)
			}
		}
		if e.HasIdle {
			w.b = append(w.b, OpIdle)
			w.length(e.Idle)
			w.f.add(fOpIdle)
		}
		if e.HasFreq {
			w.b = append(w.b, OpFreq, e.Freq)
			w.f.add(fOpFreq)
		}
		s.TypeOffset = len(w.b)
		w.b = append(w.b, 0) // type byte, patched below
		w.lenf = e.Len
		w.str(k.Key, e.KeyStr, e)
		s.ValueOffset = len(w.b)
		s.TypeByte = encodeValue(w, &k.Value, e)
		w.b[s.TypeOffset] = s.TypeByte
		s.Len = len(w.b) - s.Offset
		s.Features = w.f.names()
	}
	w.b = append(w.b, OpEOF)
	if opt.NoChecksum {
		w.b = append(w.b, 0, 0, 0, 0, 0, 0, 0, 0)
	} else {
		w.u64le(CRC64(0, w.b))
	}
	for i := range perKey {
		s := &perKey[i]
		s.ValueBytes = w.b[s.ValueOffset : s.Offset+s.Len : s.Offset+s.Len]
	}
	return w.b, perKey
}

// DumpPayload frames a serialised value the way DUMP does (and RESTORE expects):
// type ‖ value ‖ rdb-version (LE16) ‖ CRC64 of everything before it (LE64).
func DumpPayload(typeByte byte, valueBytes []byte, rdbVersion uint16) []byte {
	b := make([]byte, 0, len(valueBytes)+11)
	b = append(b, typeByte)
	b = append(b, valueBytes...)
	b = append(b, byte(rdbVersion), byte(rdbVersion>>8))
	return binary.LittleEndian.AppendUint64(b, CRC64(0, b))
}
