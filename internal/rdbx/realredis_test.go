package rdbx

import (
	"bytes"
	"crypto/md5"
	"encoding/hex"
	"fmt"
	"sort"
	"strconv"
	"strings"
	"testing"
)

// (b) The only bytes written by a real Redis that exist offline are the fixture files embedded in
// /repo/pkg/rdb/loader_test.go and /repo/pkg/store/rdb_reader_test.go (Redis 4.0.0, 4.0.8, 5.0.14,
// 7.0.1, 7.0.12, 7.2.0).  The decoder must read them — with every strict structural check and the
// CRC64 footer — to the contents those tests document, and the encoder, asked for the same
// encoding, must reproduce the value bytes exactly wherever no LZF stream is involved (LZF output
// depends on the compressor's match finder, so there only decode(encode) is compared).

func intStrs(n int) []string {
	out := make([]string, n)
	for i := range out {
		out[i] = strconv.Itoa(i)
	}
	return out
}

func aStrs(n int) []string {
	out := make([]string, n)
	for i := range out {
		out[i] = "a_" + strconv.Itoa(i)
	}
	return out
}

func longStrs(n int) []string {
	out := make([]string, n)
	for i := range out {
		out[i] = fmt.Sprintf("524544495330303038fa0972656469732d76657205342e302e30fa02e30fa0fa%d", i)
	}
	return out
}

func bs(ss []string) [][]byte {
	out := make([][]byte, len(ss))
	for i, s := range ss {
		out[i] = []byte(s)
	}
	return out
}

func selfHash(ss []string) [][2][]byte {
	out := make([][2][]byte, len(ss))
	for i, s := range ss {
		out[i] = [2][]byte{[]byte(s), []byte(s)}
	}
	return out
}

func scoresZ(n int) []ZMember {
	out := make([]ZMember, n)
	for i := range out {
		out[i] = ZMember{[]byte("a_" + strconv.Itoa(i)), float64(i)}
	}
	return out
}

type wantKey struct {
	key      string
	db       int
	typ      byte
	expire   int64 // exact, or (with expireGE) a lower bound
	expireGE bool
	val      Value
	check    func(t *testing.T, v Value)
}

func streamFixture(ids [2]string, group string, pend map[string]string) func(t *testing.T, v Value) {
	return func(t *testing.T, v Value) {
		s := v.Stream
		if len(s.Entries) != 2 || s.Length != 2 {
			t.Fatalf("stream: %d entries", len(s.Entries))
		}
		for i, e := range s.Entries {
			if got := fmt.Sprintf("%d-%d", e.MS, e.Seq); got != ids[i] {
				t.Fatalf("stream entry %d id %s, want %s", i, got, ids[i])
			}
			if len(e.Fields) != 5 || e.Deleted {
				t.Fatalf("stream entry %d: %d fields, deleted %v", i, len(e.Fields), e.Deleted)
			}
			for j, fv := range e.Fields {
				if string(fv[0]) != fmt.Sprintf("msg%d", j+1) || string(fv[1]) != fmt.Sprintf("value%d", j+1) {
					t.Fatalf("stream entry %d pair %d: %q=%q", i, j, fv[0], fv[1])
				}
			}
		}
		if got := fmt.Sprintf("%d-%d", s.LastMS, s.LastSeq); got != ids[1] {
			t.Fatalf("stream last id %s", got)
		}
		if len(s.Groups) != 1 || string(s.Groups[0].Name) != group {
			t.Fatalf("stream groups %+v", s.Groups)
		}
		g := s.Groups[0]
		if got := fmt.Sprintf("%d-%d", g.LastMS, g.LastSeq); got != ids[1] {
			t.Fatalf("group last id %s", got)
		}
		got := map[string]string{}
		for _, c := range g.Consumers {
			for _, p := range c.Pending {
				got[fmt.Sprintf("%d-%d", p.MS, p.Seq)] = string(c.Name)
			}
		}
		if fmt.Sprint(got) != fmt.Sprint(pend) || len(g.PEL) != len(pend) {
			t.Fatalf("pending %v (PEL %d), want %v", got, len(g.PEL), pend)
		}
		for _, pe := range g.PEL {
			if pe.DeliveryCount != 1 || pe.DeliveryTime < 1711009000000 || pe.DeliveryTime > 1711010000000 {
				t.Fatalf("PEL entry %+v", pe)
			}
		}
		if len(g.Consumers) != 2 {
			t.Fatalf("%d consumers", len(g.Consumers))
		}
	}
}

func TestRealRedisFixtures(t *testing.T) {
	str := func(s string) Value { return Value{Kind: KindString, Str: []byte(s)} }
	list := func(ss []string) Value { return Value{Kind: KindList, List: bs(ss)} }
	set := func(ss []string) Value { return Value{Kind: KindSet, Set: bs(ss)} }
	hash := func(ss []string) Value { return Value{Kind: KindHash, Hash: selfHash(ss)} }
	zset := func(n int) Value { return Value{Kind: KindZSet, ZSet: scoresZ(n)} }

	var intStringKeys []wantKey
	for _, v := range []int64{1, 255, 256, 65535, 65536, 2147483647, 2147483648, 4294967295, 4294967296, -2147483648} {
		s := strconv.FormatInt(v, 10)
		intStringKeys = append(intStringKeys, wantKey{key: "string_" + s, typ: TypeString, val: str(s)})
	}
	ids5 := []string{"1711009626969-0", "1711009626969-1", "1711009626969-0", "1711009626969-1"}
	ids7 := []string{"1711009690684-0", "1711009690684-1", "1711009690685-0", "1711009690685-1"}
	streams := func(ids []string, typ byte) []wantKey {
		return []wantKey{
			{key: "mq1", typ: typ, check: streamFixture([2]string{ids[0], ids[1]}, "mq1g1", map[string]string{ids[1]: "c2"})},
			{key: "mq2", typ: typ, check: streamFixture([2]string{ids[2], ids[3]}, "mq2g1", map[string]string{ids[2]: "c1", ids[3]: "c2"})},
		}
	}

	want := map[string][]wantKey{
		"stringTestSuite.TestIntString#0": intStringKeys,
		"stringTestSuite.TestStringTTL#0": {{key: "string_ttl", typ: TypeString, expire: 1711010302000, val: str("string_ttl")}},
		"listTestSuite.TestQuicklist2#0":  {{key: "listi", typ: TypeQuicklist2, val: list(intStrs(1))}},
		// the two 100-element quicklist2 files really hold 101 elements: the first value was pushed twice
		// when the fixture was recorded (the repo's test de-duplicates through a map and does not notice)
		"listTestSuite.TestQuicklist2#1":               {{key: "listi", typ: TypeQuicklist2, val: list(append([]string{"0"}, intStrs(100)...))}},
		"listTestSuite.TestQuicklist2#2":               {{key: "listi", typ: TypeQuicklist2, val: list(aStrs(1))}},
		"listTestSuite.TestQuicklist2#3":               {{key: "listi", typ: TypeQuicklist2, val: list(append([]string{"a_0"}, aStrs(100)...))}},
		"listTestSuite.TestQuicklist#0":                {{key: "listi", typ: TypeQuicklist, val: list(intStrs(1))}},
		"listTestSuite.TestQuicklist#1":                {{key: "listi", typ: TypeQuicklist, val: list(intStrs(100))}},
		"listTestSuite.TestQuicklist#2":                {{key: "listi", typ: TypeQuicklist, val: list(aStrs(1))}},
		"listTestSuite.TestQuicklist#3":                {{key: "listi", typ: TypeQuicklist, val: list(aStrs(100))}},
		"setTestSuite.TestRdb8#0":                      {{key: "test_set_key", typ: TypeSetIntset, val: set(intStrs(100))}},
		"setTestSuite.TestRdb8#1":                      {{key: "test_set_key", typ: TypeSet, val: set(aStrs(100))}},
		"setTestSuite.TestRdb8#2":                      {{key: "test_set_key", typ: TypeSetIntset, val: set(intStrs(256))}},
		"setTestSuite.TestRdb8#3":                      {{key: "test_set_key", typ: TypeSet, val: set(aStrs(256))}},
		"setTestSuite.TestRdb8#4":                      {{key: "test_set_key", typ: TypeSet, val: set(intStrs(513))}},
		"setTestSuite.TestRdb11#0":                     {{key: "test_set_key", typ: TypeSetListpack, val: set(aStrs(1))}},
		"setTestSuite.TestRdb11#1":                     {{key: "test_set_key", typ: TypeSetListpack, val: set(aStrs(100))}},
		"setTestSuite.TestRdb11#2":                     {{key: "test_set_key", typ: TypeSet, val: set(aStrs(129))}},
		"hashTestSuite.TestHashRdb11#0":                {{key: "test_hash_key", typ: TypeHash, val: hash(longStrs(2))}},
		"hashTestSuite.TestHashRdb11#1":                {{key: "test_hash_key", typ: TypeHashListpack, val: hash(aStrs(4))}},
		"hashTestSuite.TestHashRdb11#2":                {{key: "test_hash_key", typ: TypeHashListpack, val: hash(aStrs(128))}},
		"hashTestSuite.TestHashRdb11HashMaxBinEntry#0": {{key: "test_hash_key", typ: TypeHash, val: hash(longStrs(4))}},
		"hashTestSuite.TestHashRdb8#0":                 {{key: "test_hash_key", typ: TypeHashZiplist, val: hash(aStrs(4))}},
		"hashTestSuite.TestHashRdb8#1":                 {{key: "test_hash_key", typ: TypeHash, val: hash(longStrs(2))}},
		"hashTestSuite.TestHincrby#0": {{key: "k2", typ: TypeHashZiplist,
			val: Value{Kind: KindHash, Hash: [][2][]byte{{[]byte("f1"), []byte("44467")}}}}},
		"zsetTestSuite.TestZsetRdb8#0":    {{key: "test_zset_key", typ: TypeZSetZiplist, val: zset(4)}},
		"zsetTestSuite.TestZsetRdb8#1":    {{key: "test_zset_key", typ: TypeZSet2, val: zset(129)}},
		"zsetTestSuite.TestZsetRdb11#0":   {{key: "test_zset_key", typ: TypeZSetListpack, val: zset(4)}},
		"zsetTestSuite.TestZsetRdb11#1":   {{key: "test_zset_key", typ: TypeZSet2, val: zset(129)}},
		"streamTestSuite.TestStream#0":    streams(ids5, TypeStreamListpacks),
		"streamTestSuite.TestStream#1":    streams(ids7, TypeStreamListpacks2),
		"flagTestSuite.TestExpireFlag#0":  {{key: "testKeyExpire", typ: TypeString, expire: 1702965348639, expireGE: true, val: str("testKeyExpire")}},
		"flagTestSuite.TestSelectFlag#0":  {{key: "testKeyInDb0", db: 0, typ: TypeString, val: str("testKeyInDb0")}, {key: "testKeyInDb1", db: 1, typ: TypeString, val: str("testKeyInDb1")}},
		"functionTestSuite.TestRdb11#0":   nil, // whatever keys are there; the function is checked below
		"rdbReaderTestSuite.SetupSuite#0": {{key: "strint_ttl", typ: TypeString, expire: -1, val: str("strint_ttl")}},
	}

	seenFeat := map[string]bool{}
	exact, lzfKeys, exactInflated := 0, 0, 0
	for _, fx := range realRedisFixtures {
		file, err := hex.DecodeString(fx.Hex)
		if err != nil {
			t.Fatalf("%s: %v", fx.Name, err)
		}
		fi, err := DecodeFileInfo(file)
		if err != nil {
			t.Errorf("%s: %v", fx.Name, err)
			continue
		}
		// one fixture (Redis 4.0.8, HINCRBY) was saved with rdbchecksum off: footer of 8 zero bytes
		if fi.HasChecksum == (fx.Name == "hashTestSuite.TestHincrby#0") {
			t.Errorf("%s: checksum present = %v", fx.Name, fi.HasChecksum)
		}
		if len(fi.Aux) < 4 || string(fi.Aux[0][0]) != "redis-ver" {
			t.Errorf("%s: aux %q", fx.Name, fi.Aux)
		}
		wk, known := want[fx.Name]
		if !known {
			t.Errorf("%s: no expectation written for this fixture", fx.Name)
			continue
		}
		byName := map[string]int{}
		for i, k := range fi.Keys {
			byName[string(k.Key)] = i
		}
		if wk != nil && len(fi.Keys) != len(wk) {
			t.Errorf("%s: %d keys, want %d", fx.Name, len(fi.Keys), len(wk))
		}
		for _, w := range wk {
			i, ok := byName[w.key]
			if !ok {
				t.Errorf("%s: key %q missing", fx.Name, w.key)
				continue
			}
			k := fi.Keys[i]
			if k.DB != w.db || k.Enc.Type != w.typ {
				t.Errorf("%s %q: db %d type %d, want db %d type %d", fx.Name, w.key, k.DB, k.Enc.Type, w.db, w.typ)
			}
			switch {
			case w.expire == -1:
				if k.ExpireAtMs < 1700000000000 || k.ExpireAtMs > 1800000000000 {
					t.Errorf("%s %q: expire %d", fx.Name, w.key, k.ExpireAtMs)
				}
			case w.expireGE:
				if k.ExpireAtMs < w.expire || k.ExpireAtMs > w.expire+60000 {
					t.Errorf("%s %q: expire %d, want >= %d", fx.Name, w.key, k.ExpireAtMs, w.expire)
				}
			case k.ExpireAtMs != w.expire:
				t.Errorf("%s %q: expire %d, want %d", fx.Name, w.key, k.ExpireAtMs, w.expire)
			}
			if w.check != nil {
				w.check(t, k.Value)
			} else if ok, why := Equal(w.val, k.Value); !ok {
				t.Errorf("%s %q: %s", fx.Name, w.key, why)
			}
			if k.Value.Kind == KindList { // the tests only check membership; the push order is documented too
				for j, el := range k.Value.List {
					if !bytes.Equal(el, w.val.List[j]) {
						t.Errorf("%s: list order", fx.Name)
						break
					}
				}
			}
		}
		// encoder against the real bytes
		for i, k := range fi.Keys {
			orig := file[fi.ValueSpans[i][0]:fi.ValueSpans[i][1]]
			hasLZF := false
			for _, f := range k.Enc.Observed {
				seenFeat[f] = true
				hasLZF = hasLZF || f == "rdb:lzf"
			}
			e := Encoding{Type: k.Enc.Type, Str: StrAuto, BlobLZF: hasLZF}
			_, re, _ := EncodeValue(k.Value, e)
			if !hasLZF {
				if !bytes.Equal(re, orig) {
					t.Errorf("%s %q: re-encoded value differs from Redis' bytes\n got %x\nwant %x", fx.Name, k.Key, clip(re), clip(orig))
				} else {
					exact++
				}
			} else {
				lzfKeys++
				// take the LZF layer off Redis' bytes (every compressed string re-written raw, all else
				// verbatim) and compare with the encoder's uncompressed output: byte-identical
				flat := inflate(t, k.Enc.Type, orig)
				_, plain, _ := EncodeValue(k.Value, Encoding{Type: k.Enc.Type, Str: StrInt})
				if !bytes.Equal(plain, flat) {
					t.Errorf("%s %q: uncompressed re-encoding differs from Redis' inflated bytes\n got %x\nwant %x", fx.Name, k.Key, clip(plain), clip(flat))
				} else {
					exactInflated++
				}
				v, _, err := DecodeValue(k.Enc.Type, re)
				if err != nil {
					t.Errorf("%s %q: %v", fx.Name, k.Key, err)
				} else if ok, why := EqualDeep(k.Value, v); !ok {
					t.Errorf("%s %q: %s", fx.Name, k.Key, why)
				}
			}
		}
		if fx.Name == "functionTestSuite.TestRdb11#0" || strings.HasPrefix(fx.Name, "setTestSuite.TestRdb11") {
			if len(fi.Functions) != 1 || !bytes.HasPrefix(fi.Functions[0], []byte("#!lua name=mylib")) {
				t.Errorf("%s: functions %q", fx.Name, fi.Functions)
			}
		}
		if fx.Name == "functionTestSuite.TestRdb11#0" {
			// the repo's test documents md5(type ‖ serialised function) of the FUNCTION RESTORE payload
			sp := fi.FuncSpans[0]
			sum := md5.Sum(append([]byte{OpFunction2}, file[sp[0]:sp[1]]...))
			if hex.EncodeToString(sum[:]) != "cbdcfcdecce621f25d5d3f4489193633" {
				t.Errorf("function payload md5 %x", sum)
			}
		}
		// whole-file re-encode of the decoded content must decode to the same thing again
		re, _ := EncodeFile(fi.Keys, FileOptions{Version: fi.Version})
		again, err := DecodeFile(re)
		if err != nil || len(again) != len(fi.Keys) {
			t.Errorf("%s: re-encoded file: %v", fx.Name, err)
		}
	}
	var feats []string
	for f := range seenFeat {
		feats = append(feats, f)
	}
	sort.Strings(feats)
	t.Logf("%d fixtures; %d values re-encoded byte-identically; %d more contain LZF, of which %d are byte-identical once the LZF layer is removed",
		len(realRedisFixtures), exact, lzfKeys, exactInflated)
	if exactInflated != lzfKeys {
		t.Errorf("some LZF values did not match")
	}
	t.Logf("format features present in real-Redis bytes: %s", strings.Join(feats, " "))
}

// inflate rewrites a serialised value so that every LZF string becomes a raw string; everything
// else is copied verbatim.
func inflate(t *testing.T, typ byte, b []byte) []byte {
	var f featSet
	r := &rd{b: b, f: &f}
	w := &wr{}
	str := func() {
		if r.b[r.p] == 0xC3 {
			w.raw(r.str())
			return
		}
		at := r.p
		r.str()
		w.b = append(w.b, r.b[at:r.p]...)
	}
	n := func() int {
		at := r.p
		v := r.length()
		w.b = append(w.b, r.b[at:r.p]...)
		return int(v)
	}
	switch typ {
	case TypeString, TypeHashZipmap, TypeListZiplist, TypeSetIntset, TypeZSetZiplist, TypeHashZiplist, TypeHashListpack, TypeZSetListpack, TypeSetListpack:
		str()
	case TypeList, TypeSet, TypeQuicklist:
		for c := n(); c > 0; c-- {
			str()
		}
	case TypeHash:
		for c := n(); c > 0; c-- {
			str()
			str()
		}
	case TypeZSet2:
		for c := n(); c > 0; c-- {
			str()
			w.b = append(w.b, r.take(8)...)
		}
	case TypeQuicklist2:
		for c := n(); c > 0; c-- {
			n()
			str()
		}
	case TypeStreamListpacks, TypeStreamListpacks2, TypeStreamListpacks3:
		for c := n(); c > 0; c-- {
			str()
			str()
		}
		w.b = append(w.b, r.take(r.left())...)
	default:
		t.Fatalf("inflate: type %d", typ)
	}
	if r.left() != 0 {
		t.Fatalf("inflate: %d bytes left", r.left())
	}
	return w.b
}
