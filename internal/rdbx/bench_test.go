package rdbx

import (
	"math/rand"
	"testing"
)

func benchSets() [][]Key {
	rng := rand.New(rand.NewSource(7))
	var sets [][]Key
	for len(sets) < 100 {
		ds := GenDataset(rng, GenOptions{NumKeys: 10, MinValueBytes: 300})
		f, _ := EncodeFile(ds, FileOptions{Version: 13})
		if len(f) < 3000 || len(f) > 6000 {
			continue
		}
		sets = append(sets, ds)
	}
	return sets
}

func BenchmarkEncode4K(b *testing.B) {
	sets := benchSets()
	b.ResetTimer()
	for i := 0; i < b.N; i++ {
		EncodeFile(sets[i%len(sets)], FileOptions{Version: 13})
	}
}

func BenchmarkDecode4K(b *testing.B) {
	sets := benchSets()
	var files [][]byte
	for _, s := range sets {
		f, _ := EncodeFile(s, FileOptions{Version: 13})
		files = append(files, f)
	}
	b.ResetTimer()
	for i := 0; i < b.N; i++ {
		if _, err := DecodeFile(files[i%len(files)]); err != nil {
			b.Fatal(err)
		}
	}
}

func BenchmarkGen(b *testing.B) {
	rng := rand.New(rand.NewSource(1))
	for i := 0; i < b.N; i++ {
		GenDataset(rng, GenOptions{})
	}
}
