// Package rdbx is an independent Redis RDB / DUMP-payload encoder and decoder.  It exists only as
// an oracle for the runtime monitors in /verif: it is written from the Redis on-disk format
// (rdb.c, ziplist.c, listpack.c, intset.c, zipmap.c, t_stream.c, lzf) and shares no code with the
// program under test.  The encoder and the decoder are written separately (encode.go /
// decode.go) and only share the data model, the checksum and the LZF routines.  Nothing outside
// the _test.go files imports /repo.
//
// How far the format knowledge is validated (see the tests):
//   - against bytes written by real Redis servers 4.0/5.0/7.0/7.2 (the 35 fixture files embedded in
//     the repo's own tests): the strict decoder reads all of them, CRC64 included, to the documented
//     contents, and the encoder reproduces all 46 values in them byte for byte (after removing the
//     LZF layer where Redis compressed).  That covers: file framing, AUX, SELECTDB, RESIZEDB,
//     EXPIRETIME_MS, FUNCTION2, the crc=0 form, int8/16/32 and LZF strings, 6/14/64-bit lengths,
//     intset 16, ziplist (imm4, int8+, int24+, 6-bit strings), listpack (uint7, 6-bit strings,
//     1-byte back-length), quicklist v1/v2 (packed), ZSET_2, hash table/ziplist/listpack, stream
//     listpacks v1 and v2 with groups, PEL and consumers.
//   - from the Redis sources only (known-answer vectors in the tests, no real bytes available
//     offline): the remaining ziplist/listpack integer widths and signs, wide string headers,
//     multi-byte back-lengths, 5-byte prevlen, unknown-length headers, zipmap, ZSET (ascii scores),
//     intset 32/64, PLAIN quicklist nodes, stream deleted entries / own-field entries / v3
//     active-time, EXPIRETIME (seconds), IDLE, FREQ.
//   - UNVERIFIED, mirrors what /repo expects and nothing more: stream listpacks "v4" (type code 26
//     and the IDMP tail) and the SLOT_INFO opcode (0xf4 + three lengths).  Checks should not build
//     verdicts on them.
package rdbx

import (
	"sort"
	"strings"
)

// Kind is the logical Redis type of a value.
type Kind int

const (
	KindString Kind = iota
	KindList
	KindSet
	KindZSet
	KindHash
	KindStream
)

func (k Kind) String() string {
	switch k {
	case KindString:
		return "string"
	case KindList:
		return "list"
	case KindSet:
		return "set"
	case KindZSet:
		return "zset"
	case KindHash:
		return "hash"
	case KindStream:
		return "stream"
	}
	return "kind?"
}

// RDB value type codes (rdb.h).
const (
	TypeString           byte = 0
	TypeList             byte = 1
	TypeSet              byte = 2
	TypeZSet             byte = 3
	TypeHash             byte = 4
	TypeZSet2            byte = 5
	TypeHashZipmap       byte = 9
	TypeListZiplist      byte = 10
	TypeSetIntset        byte = 11
	TypeZSetZiplist      byte = 12
	TypeHashZiplist      byte = 13
	TypeQuicklist        byte = 14
	TypeStreamListpacks  byte = 15
	TypeHashListpack     byte = 16
	TypeZSetListpack     byte = 17
	TypeQuicklist2       byte = 18
	TypeStreamListpacks2 byte = 19
	TypeSetListpack      byte = 20
	TypeStreamListpacks3 byte = 21
	// TypeStreamListpacks4 is the code /repo/pkg/rdb/const.go uses for "stream listpacks v4 with
	// IDMP state" (RDB 13).  UNVERIFIED against a real Redis 8.x: both the code (26) and the layout
	// of the tail mirror what the tool expects.  Do not build verdicts on it.
	TypeStreamListpacks4 byte = 26
)

// RDB opcodes.
const (
	OpSlotInfo  byte = 0xf4
	OpFunction2 byte = 0xf5
	OpFunction  byte = 0xf6
	OpModuleAux byte = 0xf7
	OpIdle      byte = 0xf8
	OpFreq      byte = 0xf9
	OpAux       byte = 0xfa
	OpResizeDB  byte = 0xfb
	OpExpireMs  byte = 0xfc
	OpExpire    byte = 0xfd
	OpSelectDB  byte = 0xfe
	OpEOF       byte = 0xff
)

// MaxRDBVersion is the newest RDB version rdbx reads and writes.
const MaxRDBVersion = 13

// KindOfType maps an RDB type code to the logical kind.
func KindOfType(t byte) (Kind, bool) {
	switch t {
	case TypeString:
		return KindString, true
	case TypeList, TypeListZiplist, TypeQuicklist, TypeQuicklist2:
		return KindList, true
	case TypeSet, TypeSetIntset, TypeSetListpack:
		return KindSet, true
	case TypeZSet, TypeZSet2, TypeZSetZiplist, TypeZSetListpack:
		return KindZSet, true
	case TypeHash, TypeHashZipmap, TypeHashZiplist, TypeHashListpack:
		return KindHash, true
	case TypeStreamListpacks, TypeStreamListpacks2, TypeStreamListpacks3, TypeStreamListpacks4:
		return KindStream, true
	}
	return 0, false
}

// TypeName is the short name used in coverage signatures.
func TypeName(t byte) string {
	switch t {
	case TypeString:
		return "string"
	case TypeList:
		return "linkedlist"
	case TypeSet:
		return "table"
	case TypeZSet:
		return "zset1"
	case TypeHash:
		return "table"
	case TypeZSet2:
		return "zset2"
	case TypeHashZipmap:
		return "zipmap"
	case TypeListZiplist, TypeZSetZiplist, TypeHashZiplist:
		return "ziplist"
	case TypeSetIntset:
		return "intset"
	case TypeQuicklist:
		return "quicklist"
	case TypeQuicklist2:
		return "quicklist2"
	case TypeHashListpack, TypeZSetListpack, TypeSetListpack:
		return "listpack"
	case TypeStreamListpacks:
		return "listpacks1"
	case TypeStreamListpacks2:
		return "listpacks2"
	case TypeStreamListpacks3:
		return "listpacks3"
	case TypeStreamListpacks4:
		return "listpacks4"
	}
	return "type?"
}

// MinVersionOfType is the first RDB version whose writer could emit the type code.
func MinVersionOfType(t byte) int {
	switch t {
	case TypeQuicklist:
		return 7
	case TypeZSet2:
		return 8
	case TypeStreamListpacks:
		return 9
	case TypeHashListpack, TypeZSetListpack, TypeQuicklist2, TypeStreamListpacks2:
		return 10
	case TypeSetListpack, TypeStreamListpacks3:
		return 11
	case TypeStreamListpacks4:
		return 13
	}
	return 1
}

type ZMember struct {
	Member []byte
	Score  float64
}

type StreamID struct{ MS, Seq uint64 }

func (a StreamID) Less(b StreamID) bool { return a.MS < b.MS || (a.MS == b.MS && a.Seq < b.Seq) }

type StreamEntry struct {
	MS, Seq uint64
	Fields  [][2][]byte
	Deleted bool
}

type StreamPEL struct {
	MS, Seq       uint64
	DeliveryTime  int64
	DeliveryCount uint64
}

type StreamConsumer struct {
	Name                 []byte
	SeenTime, ActiveTime int64
	Pending              []StreamID
}

type StreamGroup struct {
	Name            []byte
	LastMS, LastSeq uint64
	EntriesRead     uint64
	PEL             []StreamPEL
	Consumers       []StreamConsumer
}

// StreamIDMP is the tail of stream listpacks v4 as /repo expects it (see TypeStreamListpacks4).
type StreamIDMP struct {
	Duration, MaxEntries      uint64
	Producers                 []StreamProducer
	IIDsAdded, IIDsDuplicates uint64
}

type StreamProducer struct {
	ID      []byte
	Entries []StreamIIDEntry
}

type StreamIIDEntry struct {
	IID     []byte
	MS, Seq uint64
}

type Stream struct {
	Entries                                              []StreamEntry // in ID order, deleted ones included (flagged)
	LastMS, LastSeq                                      uint64
	FirstMS, FirstSeq, MaxDelMS, MaxDelSeq, EntriesAdded uint64 // v2+
	Length                                               uint64 // number of non-deleted entries
	Groups                                               []StreamGroup
	IDMP                                                 *StreamIDMP // v4 only
}

type Value struct {
	Kind   Kind
	Str    []byte
	List   [][]byte
	Set    [][]byte
	ZSet   []ZMember
	Hash   [][2][]byte
	Stream *Stream
}

type Key struct {
	DB         int
	Key        []byte
	ExpireAtMs int64 // 0 = none
	Value      Value
	Enc        Encoding // how to serialise (encoder) / what was seen (decoder: Type, HasIdle.., Observed)
}

// ---------------------------------------------------------------------------------------------
// Encoding options

// StrMode: how an RDB string object is written (top-level string values, key names, elements of
// the table encodings LIST / SET / ZSET / ZSET_2 / HASH, consumer-group names).
type StrMode uint8

const (
	StrRaw  StrMode = iota // length-prefixed bytes
	StrInt                 // int8/int16/int32 when the bytes are a canonical integer in int32 range, else raw
	StrLZF                 // LZF when len >= max(1,LZFMin), else raw
	StrAuto                // what Redis does: int if possible, else LZF if len > 20 and it shrinks, else raw
)

// LenForm is the minimum width of every RDB length written for the key.
type LenForm uint8

const (
	LenMin LenForm = iota // shortest form (what Redis writes)
	Len14                 // at least the 14-bit form
	Len32                 // at least 0x80 + 4 bytes BE
	Len64                 // always 0x81 + 8 bytes BE
)

// IntWidth is the minimum width of integer entries inside ziplists / listpacks.  Redis always
// writes the smallest; wider forms are legal and were written by older versions (ziplist int16
// for small values before 2.6).
type IntWidth uint8

const (
	WAuto IntWidth = iota // smallest: ziplist 4-bit immediate, listpack 7-bit uint
	W8                    // ziplist: >= int8 (no immediates); listpack: >= 13-bit
	W13                   // listpack: >= 13-bit; ziplist: >= int16
	W16
	W24
	W32
	W64
)

// HdrForm is the minimum width of string headers inside ziplists (6/14/32-bit) and listpacks
// (6/12/32-bit).
type HdrForm uint8

const (
	HdrMin HdrForm = iota
	HdrMid
	HdrBig
)

// Encoding says how one key is serialised.  The zero value of every option is "what Redis does".
type Encoding struct {
	Type  byte   // RDB type code; must match Value.Kind (else the encoder falls back, see Serialized.TypeByte)
	Label string // coverage signature set by GenDataset, e.g. "list/quicklist2/packed/int24-neg"

	Len         LenForm
	Str         StrMode // value of a string key / elements of table encodings
	StrIntWidth uint8   // with StrInt/StrAuto: minimum width in bytes (0/1, 2, 4)
	LZFMin      int     // with StrLZF: compress strings at least this long
	LZF         LZFMode
	KeyStr      StrMode // how the key name is written (StrRaw default)
	BlobLZF     bool    // LZF-compress ziplist / listpack / intset / zipmap blobs

	NoInt      bool     // ziplist/listpack: store canonical integers as strings instead of integers
	IntWidth   IntWidth // ziplist/listpack: minimum integer width
	Hdr        HdrForm  // ziplist/listpack: minimum string header width
	PrevLen5   bool     // ziplist: always use the 5-byte prevlen form
	LenUnknown bool     // ziplist zllen = 65535 / listpack num-elements = 65535 ("must scan")

	NodeSize     int  // quicklist(2): elements per node, stream: entries per listpack (0 = one node)
	PlainMin     int  // quicklist2: elements of at least this length become PLAIN nodes (0 = never)
	IntsetWidth  int  // 0 = smallest, else 2/4/8 minimum bytes per element
	ZipmapFree   int  // zipmap: 0..4 unused bytes after every value
	ZipmapBigLen bool // zipmap: zmlen byte = 254 ("must count")
	NoSameFields bool // stream: never use the SAMEFIELDS compression

	ExpireSec bool // use EXPIRETIME (seconds) when ExpireAtMs is a whole number of seconds
	HasIdle   bool
	Idle      uint64
	HasFreq   bool
	Freq      uint8

	// Observed is filled by the decoder (and by the encoder in Serialized.Features): the sorted
	// list of format features met while reading the key, e.g. "zl:int24-neg", "rdb:lzf".
	Observed []string
}

// Describe returns the coverage signature of the key's encoding.
func (e Encoding) Describe() string {
	if e.Label != "" {
		return e.Label
	}
	k, ok := KindOfType(e.Type)
	if !ok {
		return "unknown/type" + itoa(int(e.Type))
	}
	parts := []string{k.String(), TypeName(e.Type)}
	if e.LenUnknown {
		parts = append(parts, "len-unknown")
	}
	if e.PrevLen5 {
		parts = append(parts, "prevlen5")
	}
	if e.BlobLZF {
		parts = append(parts, "bloblzf")
	}
	switch e.Str {
	case StrInt:
		parts = append(parts, "strint")
	case StrLZF:
		parts = append(parts, "strlzf")
	case StrAuto:
		parts = append(parts, "strauto")
	}
	return strings.Join(parts, "/")
}

func itoa(n int) string {
	if n == 0 {
		return "0"
	}
	neg := n < 0
	if neg {
		n = -n
	}
	var b [20]byte
	i := len(b)
	for n > 0 {
		i--
		b[i] = byte('0' + n%10)
		n /= 10
	}
	if neg {
		i--
		b[i] = '-'
	}
	return string(b[i:])
}

// ---------------------------------------------------------------------------------------------
// Feature sets (what the encoder emitted / the decoder met)

type feature uint8

const (
	fRdbLen6 feature = iota
	fRdbLen14
	fRdbLen32
	fRdbLen64
	fRdbRaw
	fRdbInt8
	fRdbInt16
	fRdbInt32
	fRdbLZF
	fZlImm4
	fZlInt8Pos
	fZlInt8Neg
	fZlInt16Pos
	fZlInt16Neg
	fZlInt24Pos
	fZlInt24Neg
	fZlInt32Pos
	fZlInt32Neg
	fZlInt64Pos
	fZlInt64Neg
	fZlStr6
	fZlStr14
	fZlStr32
	fZlPrev1
	fZlPrev5
	fZlLenUnknown
	fLpUint7
	fLpInt13Pos
	fLpInt13Neg
	fLpInt16Pos
	fLpInt16Neg
	fLpInt24Pos
	fLpInt24Neg
	fLpInt32Pos
	fLpInt32Neg
	fLpInt64Pos
	fLpInt64Neg
	fLpStr6
	fLpStr12
	fLpStr32
	fLpBack1
	fLpBack2
	fLpBack3
	fLpBack4
	fLpBack5
	fLpLenUnknown
	fQlZiplist
	fQlPlain
	fQlPacked
	fIntset16
	fIntset32
	fIntset64
	fZmFree
	fZmBigLen
	fZmBigItem
	fZmItem253
	fScoreAscii
	fScoreBin
	fScoreInf
	fScoreNegInf
	fScoreNaN
	fStreamSameFields
	fStreamOwnFields
	fStreamDeleted
	fStreamGroups
	fStreamPEL
	fStreamMultiLP
	fStreamNegDiff
	fStreamIDMP
	fStreamEmpty
	fStreamSameAfterOwn
	fOpExpireMs
	fOpExpireSec
	fOpIdle
	fOpFreq
	numFeatures
)

var featureNames = [numFeatures]string{
	fRdbLen6: "rdb:len6", fRdbLen14: "rdb:len14", fRdbLen32: "rdb:len32", fRdbLen64: "rdb:len64",
	fRdbRaw: "rdb:raw", fRdbInt8: "rdb:int8", fRdbInt16: "rdb:int16", fRdbInt32: "rdb:int32", fRdbLZF: "rdb:lzf",
	fZlImm4: "zl:imm4", fZlInt8Pos: "zl:int8-pos", fZlInt8Neg: "zl:int8-neg", fZlInt16Pos: "zl:int16-pos",
	fZlInt16Neg: "zl:int16-neg", fZlInt24Pos: "zl:int24-pos", fZlInt24Neg: "zl:int24-neg",
	fZlInt32Pos: "zl:int32-pos", fZlInt32Neg: "zl:int32-neg", fZlInt64Pos: "zl:int64-pos", fZlInt64Neg: "zl:int64-neg",
	fZlStr6: "zl:str6", fZlStr14: "zl:str14", fZlStr32: "zl:str32", fZlPrev1: "zl:prevlen1", fZlPrev5: "zl:prevlen5",
	fZlLenUnknown: "zl:len-unknown",
	fLpUint7:      "lp:uint7", fLpInt13Pos: "lp:int13-pos", fLpInt13Neg: "lp:int13-neg", fLpInt16Pos: "lp:int16-pos",
	fLpInt16Neg: "lp:int16-neg", fLpInt24Pos: "lp:int24-pos", fLpInt24Neg: "lp:int24-neg", fLpInt32Pos: "lp:int32-pos",
	fLpInt32Neg: "lp:int32-neg", fLpInt64Pos: "lp:int64-pos", fLpInt64Neg: "lp:int64-neg",
	fLpStr6: "lp:str6", fLpStr12: "lp:str12", fLpStr32: "lp:str32",
	fLpBack1: "lp:backlen1", fLpBack2: "lp:backlen2", fLpBack3: "lp:backlen3", fLpBack4: "lp:backlen4", fLpBack5: "lp:backlen5",
	fLpLenUnknown: "lp:len-unknown",
	fQlZiplist:    "ql:ziplist", fQlPlain: "ql:plain", fQlPacked: "ql:packed",
	fIntset16: "intset:16", fIntset32: "intset:32", fIntset64: "intset:64",
	fZmFree: "zm:free", fZmBigLen: "zm:biglen", fZmBigItem: "zm:bigitem", fZmItem253: "zm:item253",
	fScoreAscii: "score:ascii", fScoreBin: "score:bin", fScoreInf: "score:inf", fScoreNegInf: "score:-inf", fScoreNaN: "score:nan",
	fStreamSameFields: "stream:samefields", fStreamOwnFields: "stream:ownfields", fStreamDeleted: "stream:deleted",
	fStreamGroups: "stream:groups", fStreamPEL: "stream:pel", fStreamMultiLP: "stream:multi-lp",
	fStreamNegDiff: "stream:negdiff", fStreamIDMP: "stream:idmp", fStreamEmpty: "stream:empty", fStreamSameAfterOwn: "stream:same-after-own",
	fOpExpireMs: "op:expire-ms", fOpExpireSec: "op:expire-s", fOpIdle: "op:idle", fOpFreq: "op:freq",
}

// AllFeatures lists every feature name rdbx can report (for coverage accounting).
func AllFeatures() []string {
	out := make([]string, 0, numFeatures)
	for _, n := range featureNames {
		out = append(out, n)
	}
	sort.Strings(out)
	return out
}

type featSet [2]uint64

func (s *featSet) add(f feature) { s[f>>6] |= 1 << (f & 63) }
func (s featSet) has(f feature) bool {
	return s[f>>6]&(1<<(f&63)) != 0
}
func (s *featSet) merge(o featSet) { s[0] |= o[0]; s[1] |= o[1] }

func (s featSet) names() []string {
	out := make([]string, 0, 8)
	for f := feature(0); f < numFeatures; f++ {
		if s.has(f) {
			out = append(out, featureNames[f])
		}
	}
	sort.Strings(out)
	return out
}
