package rdbx

import (
	"math"
	"math/rand"
	"sort"
	"strconv"
	"strings"
)

// GenOptions steer GenDataset.  The zero value gives small (a few hundred bytes per value),
// boundary-heavy datasets over every kind and every encoding.
type GenOptions struct {
	Version       int      // only type codes a writer of this RDB version could emit are drawn (0 = MaxRDBVersion)
	Kinds         []Kind   // restrict to these kinds (empty = all)
	Types         []byte   // restrict to these RDB type codes (empty = all allowed by Version and Kinds)
	NumKeys       int      // 0 = 1..8
	MinValueBytes int      // collections are grown until their serialisation is at least this long
	MaxElemBytes  int      // upper bound for long elements (default 300; >= 16400 reaches 32-bit ziplist headers and 3-byte listpack back-lengths)
	DBs           []int    // nil = {0}, sometimes {0,1,5,15}
	NowMs         int64    // reference time for TTLs (0 = 1 750 000 000 000)
	NoTTL         bool     // never attach an expiry
	AllowNaN      bool     // allow NaN scores (Redis itself rejects them on load)
	Avoid         []string // re-draw keys whose label or emitted feature set contains one of these substrings
	Plain         bool     // only forms a current Redis writes itself: smallest widths, exact header counts, no forced variants
	IDPrefix      string   // key names are IDPrefix + running number (+ decoration); default "k"
	SafeKeys      bool     // key names limited to printable characters without spaces
	Interleave    bool     // do not group the keys by DB
}

// GenFileOptions draws file-level options suited to the RDB version.
func GenFileOptions(rng *rand.Rand, version int, plain bool) FileOptions {
	fo := FileOptions{Version: version}
	if version >= 7 {
		fo.Aux = DefaultAux(version)
		fo.ResizeDB = plain || rng.Intn(4) != 0
	}
	if version >= 10 && rng.Intn(6) == 0 {
		fo.Functions = [][]byte{[]byte("#!lua name=mylib\nredis.register_function('f" + strconv.Itoa(rng.Intn(1000)) + "', function(keys, args) return args[1] end)")}
	}
	if !plain {
		fo.NoChecksum = rng.Intn(10) == 0
		fo.SelectEveryKey = rng.Intn(10) == 0
		fo.NoSelectDB0 = rng.Intn(10) == 0
		if version >= 12 {
			fo.SlotInfo = rng.Intn(4) == 0
		}
	}
	return fo
}

type gen struct {
	r    *rand.Rand
	o    GenOptions
	seq  int
	elem int
	id   string // id of the key being generated

	isLo, isHi int64 // value range of the intset being generated
}

type intClass struct {
	name   string
	lo, hi int64
}

var zlIntClasses = []intClass{
	{"imm4", 0, 12}, {"int8-pos", 13, 127}, {"int8-neg", -128, -1},
	{"int16-pos", 128, 32767}, {"int16-neg", -32768, -129},
	{"int24-pos", 32768, 8388607}, {"int24-neg", -8388608, -32769},
	{"int32-pos", 8388608, math.MaxInt32}, {"int32-neg", math.MinInt32, -8388609},
	{"int64-pos", math.MaxInt32 + 1, math.MaxInt64}, {"int64-neg", math.MinInt64, math.MinInt32 - 1},
}

var lpIntClasses = []intClass{
	{"uint7", 0, 127}, {"int13-pos", 128, 4095}, {"int13-neg", -4096, -1},
	{"int16-pos", 4096, 32767}, {"int16-neg", -32768, -4097},
	{"int24-pos", 32768, 8388607}, {"int24-neg", -8388608, -32769},
	{"int32-pos", 8388608, math.MaxInt32}, {"int32-neg", math.MinInt32, -8388609},
	{"int64-pos", math.MaxInt32 + 1, math.MaxInt64}, {"int64-neg", math.MinInt64, math.MinInt32 - 1},
}

var rdbIntClasses = []intClass{
	{"int8-pos", 0, 127}, {"int8-neg", -128, -1},
	{"int16-pos", 128, 32767}, {"int16-neg", -32768, -129},
	{"int32-pos", 32768, math.MaxInt32}, {"int32-neg", math.MinInt32, -32769},
	{"intbig-pos", math.MaxInt32 + 1, math.MaxInt64}, {"intbig-neg", math.MinInt64, math.MinInt32 - 1},
}

var nonCanon = []string{"007", "+5", "-0", " 1", "1 ", "1.0", "1e3", "0x10", "00", "-", "--1", "9223372036854775808",
	"-9223372036854775809", "18446744073709551616", "123456789012345678901234567890", "1,000", "١٢٣", "-01", "0.0", "nan", "inf"}

// drawInt picks from [lo,hi] with the ends (and their neighbours) heavily favoured.
func (g *gen) drawInt(lo, hi int64) int64 {
	span := uint64(hi) - uint64(lo) // hi-lo without overflow
	switch g.r.Intn(8) {
	case 0:
		return lo
	case 1:
		return hi
	case 2, 3:
		d := uint64(g.r.Intn(4))
		if d > span {
			d = span
		}
		if g.r.Intn(2) == 0 {
			return lo + int64(d)
		}
		return hi - int64(d)
	}
	if span == math.MaxUint64 {
		return int64(g.r.Uint64())
	}
	// spread over magnitudes rather than uniformly
	u := g.r.Uint64() >> uint(g.r.Intn(64))
	return lo + int64(u%(span+1))
}

func (g *gen) maxElem() int {
	if g.o.MaxElemBytes > 0 {
		return g.o.MaxElemBytes
	}
	return 300
}

var hostileBytes = []byte{'\r', '\n', 0, 0xff, 0xfe, 0xfd, '$', '*', ' ', '"', '\\', 0x80, 0xc0, 0xf0, 0xf1}

func (g *gen) binBytes(n int) []byte {
	b := make([]byte, n)
	for i := range b {
		if g.r.Intn(2) == 0 {
			b[i] = hostileBytes[g.r.Intn(len(hostileBytes))]
		} else {
			b[i] = byte(g.r.Intn(256))
		}
	}
	return b
}

// sized returns n bytes that start with a unique tag (when they fit) followed by filler that is
// either compressible or random.
func (g *gen) sized(n int, compressible bool) []byte {
	g.elem++
	tag := g.id + "." + strconv.Itoa(g.elem) + ":"
	b := make([]byte, 0, n)
	if len(tag) <= n {
		b = append(b, tag...)
	}
	if compressible {
		pat := g.binBytes(1 + g.r.Intn(9))
		for len(b) < n {
			b = append(b, pat...)
		}
		return b[:n]
	}
	rest := make([]byte, n-len(b))
	g.r.Read(rest)
	return append(b, rest...)
}

func (g *gen) shortStr() []byte {
	g.elem++
	return []byte("v" + g.id + "." + strconv.Itoa(g.elem))
}

type elemClass struct {
	name string
	gen  func(g *gen) []byte
}

func intElem(c intClass) elemClass {
	return elemClass{c.name, func(g *gen) []byte { return strconv.AppendInt(nil, g.drawInt(c.lo, c.hi), 10) }}
}

// element classes for a family: "zl" (ziplist), "lp" (listpack), "rdb" (table encodings), "zm" (zipmap)
func (g *gen) classes(fam string) []elemClass {
	var cs []elemClass
	switch fam {
	case "zl":
		for _, c := range zlIntClasses {
			cs = append(cs, intElem(c))
		}
	case "lp":
		for _, c := range lpIntClasses {
			cs = append(cs, intElem(c))
		}
	default:
		for _, c := range rdbIntClasses {
			cs = append(cs, intElem(c))
		}
	}
	max := g.maxElem()
	cs = append(cs,
		elemClass{"str-empty", func(g *gen) []byte { return []byte{} }},
		elemClass{"str-short", func(g *gen) []byte { return g.shortStr() }},
		elemClass{"str-bin", func(g *gen) []byte { return g.binBytes(1 + g.r.Intn(24)) }},
		elemClass{"str-crlf", func(g *gen) []byte { return append(g.shortStr(), "\r\n$3\r\nfoo\r\n"...) }},
		elemClass{"noncanon", func(g *gen) []byte { return []byte(nonCanon[g.r.Intn(len(nonCanon))]) }},
		elemClass{"str-63", func(g *gen) []byte { return g.sized(63, g.r.Intn(2) == 0) }},
		elemClass{"str-64", func(g *gen) []byte { return g.sized(64, g.r.Intn(2) == 0) }},
	)
	if max >= 128 {
		// 127/128: listpack back-length 1→2 bytes; 253/254: ziplist prevlen 1→5 bytes, zipmap 1→5 byte item length
		cs = append(cs, elemClass{"str-edge128", func(g *gen) []byte { return g.sized(124+g.r.Intn(6), g.r.Intn(2) == 0) }})
	}
	if max >= 260 {
		cs = append(cs, elemClass{"str-edge254", func(g *gen) []byte { return g.sized(249+g.r.Intn(8), g.r.Intn(2) == 0) }})
		cs = append(cs, elemClass{"str-long", func(g *gen) []byte {
			hi := max
			if hi > 2000 {
				hi = 2000
			}
			return g.sized(256+g.r.Intn(hi-255), g.r.Intn(2) == 0)
		}})
	}
	if max >= 4100 {
		cs = append(cs, elemClass{"str-edge4096", func(g *gen) []byte { return g.sized(4094+g.r.Intn(4), true) }})
	}
	if max >= 16400 {
		// 16383/16384: ziplist and RDB 14→32-bit; 16377/16378: listpack back-length 2→3 bytes
		cs = append(cs, elemClass{"str-edge16384", func(g *gen) []byte { return g.sized(16382+g.r.Intn(4), true) }})
		cs = append(cs, elemClass{"str-edge16378", func(g *gen) []byte { return g.sized(16375+g.r.Intn(5), true) }})
	}
	return cs
}

func (g *gen) filler(fam string) []byte {
	switch g.r.Intn(4) {
	case 0:
		return strconv.AppendInt(nil, int64(g.r.Intn(2000)-500), 10)
	case 1:
		cs := zlIntClasses
		if fam == "lp" {
			cs = lpIntClasses
		}
		c := cs[g.r.Intn(len(cs))]
		return strconv.AppendInt(nil, g.drawInt(c.lo, c.hi), 10)
	}
	return g.shortStr()
}

// ---------------------------------------------------------------------------------------------

var allTypes = []byte{TypeString, TypeList, TypeSet, TypeZSet, TypeHash, TypeZSet2, TypeHashZipmap, TypeListZiplist,
	TypeSetIntset, TypeZSetZiplist, TypeHashZiplist, TypeQuicklist, TypeStreamListpacks, TypeHashListpack,
	TypeZSetListpack, TypeQuicklist2, TypeStreamListpacks2, TypeSetListpack, TypeStreamListpacks3, TypeStreamListpacks4}

// TypesFor lists the type codes GenDataset may draw under the given restrictions.
func TypesFor(version int, kinds []Kind, types []byte, plain bool) []byte {
	if version == 0 {
		version = MaxRDBVersion
	}
	var out []byte
	for _, t := range allTypes {
		if MinVersionOfType(t) > version {
			continue
		}
		if plain && t == TypeStreamListpacks4 {
			continue
		}
		k, _ := KindOfType(t)
		if len(kinds) > 0 {
			ok := false
			for _, x := range kinds {
				ok = ok || x == k
			}
			if !ok {
				continue
			}
		}
		if len(types) > 0 {
			ok := false
			for _, x := range types {
				ok = ok || x == t
			}
			if !ok {
				continue
			}
		}
		out = append(out, t)
	}
	return out
}

func family(t byte) string {
	switch t {
	case TypeListZiplist, TypeZSetZiplist, TypeHashZiplist, TypeQuicklist:
		return "zl"
	case TypeHashListpack, TypeZSetListpack, TypeSetListpack, TypeQuicklist2,
		TypeStreamListpacks, TypeStreamListpacks2, TypeStreamListpacks3, TypeStreamListpacks4:
		return "lp"
	case TypeHashZipmap:
		return "zm"
	case TypeSetIntset:
		return "intset"
	}
	return "rdb"
}

// GenDataset draws a dataset.  The result is a deterministic function of the generator state and
// the options.  Every key name embeds a unique id; every key carries Enc.Label (see Describe).
func GenDataset(rng *rand.Rand, opt GenOptions) []Key {
	g := &gen{r: rng, o: opt}
	if g.o.Version == 0 {
		g.o.Version = MaxRDBVersion
	}
	if g.o.NowMs == 0 {
		g.o.NowMs = 1750000000000
	}
	if g.o.IDPrefix == "" {
		g.o.IDPrefix = "k"
	}
	types := TypesFor(g.o.Version, g.o.Kinds, g.o.Types, g.o.Plain)
	if len(types) == 0 {
		return nil
	}
	// draw the kind first so that kinds with many encodings do not dominate
	byKind := map[Kind][]byte{}
	var kinds []Kind
	for _, t := range types {
		k, _ := KindOfType(t)
		if len(byKind[k]) == 0 {
			kinds = append(kinds, k)
		}
		byKind[k] = append(byKind[k], t)
	}
	n := g.o.NumKeys
	if n <= 0 {
		n = 1 + rng.Intn(8)
	}
	dbs := g.o.DBs
	if len(dbs) == 0 {
		dbs = []int{0}
		if rng.Intn(4) == 0 {
			dbs = []int{0, 1, 5, 15}
		}
	}
	keys := make([]Key, 0, n)
	for i := 0; i < n; i++ {
		var k Key
		for try := 0; ; try++ {
			kind := kinds[rng.Intn(len(kinds))]
			ts := byKind[kind]
			k = g.genKey(ts[rng.Intn(len(ts))])
			if len(g.o.Avoid) == 0 || try > 200 || !g.avoided(&k) {
				break
			}
		}
		k.DB = dbs[rng.Intn(len(dbs))]
		keys = append(keys, k)
	}
	if !g.o.Interleave {
		sort.SliceStable(keys, func(i, j int) bool { return keys[i].DB < keys[j].DB })
	}
	return keys
}

func (g *gen) avoided(k *Key) bool {
	_, _, feats := EncodeValue(k.Value, k.Enc)
	hay := k.Enc.Label + " " + strings.Join(feats, " ")
	for _, a := range g.o.Avoid {
		if a != "" && strings.Contains(hay, a) {
			return true
		}
	}
	return false
}

func (g *gen) keyName(e *Encoding) []byte {
	g.seq++
	g.id = strconv.Itoa(g.seq)
	g.elem = 0
	name := []byte(g.o.IDPrefix + g.id)
	if g.o.SafeKeys {
		if g.r.Intn(8) == 0 {
			name = append(name, ":"+strings.Repeat("x", 60+g.r.Intn(10))...)
		}
	} else {
		switch g.r.Intn(10) {
		case 0:
			name = append(name, "\r\n\x00\xff{a}"...)
		case 1:
			name = append(name, ' ')
			name = append(name, g.binBytes(1+g.r.Intn(8))...)
		case 2:
			name = append(name, ":"+strings.Repeat("xyz", 20+g.r.Intn(5))...)
		}
	}
	if !g.o.Plain {
		switch g.r.Intn(8) {
		case 0:
			e.KeyStr = StrLZF
		case 1:
			e.KeyStr = StrAuto
		}
	} else {
		e.KeyStr = StrAuto
	}
	return name
}

func (g *gen) genKey(t byte) Key {
	var k Key
	e := &k.Enc
	e.Type = t
	k.Key = g.keyName(e)
	kind, _ := KindOfType(t)
	plain := g.o.Plain
	var opts []string

	// record-level attributes
	if !g.o.NoTTL {
		day := int64(86400000)
		switch g.r.Intn(3) {
		case 1:
			k.ExpireAtMs = g.o.NowMs - day - g.r.Int63n(3650*day)
		case 2:
			k.ExpireAtMs = g.o.NowMs + day + g.r.Int63n(3650*day)
		}
		if k.ExpireAtMs != 0 && !plain && g.r.Intn(4) == 0 {
			k.ExpireAtMs -= k.ExpireAtMs % 1000
			e.ExpireSec = true
		}
	}
	if g.o.Version >= 9 {
		switch g.r.Intn(12) {
		case 0:
			e.HasIdle, e.Idle = true, uint64(g.r.Intn(100000))
		case 1:
			e.HasFreq, e.Freq = true, uint8(g.r.Intn(256))
		}
	}

	// RDB-level options
	if plain {
		e.Str = StrAuto
		if g.r.Intn(3) == 0 {
			e.BlobLZF = true
		}
	} else {
		switch g.r.Intn(6) {
		case 0:
			e.Len = LenForm(1 + g.r.Intn(3))
			opts = append(opts, [...]string{"", "len14", "len32", "len64"}[e.Len])
		}
		e.Str = StrMode(g.r.Intn(4))
		if g.r.Intn(4) == 0 {
			e.StrIntWidth = []uint8{2, 4}[g.r.Intn(2)]
		}
		e.LZF = LZFMode(g.r.Intn(4))
		e.LZFMin = []int{0, 1, 4, 21}[g.r.Intn(4)]
		if g.r.Intn(4) == 0 {
			e.BlobLZF = true
		}
	}

	if kind == KindStream && g.o.MinValueBytes > 0 {
		e.BlobLZF = false // keep the size promise simple for streams
	}
	fam := family(t)
	switch fam {
	case "zl":
		if !plain {
			if g.r.Intn(5) == 0 {
				e.LenUnknown = true
				opts = append(opts, "len-unknown")
			}
			if g.r.Intn(5) == 0 {
				e.PrevLen5 = true
				opts = append(opts, "prevlen5")
			}
		}
	case "lp":
		if !plain && kind != KindStream && g.r.Intn(5) == 0 {
			e.LenUnknown = true
			opts = append(opts, "len-unknown")
		}
	}
	if (fam == "zl" || fam == "lp") && !plain {
		switch g.r.Intn(8) {
		case 0:
			e.NoInt = true
			opts = append(opts, "noint")
		case 1:
			e.IntWidth = IntWidth(1 + g.r.Intn(6))
			opts = append(opts, [...]string{"", "w8", "w13", "w16", "w24", "w32", "w64"}[e.IntWidth])
		}
		if g.r.Intn(8) == 0 {
			e.Hdr = HdrForm(1 + g.r.Intn(2))
			opts = append(opts, [...]string{"", "hdrmid", "hdrbig"}[e.Hdr])
		}
	}
	if e.BlobLZF && (fam == "zl" || fam == "lp" || fam == "zm" || fam == "intset") {
		opts = append(opts, "bloblzf")
	}

	var focus string
	k.Value.Kind = kind
	switch kind {
	case KindString:
		focus = g.genString(&k)
	case KindList:
		if t == TypeQuicklist || t == TypeQuicklist2 {
			e.NodeSize = []int{0, 1, 2, 3, 8}[g.r.Intn(5)]
			if e.NodeSize > 0 {
				opts = append(opts, "node"+strconv.Itoa(e.NodeSize))
			}
		}
		if t == TypeQuicklist2 && !plain && g.r.Intn(3) == 0 {
			e.PlainMin = []int{1, 10, 64, 254}[g.r.Intn(4)]
			opts = append(opts, "plain")
		} else if t == TypeQuicklist2 {
			opts = append(opts, "packed")
		}
		var els [][]byte
		els, focus = g.genElems(fam, false, e, t)
		k.Value.List = els
	case KindSet:
		if t == TypeSetIntset {
			k.Value.Set, focus = g.genIntset(e)
		} else {
			k.Value.Set, focus = g.genElems(fam, true, e, t)
		}
	case KindZSet:
		focus = g.genZSet(&k, fam)
	case KindHash:
		focus = g.genHash(&k, fam)
	case KindStream:
		focus = g.genStream(&k)
	}
	if g.o.MinValueBytes > 0 && kind != KindString && kind != KindStream {
		// grow with fillers until the real serialisation is long enough
		for iter := 0; iter < 200; iter++ {
			_, vb, _ := EncodeValue(k.Value, k.Enc)
			if len(vb) >= g.o.MinValueBytes {
				break
			}
			g.grow(&k, fam, (g.o.MinValueBytes-len(vb))/4+1)
		}
	}
	parts := append([]string{kind.String(), TypeName(t)}, opts...)
	parts = append(parts, focus)
	e.Label = strings.Join(parts, "/")
	return k
}

func (g *gen) genString(k *Key) string {
	e := &k.Enc
	max := g.maxElem()
	type sc struct {
		name string
		f    func() []byte
	}
	cs := []sc{
		{"raw-short", func() []byte { e.Str = StrRaw; return g.shortStr() }},
		{"empty", func() []byte { return []byte{} }},
		{"bin", func() []byte { return g.binBytes(1 + g.r.Intn(40)) }},
		{"noncanon", func() []byte { return []byte(nonCanon[g.r.Intn(len(nonCanon))]) }},
		{"len63", func() []byte { e.Str = StrRaw; return g.sized(63, false) }},
		{"len64", func() []byte { e.Str = StrRaw; return g.sized(64, false) }},
		{"lzf", func() []byte {
			e.Str = StrLZF
			if g.o.Plain {
				e.Str = StrAuto
			}
			n := max
			if n > 1000 {
				n = 1000
			}
			return g.sized(25+g.r.Intn(n), true)
		}},
		{"lzf-incompressible", func() []byte { e.Str = StrLZF; return g.sized(21+g.r.Intn(80), false) }},
	}
	for _, c := range rdbIntClasses {
		c := c
		cs = append(cs, sc{c.name, func() []byte {
			if e.Str != StrAuto {
				e.Str = StrInt
			}
			return strconv.AppendInt(nil, g.drawInt(c.lo, c.hi), 10)
		}})
	}
	if max >= 16400 {
		cs = append(cs, sc{"len16384", func() []byte { e.Str = StrRaw; return g.sized(16382+g.r.Intn(4), false) }})
	}
	if g.o.Plain {
		// "lzf-incompressible" forces a form Redis would not write
		out := cs[:0:0]
		for _, c := range cs {
			if c.name != "lzf-incompressible" {
				out = append(out, c)
			}
		}
		cs = out
	}
	c := cs[g.r.Intn(len(cs))]
	k.Value.Str = c.f() // may override e.Str; otherwise the randomly drawn mode stays
	if g.o.Plain {
		e.Str = StrAuto
	}
	return c.name
}

// genElems draws the elements of a list (unique=false) or set (unique=true): a few elements of
// the focus class plus fillers, grown to MinValueBytes.
func (g *gen) genElems(fam string, unique bool, e *Encoding, t byte) ([][]byte, string) {
	cs := g.classes(fam)
	c := cs[g.r.Intn(len(cs))]
	used := map[string]bool{}
	var els [][]byte
	size := 0
	add := func(b []byte) {
		if unique {
			if used[string(b)] {
				return
			}
			used[string(b)] = true
		}
		els = append(els, b)
		size += len(b) + 2
	}
	nf := 1 + g.r.Intn(3)
	for i := 0; i < nf; i++ {
		add(c.gen(g))
	}
	nfill := g.r.Intn(6)
	for i := 0; i < nfill; i++ {
		add(g.filler(fam))
	}
	if g.r.Intn(3) == 0 { // one element of another class
		add(cs[g.r.Intn(len(cs))].gen(g))
	}
	g.r.Shuffle(len(els), func(i, j int) { els[i], els[j] = els[j], els[i] })
	return els, c.name
}

func (g *gen) genIntset(e *Encoding) ([][]byte, string) {
	type ic struct {
		name   string
		lo, hi int64
		force  int
	}
	cs := []ic{
		{"w16", math.MinInt16, math.MaxInt16, 0}, {"w32", math.MinInt32, math.MaxInt32, 0}, {"w64", math.MinInt64, math.MaxInt64, 0},
	}
	if !g.o.Plain {
		cs = append(cs, ic{"w16-as32", math.MinInt16, math.MaxInt16, 4}, ic{"w16-as64", math.MinInt16, math.MaxInt16, 8}, ic{"w32-as64", math.MinInt32, math.MaxInt32, 8})
	}
	c := cs[g.r.Intn(len(cs))]
	e.IntsetWidth = c.force
	used := map[int64]bool{}
	var els [][]byte
	size := 0
	add := func(v int64) {
		if used[v] {
			return
		}
		used[v] = true
		els = append(els, strconv.AppendInt(nil, v, 10))
		size += 8
	}
	// make sure the width is really needed: one of the extremes
	if g.r.Intn(2) == 0 {
		add(c.lo)
	} else {
		add(c.hi)
	}
	n := g.r.Intn(8)
	for i := 0; i < n; i++ {
		if g.r.Intn(2) == 0 {
			add(g.drawInt(c.lo, c.hi))
		} else {
			add(int64(g.r.Intn(2000) - 1000))
		}
	}
	g.isLo, g.isHi = c.lo, c.hi
	g.r.Shuffle(len(els), func(i, j int) { els[i], els[j] = els[j], els[i] })
	return els, c.name
}

type scoreClass struct {
	name string
	vals []float64
}

var scoreClasses = []scoreClass{
	{"score-int", []float64{0, 1, -1, 12, 13, 127, -128, 255, 65536, -8388608, -8388609, 2147483648, -2147483649, 4503599627370495, 9007199254740991, -9007199254740991}},
	{"score-inf", []float64{math.Inf(1)}},
	{"score-ninf", []float64{math.Inf(-1)}},
	{"score-negzero", []float64{math.Copysign(0, -1)}},
	{"score-denormal", []float64{math.SmallestNonzeroFloat64, -math.SmallestNonzeroFloat64, 2.2250738585072009e-308, 1.1125369292536007e-308}},
	{"score-17digit", []float64{0.1 + 0.2, 1.0 / 3, 0.1, 2.0 / 3, 123456789.12345678, -3.141592653589793, 1e-7, 5e-5, 1.0000000000000002, 0.30000000000000004}},
	{"score-huge", []float64{math.MaxFloat64, -math.MaxFloat64, 1e100, -1e300, 9007199254740992, 9007199254740994, 9223372036854775808, -9223372036854775808, 1.8446744073709552e19, 1e21, 1e17}},
}

func (g *gen) score(c scoreClass) float64 {
	if c.name == "score-17digit" && g.r.Intn(2) == 0 {
		for {
			f := math.Float64frombits(g.r.Uint64())
			if !math.IsNaN(f) && !math.IsInf(f, 0) {
				return f
			}
		}
	}
	return c.vals[g.r.Intn(len(c.vals))]
}

func (g *gen) genZSet(k *Key, fam string) string {
	cs := g.classes(fam)
	scs := scoreClasses
	if g.o.AllowNaN {
		scs = append(scs[:len(scs):len(scs)], scoreClass{"score-nan", []float64{math.NaN()}})
	}
	var focus string
	var mc *elemClass
	var sc *scoreClass
	if g.r.Intn(2) == 0 {
		mc = &cs[g.r.Intn(len(cs))]
		focus = mc.name
	} else {
		sc = &scs[g.r.Intn(len(scs))]
		focus = sc.name
	}
	used := map[string]bool{}
	size := 0
	add := func(m []byte, s float64) {
		if used[string(m)] {
			return
		}
		used[string(m)] = true
		k.Value.ZSet = append(k.Value.ZSet, ZMember{m, s})
		size += len(m) + 10
	}
	anyScore := func() float64 {
		if g.r.Intn(2) == 0 {
			return float64(g.r.Intn(200) - 100)
		}
		return g.score(scs[g.r.Intn(len(scs))])
	}
	nf := 1 + g.r.Intn(3)
	for i := 0; i < nf; i++ {
		if mc != nil {
			add(mc.gen(g), anyScore())
		} else {
			add(g.filler(fam), g.score(*sc))
		}
	}
	n := g.r.Intn(5)
	for i := 0; i < n; i++ {
		add(g.filler(fam), anyScore())
	}
	return focus
}

func (g *gen) genHash(k *Key, fam string) string {
	e := &k.Enc
	var opts string
	if fam == "zm" {
		e.ZipmapFree = g.r.Intn(5)
		if g.r.Intn(3) != 0 {
			e.ZipmapFree = 0
		}
		if !g.o.Plain && g.r.Intn(4) == 0 {
			e.ZipmapBigLen = true
			opts = "biglen/"
		}
		if e.ZipmapFree > 0 {
			opts += "free/"
		}
	}
	cs := g.classes(fam)
	c := cs[g.r.Intn(len(cs))]
	onField := g.r.Intn(2) == 0
	used := map[string]bool{}
	size := 0
	add := func(f, v []byte) {
		if used[string(f)] {
			return
		}
		used[string(f)] = true
		k.Value.Hash = append(k.Value.Hash, [2][]byte{f, v})
		size += len(f) + len(v) + 4
	}
	nf := 1 + g.r.Intn(3)
	for i := 0; i < nf; i++ {
		if onField {
			add(c.gen(g), g.filler(fam))
		} else {
			add(g.filler(fam), c.gen(g))
		}
	}
	n := g.r.Intn(5)
	for i := 0; i < n; i++ {
		add(g.filler(fam), g.filler(fam))
	}
	g.r.Shuffle(len(k.Value.Hash), func(i, j int) { k.Value.Hash[i], k.Value.Hash[j] = k.Value.Hash[j], k.Value.Hash[i] })
	side := "val-"
	if onField {
		side = "field-"
	}
	return opts + side + c.name
}

func (g *gen) genStream(k *Key) string {
	e := &k.Enc
	t := e.Type
	s := &Stream{}
	k.Value.Stream = s
	cs := g.classes("lp")
	vc := cs[g.r.Intn(len(cs))]
	shapes := []string{"samefields", "ownfields", "mixed", "deleted", "groups", "empty", "negdiff", "multi-lp", "bigid"}
	if g.o.Plain {
		shapes = shapes[:len(shapes)-1]
	}
	shape := shapes[g.r.Intn(len(shapes))]
	if shape == "empty" && g.o.MinValueBytes > 0 {
		shape = "samefields" // an emptied stream cannot be grown to a minimum size
	}
	n := 1 + g.r.Intn(6)
	if shape == "empty" {
		n = 0
	}
	e.NodeSize = []int{0, 0, 1, 2, 4}[g.r.Intn(5)]
	if shape == "multi-lp" {
		e.NodeSize = 1 + g.r.Intn(2)
		n += 2
	}
	if shape == "ownfields" && !g.o.Plain && g.r.Intn(2) == 0 {
		e.NoSameFields = true
	}
	ms := uint64(g.o.NowMs) - uint64(g.r.Int63n(1e10))
	seq := uint64(0)
	if shape == "negdiff" {
		seq = 5 + uint64(g.r.Intn(5000))
	}
	if shape == "bigid" {
		ms = math.MaxUint64 - 3
		seq = math.MaxUint64 - 20
	}
	master := [][]byte{[]byte("f1"), []byte("temp"), []byte("42")}[:1+g.r.Intn(3)]
	size := 0
	for i := 0; i < n || size < g.o.MinValueBytes; i++ {
		// next id
		switch {
		case i == 0:
		case shape == "negdiff" && i%2 == 1:
			ms += 1 + uint64(g.r.Intn(1000))
			seq = uint64(g.r.Intn(3))
		case seq == math.MaxUint64 && ms == math.MaxUint64:
			i = 1 << 30 // id space exhausted
			continue
		case seq == math.MaxUint64:
			ms++
			seq = 0
		case g.r.Intn(2) == 0:
			seq++
		default:
			if ms < math.MaxUint64-1001 {
				ms += 1 + uint64(g.r.Intn(1000))
				seq = 0
			} else {
				seq++
			}
		}
		en := StreamEntry{MS: ms, Seq: seq}
		own := shape == "ownfields" || (shape != "samefields" && g.r.Intn(3) == 0)
		if own && i > 0 {
			nf := 1 + g.r.Intn(3)
			for j := 0; j < nf; j++ {
				en.Fields = append(en.Fields, [2][]byte{[]byte("o" + strconv.Itoa(j)), g.streamVal(vc, j == 0)})
			}
		} else {
			for j, f := range master {
				en.Fields = append(en.Fields, [2][]byte{f, g.streamVal(vc, j == 0 && i < 2)})
			}
		}
		if (shape == "deleted" && g.r.Intn(2) == 0) || (shape != "samefields" && shape != "ownfields" && g.r.Intn(8) == 0) {
			en.Deleted = true
		}
		for _, fv := range en.Fields {
			if _, isInt := canonInt(fv[1]); isInt {
				size += 2
			} else {
				size += len(fv[1]) + 2
			}
		}
		size += 6
		s.Entries = append(s.Entries, en)
	}
	var maxDel StreamID
	firstSet := false
	for _, en := range s.Entries {
		if en.Deleted {
			maxDel = StreamID{en.MS, en.Seq}
			continue
		}
		s.Length++
		if !firstSet {
			s.FirstMS, s.FirstSeq, firstSet = en.MS, en.Seq, true
		}
	}
	s.MaxDelMS, s.MaxDelSeq = maxDel.MS, maxDel.Seq
	s.EntriesAdded = uint64(len(s.Entries))
	if len(s.Entries) > 0 {
		last := s.Entries[len(s.Entries)-1]
		s.LastMS, s.LastSeq = last.MS, last.Seq
	}
	if shape == "empty" {
		// an emptied stream keeps its last id and counters
		s.LastMS, s.LastSeq = ms, 7
		s.EntriesAdded = 3
		s.MaxDelMS, s.MaxDelSeq = ms, 7
	} else if g.r.Intn(4) == 0 && s.LastMS < math.MaxUint64-10 {
		// the newest entries were deleted and are gone: last id is beyond the last entry
		s.LastMS += 5
		s.EntriesAdded += 2
		s.MaxDelMS, s.MaxDelSeq = s.LastMS, s.LastSeq
	}
	if t < TypeStreamListpacks2 {
		// a v1 file does not carry these; use what the loader derives so the model round-trips
		s.EntriesAdded = s.Length
		s.MaxDelMS, s.MaxDelSeq = 0, 0
		if !firstSet {
			s.FirstMS, s.FirstSeq = 0, 0
		}
	}
	if shape == "groups" || g.r.Intn(4) == 0 {
		ng := 1 + g.r.Intn(2)
		for gi := 0; gi < ng; gi++ {
			grp := StreamGroup{Name: []byte("g" + strconv.Itoa(gi) + "-" + g.id)}
			grp.LastMS, grp.LastSeq = s.LastMS, s.LastSeq
			if len(s.Entries) > 0 && g.r.Intn(2) == 0 {
				x := s.Entries[g.r.Intn(len(s.Entries))]
				grp.LastMS, grp.LastSeq = x.MS, x.Seq
			}
			if t >= TypeStreamListpacks2 {
				grp.EntriesRead = uint64(g.r.Intn(len(s.Entries) + 1))
			}
			nc := g.r.Intn(3)
			for ci := 0; ci < nc; ci++ {
				c := StreamConsumer{Name: []byte("c" + strconv.Itoa(ci)), SeenTime: g.o.NowMs - int64(g.r.Intn(100000))}
				c.ActiveTime = c.SeenTime
				if t >= TypeStreamListpacks3 {
					c.ActiveTime = c.SeenTime - int64(g.r.Intn(5000))
				}
				grp.Consumers = append(grp.Consumers, c)
			}
			if nc > 0 {
				for _, en := range s.Entries {
					if g.r.Intn(2) == 0 {
						continue
					}
					grp.PEL = append(grp.PEL, StreamPEL{MS: en.MS, Seq: en.Seq, DeliveryTime: g.o.NowMs - int64(g.r.Intn(1e6)), DeliveryCount: uint64(1 + g.r.Intn(70))})
					c := &grp.Consumers[g.r.Intn(nc)]
					c.Pending = append(c.Pending, StreamID{en.MS, en.Seq})
				}
			}
			s.Groups = append(s.Groups, grp)
		}
	}
	if t >= TypeStreamListpacks4 {
		s.IDMP = &StreamIDMP{Duration: uint64(g.r.Intn(1000)), MaxEntries: uint64(g.r.Intn(100))}
		if len(s.Entries) > 0 && g.r.Intn(2) == 0 {
			x := s.Entries[0]
			s.IDMP.Producers = []StreamProducer{{ID: []byte("p" + g.id), Entries: []StreamIIDEntry{{IID: []byte("iid-1"), MS: x.MS, Seq: x.Seq}}}}
			s.IDMP.IIDsAdded = 1
			s.IDMP.IIDsDuplicates = uint64(g.r.Intn(3))
		}
	}
	return shape + "/" + vc.name
}

func (g *gen) streamVal(c elemClass, focus bool) []byte {
	if focus {
		return c.gen(g)
	}
	return g.filler("lp")
}

// grow appends n filler elements (fewer when they collide with existing members).
func (g *gen) grow(k *Key, fam string, n int) {
	v := &k.Value
	used := map[string]bool{}
	switch v.Kind {
	case KindSet:
		for _, m := range v.Set {
			used[string(m)] = true
		}
	case KindZSet:
		for _, m := range v.ZSet {
			used[string(m.Member)] = true
		}
	case KindHash:
		for _, p := range v.Hash {
			used[string(p[0])] = true
		}
	}
	for i := 0; i < n; i++ {
		var el []byte
		if fam == "intset" {
			el = strconv.AppendInt(nil, g.drawInt(g.isLo, g.isHi), 10)
			if g.r.Intn(2) == 0 {
				el = strconv.AppendInt(nil, int64(g.r.Intn(60000)-30000), 10)
			}
		} else {
			el = g.filler(fam)
		}
		if v.Kind != KindList {
			if used[string(el)] {
				continue
			}
			used[string(el)] = true
		}
		switch v.Kind {
		case KindList:
			v.List = append(v.List, el)
		case KindSet:
			v.Set = append(v.Set, el)
		case KindZSet:
			v.ZSet = append(v.ZSet, ZMember{el, float64(g.r.Intn(2000)-1000) / 4})
		case KindHash:
			v.Hash = append(v.Hash, [2][]byte{el, g.filler(fam)})
		}
	}
}

// BoundaryInts lists the integers at and next to every width boundary of the RDB, ziplist, listpack
// and intset integer encodings (both signs), for directed sweeps.
func BoundaryInts() []int64 {
	return []int64{0, 1, 12, 13, -1, 63, 64, 127, 128, -128, -129, 255, 256, 4095, 4096, -4096, -4097, 8191, 8192,
		32767, 32768, -32768, -32769, 65535, 65536, 8388607, 8388608, -8388608, -8388609, -70000, 16777215, 16777216,
		math.MaxInt32, math.MaxInt32 + 1, math.MinInt32, math.MinInt32 - 1, math.MaxUint32, math.MaxUint32 + 1,
		math.MaxInt64 - 1, math.MaxInt64, math.MinInt64, math.MinInt64 + 1}
}

// BoundaryLens lists the string lengths at and next to every header-width boundary: RDB 6/14/32-bit
// lengths and ziplist string headers (63/64, 16383/16384), listpack string headers (63/64,
// 4095/4096) and back-lengths (entry size 127/128 and 16382/16383), ziplist prevlen and zipmap
// item length (253/254).  Lengths above max are left out.
func BoundaryLens(max int) []int {
	var out []int
	for _, n := range []int{0, 1, 62, 63, 64, 65, 125, 126, 127, 128, 252, 253, 254, 255, 256, 4093, 4094, 4095, 4096, 4097,
		16376, 16377, 16378, 16379, 16382, 16383, 16384, 16385} {
		if n <= max {
			out = append(out, n)
		}
	}
	return out
}

// NonCanonicalInts are strings that look numeric but must never be integer-encoded.
func NonCanonicalInts() []string { return append([]string(nil), nonCanon...) }
