package rdbx

import (
	"bytes"
	"fmt"
	"math/rand"
	"os"
	"runtime"
	"sort"
	"strconv"
	"strings"
	"testing"
	"time"

	"github.com/mgtv-tech/redis-GunYu/config"
	"github.com/mgtv-tech/redis-GunYu/pkg/log"
	"github.com/mgtv-tech/redis-GunYu/pkg/rdb"
)

// (c) Cross-check of the encoder against the tool's own parser (the program under test).  This is
// the only file of the package that touches /repo.  Where the two disagree the case is examined by
// hand against the Redis sources and listed in knownToolDisagreements; rdbx is never bent.

func init() {
	f, tr := false, true
	_ = log.InitLog(config.LogConfig{LevelStr: "fatal", Handler: config.LogHandlerConfig{StdOut: true}, Caller: &f, Func: &f, ModuleName: &tr})
}

type toolKey struct {
	db      int
	key     []byte
	expire  uint64
	idle    uint32
	freq    uint8
	typ     int
	val     Value
	dump    []byte
	cmds    int
	execErr error
}

func argBytes(a interface{}) []byte {
	switch v := a.(type) {
	case []byte:
		return v
	case string:
		return []byte(v)
	case float64:
		return []byte(strconv.FormatFloat(v, 'g', 17, 64))
	default:
		return []byte(fmt.Sprint(v))
	}
}

func parseID(b []byte) (ms, seq uint64, ok bool) {
	parts := strings.SplitN(string(b), "-", 2)
	if len(parts) != 2 {
		return 0, 0, false
	}
	var err1, err2 error
	ms, err1 = strconv.ParseUint(parts[0], 10, 64)
	seq, err2 = strconv.ParseUint(parts[1], 10, 64)
	return ms, seq, err1 == nil && err2 == nil
}

// toolExpand runs the parser's command expansion and folds the commands into a Value.
func toolExpand(e *rdb.BinEntry, tk *toolKey) {
	defer func() {
		if x := recover(); x != nil {
			tk.execErr = fmt.Errorf("ExecCmd panicked: %v", x)
		}
	}()
	v := &tk.val
	e.ObjectParser.ExecCmd(func(cmd string, args ...interface{}) error {
		tk.cmds++
		switch strings.ToUpper(cmd) {
		case "SET":
			v.Kind, v.Str = KindString, argBytes(args[1])
		case "RPUSH":
			v.Kind = KindList
			v.List = append(v.List, argBytes(args[1]))
		case "SADD":
			v.Kind = KindSet
			v.Set = append(v.Set, argBytes(args[1]))
		case "ZADD":
			v.Kind = KindZSet
			var sc float64
			switch s := args[1].(type) {
			case float64:
				sc = s
			default:
				f, err := strconv.ParseFloat(string(argBytes(s)), 64)
				if err != nil {
					return fmt.Errorf("score %q: %v", argBytes(s), err)
				}
				sc = f
			}
			v.ZSet = append(v.ZSet, ZMember{argBytes(args[2]), sc})
		case "HSET":
			v.Kind = KindHash
			v.Hash = append(v.Hash, [2][]byte{argBytes(args[1]), argBytes(args[2])})
		case "XADD":
			v.Kind = KindStream
			if v.Stream == nil {
				v.Stream = &Stream{}
			}
			if string(argBytes(args[1])) == "MAXLEN" {
				return nil // the "create empty stream" trick
			}
			ms, seq, ok := parseID(argBytes(args[1]))
			if !ok {
				return fmt.Errorf("XADD id %q", argBytes(args[1]))
			}
			en := StreamEntry{MS: ms, Seq: seq}
			for i := 2; i+1 < len(args); i += 2 {
				en.Fields = append(en.Fields, [2][]byte{argBytes(args[i]), argBytes(args[i+1])})
			}
			v.Stream.Entries = append(v.Stream.Entries, en)
			v.Stream.Length++
		case "XSETID":
			v.Kind = KindStream
			if v.Stream == nil {
				v.Stream = &Stream{}
			}
			ms, seq, ok := parseID(argBytes(args[1]))
			if !ok {
				return fmt.Errorf("XSETID id %q", argBytes(args[1]))
			}
			v.Stream.LastMS, v.Stream.LastSeq = ms, seq
		case "XGROUP", "XCLAIM":
		default:
			return fmt.Errorf("unexpected command %s", cmd)
		}
		return nil
	})
}

func toolParse(file []byte, expand bool) (keys []toolKey, err error) {
	ch := rdb.ParseRdb(bytes.NewReader(file), nil, 8, rdb.WithTargetRedisVersion("7.2"))
	done := false
	for e := range ch {
		switch {
		case e.Err != nil:
			if err == nil {
				err = e.Err
			}
		case e.Done:
			done = true
		default:
			if e.ObjectParser == nil {
				continue
			}
			if ot := e.ObjectParser.Type(); ot == rdb.RdbObjectAux || ot == rdb.RdbObjectFunction {
				continue
			}
			tk := toolKey{db: e.DB, key: e.Key, expire: e.ExpireAt, idle: e.IdleTime, freq: e.Freq, typ: e.ObjectParser.RdbType(), dump: e.DumpValue()}
			if expand {
				toolExpand(e, &tk)
			}
			keys = append(keys, tk)
		}
	}
	if err == nil && !done {
		err = fmt.Errorf("parser channel closed without Done")
	}
	return keys, err
}

var errToolHang = fmt.Errorf("tool parser did not return within 20 s (busy loop)")

// toolParseGuarded runs the parser in its own goroutine: a parser that spins cannot be stopped, so
// the caller must end the test process soon after errToolHang.
func toolParseGuarded(file []byte) ([]toolKey, error) {
	type res struct {
		k []toolKey
		e error
	}
	ch := make(chan res, 1)
	go func() {
		k, e := toolParse(file, true)
		ch <- res{k, e}
	}()
	select {
	case r := <-ch:
		return r.k, r.e
	case <-time.After(20 * time.Second):
		return nil, errToolHang
	}
}

// Format features on which the tool's reader was found to deviate from the Redis sources.  Each is
// demonstrated with minimal bytes in TestToolDisagreementsMinimal.
var knownToolDisagreements = []string{
	"zl:int24-neg",          // ziplist.go: ZIP_INT_24B read unsigned
	"zl:len-unknown",        // ziplist.go: zllen==65535 tests the prevlen byte against 0xFE instead of the 0xFF end marker
	"lp:len-unknown",        // listpack.go: num-elements==65535 taken literally (65535 Next() calls)
	"zm:bigitem",            // reader.go: zipmap item length marker 253 + big endian instead of 254 + little endian
	"zm:item253",            // same: an item of exactly 253 bytes is taken for the marker
	"zm:biglen",             // reader.go CountZipmapItems: rewinds to offset 0 (the zmlen byte) instead of 1
	"stream:same-after-own", // rdb_object.go: an entry's own num-fields overwrites the master's count
	"bigid",                 // stream ids >= 2^63 formatted through int64
}

// RDBX_AVOID (test-only, for trying a patched copy of the tool): when set, its comma separated
// value REPLACES knownToolDisagreements ("" = the tool is expected to agree on everything).  Then
// nothing outside that list is avoided by the generators, skipped for fear of a hang, or accepted
// as an explained difference, and TestToolDisagreementsMinimal / TestToolStreamHangDemo fail
// instead of logging.  Unset: behaviour unchanged.
var avoidOverridden = false

// the full list, kept for the coverage count when RDBX_AVOID replaces knownToolDisagreements
var allDeviationTags []string

// countDeviationFeatures counts, per tag of the full list, the keys of a dataset that exercise it.
func countDeviationFeatures(hits map[string]int, ds []Key) {
	for _, k := range ds {
		_, _, feats := EncodeValue(k.Value, k.Enc)
		hay := strings.Join(feats, " ") + " " + k.Enc.Label
		for _, tag := range allDeviationTags {
			if strings.Contains(hay, tag) {
				hits[tag]++
			}
		}
	}
}

func logDeviationFeatures(t *testing.T, hits map[string]int) {
	for _, tag := range allDeviationTags {
		t.Logf("%6d keys exercised %s", hits[tag], tag)
	}
}

func init() {
	allDeviationTags = append([]string(nil), knownToolDisagreements...)
	v, ok := os.LookupEnv("RDBX_AVOID")
	if !ok {
		return
	}
	avoidOverridden = true
	knownToolDisagreements = nil
	for _, f := range strings.Split(v, ",") {
		if f = strings.TrimSpace(f); f != "" {
			knownToolDisagreements = append(knownToolDisagreements, f)
		}
	}
}

func knownDisagreement(tag string) bool {
	for _, s := range knownToolDisagreements {
		if s == tag {
			return true
		}
	}
	return false
}

func suspects(feats []string, label string) []string {
	var out []string
	hay := strings.Join(feats, " ") + " " + label
	for _, s := range knownToolDisagreements {
		if strings.Contains(hay, s) {
			out = append(out, s)
		}
	}
	return out
}

type disagreement struct {
	what  string
	label string
	seed  int64
	value []byte
	typ   byte
}

// compareWithTool feeds one generated dataset to the tool's parser and returns the differences.
func compareWithTool(ds []Key, fo FileOptions, seed int64) (diffs []disagreement, perKey []Serialized, fatal error) {
	file, per := EncodeFile(ds, fo)
	tks, err := toolParseGuarded(file)
	if err == errToolHang {
		return nil, per, err
	}
	if err != nil {
		// find out which key broke it: parse prefixes key by key is expensive; report features of all
		return nil, per, err
	}
	if len(tks) != len(ds) {
		return nil, per, fmt.Errorf("tool returned %d keys for %d", len(tks), len(ds))
	}
	for i := range ds {
		k, tk := ds[i], tks[i]
		add := func(format string, a ...interface{}) {
			diffs = append(diffs, disagreement{what: fmt.Sprintf(format, a...), label: k.Enc.Describe(), seed: seed, value: per[i].ValueBytes, typ: per[i].TypeByte})
		}
		if tk.db != k.DB || !bytes.Equal(tk.key, k.Key) || tk.typ != int(per[i].TypeByte) {
			add("meta: db %d key %q type %d", tk.db, tk.key, tk.typ)
			continue
		}
		if tk.expire != uint64(k.ExpireAtMs) {
			add("expire %d vs %d", tk.expire, k.ExpireAtMs)
		}
		if (k.Enc.HasIdle && uint64(tk.idle) != k.Enc.Idle) || (k.Enc.HasFreq && tk.freq != k.Enc.Freq) {
			add("idle/freq %d/%d", tk.idle, tk.freq)
		}
		if want := DumpPayload(per[i].TypeByte, per[i].ValueBytes, 6); !bytes.Equal(tk.dump, want) {
			add("DUMP payload differs (%d vs %d bytes)", len(tk.dump), len(want))
		}
		if tk.execErr != nil {
			add("expansion failed: %v", tk.execErr)
			continue
		}
		if k.Value.Kind == KindStream && len(k.Value.Stream.Entries) == 0 && tk.val.Stream != nil {
			tk.val.Stream.Length = 0
		}
		if ok, why := Equal(k.Value, tk.val); !ok {
			add("expansion differs: %s", why)
		}
	}
	return diffs, per, nil
}

func TestToolParserUncontroversial(t *testing.T) {
	n := testN(3000, 400)
	keys, labels := 0, map[string]bool{}
	hits := map[string]int{}
	for seed := int64(0); seed < int64(n); seed++ {
		rng := rand.New(rand.NewSource(seed))
		opt := GenOptions{Version: 6 + rng.Intn(8), Avoid: knownToolDisagreements, Plain: seed%3 == 0}
		switch seed % 10 {
		case 1:
			opt.MaxElemBytes = 17000
			opt.NumKeys = 2
		case 2:
			opt.MinValueBytes = 1024 + rng.Intn(3072)
			opt.NumKeys = 2
		}
		ds := GenDataset(rng, opt)
		fo := GenFileOptions(rng, opt.Version, opt.Plain)
		diffs, _, err := compareWithTool(ds, fo, seed)
		if err != nil {
			t.Fatalf("seed %d: tool parser failed on an uncontroversial dataset: %v", seed, err)
		}
		for _, d := range diffs {
			t.Errorf("seed %d %s: %s\n  type %d value %x", seed, d.label, d.what, d.typ, clip(d.value))
		}
		for _, k := range ds {
			labels[k.Enc.Describe()] = true
		}
		if avoidOverridden {
			countDeviationFeatures(hits, ds)
		}
		keys += len(ds)
		if t.Failed() && seed > 50 {
			break
		}
	}
	t.Logf("%d datasets / %d keys / %d labels parsed and expanded identically by the tool", n, keys, len(labels))
	if avoidOverridden {
		logDeviationFeatures(t, hits)
	}
}

// The full generator, nothing avoided: every difference must be explained by one of the known
// deviations; the summary is logged.
func TestToolParserAllEncodings(t *testing.T) {
	n := testN(3000, 400)
	bySuspect := map[string]int{}
	example := map[string]disagreement{}
	hits, agreed := map[string]int{}, 0
	for seed := int64(0); seed < int64(n); seed++ {
		rng := rand.New(rand.NewSource(seed + 1000000))
		opt := GenOptions{Version: 6 + rng.Intn(8), NumKeys: 1}
		if seed%10 == 1 {
			opt.MaxElemBytes = 17000
		}
		ds := GenDataset(rng, opt)
		fo := GenFileOptions(rng, opt.Version, false)
		if _, _, feats := EncodeValue(ds[0].Value, ds[0].Enc); knownDisagreement("stream:same-after-own") && strings.Contains(strings.Join(feats, " "), "stream:same-after-own") {
			// the tool's stream expansion can spin forever on these (TestToolStreamHangDemo); a spinning
			// goroutine cannot be stopped, so they are not fed to it here
			bySuspect["stream:same-after-own (not run: may hang)"]++
			continue
		}
		if avoidOverridden {
			countDeviationFeatures(hits, ds)
		}
		diffs, per, err := compareWithTool(ds, fo, seed)
		if err == nil && len(diffs) == 0 {
			agreed++
		}
		if err == errToolHang {
			t.Fatalf("seed %d %s: %v\n  features %v\n  type %d value %x", seed, ds[0].Enc.Describe(), err, per[0].Features, per[0].TypeByte, clip(per[0].ValueBytes))
		}
		if err != nil {
			s := suspects(per[0].Features, ds[0].Enc.Label)
			if len(s) == 0 {
				t.Errorf("seed %d %s: parser error without a known cause: %v\n  features %v\n  type %d value %x", seed, ds[0].Enc.Describe(), err, per[0].Features, per[0].TypeByte, clip(per[0].ValueBytes))
			}
			for _, x := range s {
				bySuspect[x+" (parse error)"]++
			}
			continue
		}
		for _, d := range diffs {
			s := suspects(per[0].Features, ds[0].Enc.Label)
			if len(s) == 0 {
				t.Errorf("seed %d %s: UNEXPLAINED: %s\n  features %v\n  type %d value %x", seed, d.label, d.what, per[0].Features, d.typ, clip(d.value))
				continue
			}
			key := strings.Join(s, "+")
			bySuspect[key]++
			if _, ok := example[key]; !ok || len(d.value) < len(example[key].value) {
				example[key] = d
			}
		}
	}
	if avoidOverridden {
		t.Logf("%d of %d datasets parsed and expanded identically by the tool", agreed, n)
		logDeviationFeatures(t, hits)
	}
	var ks []string
	for k := range bySuspect {
		ks = append(ks, k)
	}
	sort.Strings(ks)
	for _, k := range ks {
		t.Logf("%5d × %s", bySuspect[k], k)
		if d, ok := example[k]; ok {
			t.Logf("        e.g. seed %d %s: %s; type %d value %x", d.seed, d.label, d.what, d.typ, clip(d.value))
		}
	}
}

// TestToolDisagreementsMinimal shows every known deviation on the smallest input, with the value
// rdbx reads (checked here against the expectation derived from the Redis sources) and what the
// tool's parser makes of the same bytes.  The tool's behaviour is only logged: this test documents,
// the checks built on rdbx decide.
func TestToolDisagreementsMinimal(t *testing.T) {
	b := func(s string) []byte { return []byte(s) }
	rep := func(c byte, n int) []byte { return bytes.Repeat([]byte{c}, n) }
	cases := []struct {
		name string
		k    Key
	}{
		{"zl:int24-neg  (ziplist.c zipLoadInteger: ZIP_INT_24B is sign-extended, i32 >>= 8)",
			Key{Key: b("k"), Value: Value{Kind: KindList, List: [][]byte{b("-70000")}}, Enc: Encoding{Type: TypeListZiplist}}},
		{"zl:int24-neg  as a sorted-set score",
			Key{Key: b("k"), Value: Value{Kind: KindZSet, ZSet: []ZMember{{b("m"), -8388608}}}, Enc: Encoding{Type: TypeZSetZiplist}}},
		{"zl:len-unknown  (zllen==UINT16_MAX: walk to the 0xFF end byte) — short entries",
			Key{Key: b("k"), Value: Value{Kind: KindHash, Hash: [][2][]byte{{b("f"), b("v")}}}, Enc: Encoding{Type: TypeHashZiplist, LenUnknown: true}}},
		{"zl:len-unknown  — an entry after a >=254 byte entry carries the 0xFE prevlen form",
			Key{Key: b("k"), Value: Value{Kind: KindList, List: [][]byte{b("first"), rep('a', 254), b("third"), b("fourth")}}, Enc: Encoding{Type: TypeListZiplist, LenUnknown: true}}},
		{"lp:len-unknown  (listpack num-elements==UINT16_MAX: walk to the 0xFF end byte)",
			Key{Key: b("k"), Value: Value{Kind: KindSet, Set: [][]byte{b("a")}}, Enc: Encoding{Type: TypeSetListpack, LenUnknown: true}}},
		{"zm:bigitem  (zipmap.c: ZIPMAP_BIGLEN is 254, followed by a 4-byte host-order = little-endian length)",
			Key{Key: b("k"), Value: Value{Kind: KindHash, Hash: [][2][]byte{{b("f"), rep('x', 254)}}}, Enc: Encoding{Type: TypeHashZipmap}}},
		{"zm:item253  (253 is an ordinary one-byte length)",
			Key{Key: b("k"), Value: Value{Kind: KindHash, Hash: [][2][]byte{{b("f"), rep('x', 253)}}}, Enc: Encoding{Type: TypeHashZipmap}}},
		{"zm:biglen  (zmlen byte 254: count by walking)",
			Key{Key: b("k"), Value: Value{Kind: KindHash, Hash: [][2][]byte{{b("f"), b("v")}}}, Enc: Encoding{Type: TypeHashZipmap, ZipmapBigLen: true}}},
		{"stream:same-after-own  (t_stream.c: an entry's own num-fields does not change the master entry)",
			Key{Key: b("k"), Value: Value{Kind: KindStream, Stream: &Stream{Length: 3, LastMS: 5, LastSeq: 2, FirstMS: 5, EntriesAdded: 3, Entries: []StreamEntry{
				{MS: 5, Seq: 0, Fields: [][2][]byte{{b("a"), b("1")}, {b("b"), b("2")}}},
				{MS: 5, Seq: 1, Fields: [][2][]byte{{b("x"), b("9")}}},
				{MS: 5, Seq: 2, Fields: [][2][]byte{{b("a"), b("3")}, {b("b"), b("4")}}},
			}}}, Enc: Encoding{Type: TypeStreamListpacks2}}},
		{"bigid  (stream ids are unsigned 64-bit)",
			Key{Key: b("k"), Value: Value{Kind: KindStream, Stream: &Stream{Length: 1, LastMS: 1 << 63, LastSeq: 1, FirstMS: 1 << 63, FirstSeq: 1, EntriesAdded: 1, Entries: []StreamEntry{
				{MS: 1 << 63, Seq: 1, Fields: [][2][]byte{{b("a"), b("1")}}},
			}}}, Enc: Encoding{Type: TypeStreamListpacks2}}},
	}
	for _, c := range cases {
		file, per := EncodeFile([]Key{c.k}, FileOptions{Version: 9})
		got, err := DecodeFile(file)
		if err != nil || len(got) != 1 {
			t.Errorf("%s: rdbx cannot read its own bytes: %v", c.name, err)
			continue
		}
		if ok, why := EqualDeep(c.k.Value, got[0].Value); !ok {
			t.Errorf("%s: rdbx: %s", c.name, why)
		}
		t.Logf("%s\n    type %d value %x", c.name, per[0].TypeByte, clip(per[0].ValueBytes))
		t.Logf("    expected %s", showValue(c.k.Value))
		tks, perr := toolParse(file, true)
		agrees := false
		switch {
		case perr != nil:
			t.Logf("    tool     parser error: %v", perr)
		case len(tks) != 1:
			t.Logf("    tool     %d entries", len(tks))
		case tks[0].execErr != nil:
			t.Logf("    tool     after %d command(s) [%s]: %v", tks[0].cmds, showValue(tks[0].val), firstLine(tks[0].execErr.Error()))
		default:
			ok, why := Equal(c.k.Value, tks[0].val)
			verdict := "AGREES"
			if !ok {
				verdict = "DIFFERS silently: " + why
			}
			agrees = ok
			t.Logf("    tool     %s  -> %s", showValue(tks[0].val), verdict)
		}
		if tag := strings.Fields(c.name)[0]; avoidOverridden && !agrees && !knownDisagreement(tag) {
			t.Errorf("%s: the tool disagrees although %q is not in RDBX_AVOID", c.name, tag)
		}
	}
}

func firstLine(s string) string {
	if i := strings.IndexAny(s, "\n"); i >= 0 {
		s = s[:i]
	}
	if len(s) > 160 {
		s = s[:160] + "…"
	}
	return s
}

func showValue(v Value) string {
	sb := &strings.Builder{}
	el := func(b []byte) string {
		if len(b) > 12 {
			return fmt.Sprintf("%q…(%d)", b[:6], len(b))
		}
		return fmt.Sprintf("%q", b)
	}
	switch v.Kind {
	case KindString:
		fmt.Fprintf(sb, "string %s", el(v.Str))
	case KindList:
		sb.WriteString("list [")
		for _, x := range v.List {
			sb.WriteString(el(x) + " ")
		}
		sb.WriteString("]")
	case KindSet:
		sb.WriteString("set {")
		for i, x := range v.Set {
			if i > 4 {
				fmt.Fprintf(sb, "… %d members", len(v.Set))
				break
			}
			sb.WriteString(el(x) + " ")
		}
		sb.WriteString("}")
	case KindZSet:
		sb.WriteString("zset {")
		for _, x := range v.ZSet {
			fmt.Fprintf(sb, "%s:%v ", el(x.Member), x.Score)
		}
		sb.WriteString("}")
	case KindHash:
		sb.WriteString("hash {")
		for _, x := range v.Hash {
			fmt.Fprintf(sb, "%s=%s ", el(x[0]), el(x[1]))
		}
		sb.WriteString("}")
	case KindStream:
		sb.WriteString("stream [")
		if v.Stream != nil {
			for _, e := range v.Stream.Entries {
				fmt.Fprintf(sb, "%d-%d{", e.MS, e.Seq)
				for _, fv := range e.Fields {
					fmt.Fprintf(sb, "%s=%s ", fv[0], fv[1])
				}
				sb.WriteString("} ")
			}
			fmt.Fprintf(sb, "] last %d-%d", v.Stream.LastMS, v.Stream.LastSeq)
		}
	default:
		sb.WriteString("(nothing)")
	}
	return sb.String()
}

// Directed: every integer / string-length boundary, smallest forms, through the tool's parser.
func TestToolDirectedBoundaries(t *testing.T) {
	var elems [][]byte
	for _, v := range []int64{0, 1, 12, 13, -1, 63, 64, 127, 128, -128, -129, 255, 256, 4095, 4096, -4096, -4097, 8191, 8192,
		32767, 32768, -32768, -32769, 65535, 65536, 8388607, 8388608, -8388608, -8388609, -70000, 16777215, 16777216,
		2147483647, 2147483648, -2147483648, -2147483649, 4294967295, 4294967296, 9223372036854775807, -9223372036854775808} {
		elems = append(elems, []byte(strconv.FormatInt(v, 10)))
	}
	for _, s := range nonCanon {
		elems = append(elems, []byte(s))
	}
	for _, n := range []int{0, 1, 62, 63, 64, 65, 126, 127, 128, 252, 254, 255, 256, 4094, 4095, 4096, 4097, 16376, 16377, 16378, 16379, 16382, 16383, 16384, 16385} {
		elems = append(elems, append([]byte(strconv.Itoa(n)+":"), bytes.Repeat([]byte{byte('a' + n%26)}, n)...))
	}
	in24neg := func(b []byte) bool {
		v, ok := canonInt(b)
		return ok && v < -32768 && v >= -8388608
	}
	var zlElems, zmElems [][]byte
	for _, e := range elems {
		if !in24neg(e) || !knownDisagreement("zl:int24-neg") {
			zlElems = append(zlElems, e)
		}
		if len(e) < 253 || !(knownDisagreement("zm:bigitem") || knownDisagreement("zm:item253")) {
			zmElems = append(zmElems, e)
		}
	}
	pick := func(t byte) [][]byte {
		switch family(t) {
		case "zl":
			return zlElems
		case "zm":
			return zmElems
		}
		return elems
	}
	var ds []Key
	n := 0
	name := func() []byte { n++; return []byte("dk" + strconv.Itoa(n)) }
	for _, ty := range []byte{TypeList, TypeListZiplist, TypeQuicklist, TypeQuicklist2} {
		for _, node := range []int{0, 1, 7} {
			ds = append(ds, Key{Key: name(), Value: Value{Kind: KindList, List: pick(ty)}, Enc: Encoding{Type: ty, NodeSize: node, Str: StrAuto}})
		}
	}
	for _, ty := range []byte{TypeSet, TypeSetListpack} {
		ds = append(ds, Key{Key: name(), Value: Value{Kind: KindSet, Set: pick(ty)}, Enc: Encoding{Type: ty, Str: StrAuto}})
	}
	for _, ty := range []byte{TypeHash, TypeHashZiplist, TypeHashListpack, TypeHashZipmap} {
		var h [][2][]byte
		es := pick(ty)
		for i, x := range es {
			h = append(h, [2][]byte{x, es[(i*7)%len(es)]})
		}
		ds = append(ds, Key{Key: name(), Value: Value{Kind: KindHash, Hash: h}, Enc: Encoding{Type: ty, Str: StrAuto, ZipmapFree: 3}})
	}
	for _, ty := range []byte{TypeZSet, TypeZSet2, TypeZSetZiplist, TypeZSetListpack} {
		var z []ZMember
		for i, x := range pick(ty) {
			z = append(z, ZMember{x, float64(i) - 20.5})
		}
		for i, c := range scoreClasses {
			for j, s := range c.vals {
				if ty == TypeZSetZiplist && in24neg(scoreText(s)) && knownDisagreement("zl:int24-neg") {
					continue
				}
				z = append(z, ZMember{[]byte(fmt.Sprintf("sc%d.%d", i, j)), s})
			}
		}
		ds = append(ds, Key{Key: name(), Value: Value{Kind: KindZSet, ZSet: z}, Enc: Encoding{Type: ty, Str: StrAuto}})
	}
	for _, x := range elems {
		for _, m := range []StrMode{StrRaw, StrInt, StrLZF, StrAuto} {
			ds = append(ds, Key{Key: name(), Value: Value{Kind: KindString, Str: x}, Enc: Encoding{Type: TypeString, Str: m}})
		}
	}
	// intsets of each width
	for _, hi := range []int64{32767, 32768, 2147483647, 2147483648, 9223372036854775807} {
		var s [][]byte
		for _, v := range []int64{0, -1, 1, hi, -hi - 1, hi - 1} {
			s = append(s, []byte(strconv.FormatInt(v, 10)))
		}
		ds = append(ds, Key{Key: name(), Value: Value{Kind: KindSet, Set: s}, Enc: Encoding{Type: TypeSetIntset}})
	}
	for _, ver := range []int{6, 9, 13} {
		diffs, _, err := compareWithTool(ds, FileOptions{Version: ver, Aux: DefaultAux(ver)}, 0)
		if err != nil {
			t.Fatalf("version %d: %v", ver, err)
		}
		for _, d := range diffs {
			t.Errorf("version %d %s: %s", ver, d.label, d.what)
		}
	}
	t.Logf("%d directed keys agree", len(ds))
}

// TestToolStreamHangDemo (only with RDBX_HANG_DEMO=1, run it alone): a VALID stream whose third
// entry re-uses the master fields after an entry with fewer own fields.  The tool's expansion loses
// alignment and then loops at the listpack end marker without consuming anything.
func TestToolStreamHangDemo(t *testing.T) {
	if os.Getenv("RDBX_HANG_DEMO") == "" {
		t.Skip("set RDBX_HANG_DEMO=1 (leaves a spinning goroutine behind)")
	}
	b := func(s string) []byte { return []byte(s) }
	ab := func(x, y string) [][2][]byte { return [][2][]byte{{b("m0"), b(x)}, {b("m1"), b(y)}} }
	// XADD k 5-0 m0 0 m1 1 / XADD k 5-1 o0 10 / XADD k 5-2 m0 20 m1 21 / 5-3 ... / 5-4 ...
	k := Key{Key: b("k"), Value: Value{Kind: KindStream, Stream: &Stream{Length: 5, LastMS: 5, LastSeq: 4, FirstMS: 5, EntriesAdded: 5, Entries: []StreamEntry{
		{MS: 5, Seq: 0, Fields: ab("0", "1")},
		{MS: 5, Seq: 1, Fields: [][2][]byte{{b("o0"), b("10")}}},
		{MS: 5, Seq: 2, Fields: ab("20", "21")},
		{MS: 5, Seq: 3, Fields: ab("30", "31")},
		{MS: 5, Seq: 4, Fields: ab("40", "41")},
	}}}, Enc: Encoding{Type: TypeStreamListpacks2}}
	file, per := EncodeFile([]Key{k}, FileOptions{Version: 10})
	if got, err := DecodeFile(file); err != nil {
		t.Fatal(err)
	} else if ok, why := EqualDeep(k.Value, got[0].Value); !ok {
		t.Fatal(why)
	}
	t.Logf("type %d value %x", per[0].TypeByte, per[0].ValueBytes)
	t.Logf("file %x", file)
	tks, err := toolParseGuarded(file)
	t.Logf("tool: %v", err)
	if err == nil && len(tks) == 1 && tks[0].execErr == nil {
		ok, why := Equal(k.Value, tks[0].val)
		t.Logf("tool returned %s; equal to the expected value: %v %s", showValue(tks[0].val), ok, why)
		if avoidOverridden && !ok {
			t.Errorf("the tool's expansion differs: %s", why)
		}
	} else if avoidOverridden && !knownDisagreement("stream:same-after-own") {
		t.Errorf("the tool did not expand the stream: err %v, %d keys", err, len(tks))
	}
	if err == errToolHang {
		var m1, m2 runtime.MemStats
		runtime.ReadMemStats(&m1)
		time.Sleep(3 * time.Second)
		runtime.ReadMemStats(&m2)
		t.Logf("while spinning: heap in use %d MiB -> %d MiB in 3 s, total allocated +%d MiB", m1.HeapInuse>>20, m2.HeapInuse>>20, (m2.TotalAlloc-m1.TotalAlloc)>>20)
	}
}
