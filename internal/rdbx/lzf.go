package rdbx

import "errors"

// LZF (liblzf) stream format, as used by RDB "compressed string" objects:
//
//	ctrl < 32           : literal run, ctrl+1 bytes follow verbatim
//	ctrl >= 32          : back reference; len = ctrl>>5, if len == 7 one more byte is added to len;
//	                      offset = (ctrl&0x1f)<<8 | nextbyte; copy len+2 bytes starting offset+1
//	                      bytes before the current output position (regions may overlap).
//
// Max offset 8192, max match 264, max literal run 32.

// LZFMode selects the shape of the stream produced by LZFCompressMode.
type LZFMode uint8

const (
	LZFGreedy      LZFMode = iota // hash-based greedy matcher (similar in spirit to liblzf)
	LZFLiteralOnly                // only literal runs (legal, never produced by Redis)
	LZFShortRefs                  // matches capped at 3..9 bytes: many back references
	LZFShortRuns                  // like greedy but literal runs are cut into 1..4 byte pieces
)

func (m LZFMode) String() string {
	switch m {
	case LZFGreedy:
		return "greedy"
	case LZFLiteralOnly:
		return "literal"
	case LZFShortRefs:
		return "shortrefs"
	case LZFShortRuns:
		return "shortruns"
	}
	return "?"
}

// LZFCompress compresses in with the greedy matcher.  The output is always a valid LZF stream, even
// when it is longer than the input (Redis would store such a string raw; a loader must accept both).
func LZFCompress(in []byte) []byte { return LZFCompressMode(in, LZFGreedy) }

const (
	lzfHashBits = 12
	lzfMaxOff   = 1 << 13
	lzfMaxRef   = 264
	lzfMaxLit   = 32
)

func LZFCompressMode(in []byte, mode LZFMode) []byte {
	out := make([]byte, 0, len(in)+len(in)/16+4)
	maxLit := lzfMaxLit
	if mode == LZFShortRuns {
		maxLit = 3
	}
	litStart := 0
	flush := func(end int) {
		for litStart < end {
			n := end - litStart
			if n > maxLit {
				n = maxLit
			}
			out = append(out, byte(n-1))
			out = append(out, in[litStart:litStart+n]...)
			litStart += n
		}
	}
	if mode == LZFLiteralOnly || len(in) < 4 {
		flush(len(in))
		return out
	}
	// positions are stored +1 so that the zero value means "empty"
	var table [1 << lzfHashBits]int32
	hash := func(i int) uint32 {
		v := uint32(in[i])<<16 | uint32(in[i+1])<<8 | uint32(in[i+2])
		return (v * 2654435761) >> (32 - lzfHashBits)
	}
	maxRef := lzfMaxRef
	i := 0
	for i+2 < len(in) {
		h := hash(i)
		ref := int(table[h]) - 1
		table[h] = int32(i + 1)
		if ref >= 0 && i-ref <= lzfMaxOff && in[ref] == in[i] && in[ref+1] == in[i+1] && in[ref+2] == in[i+2] {
			if mode == LZFShortRefs {
				maxRef = 3 + (i % 7)
			}
			l := 3
			for i+l < len(in) && l < maxRef && in[ref+l] == in[i+l] {
				l++
			}
			flush(i)
			off := i - ref - 1
			if l-2 < 7 {
				out = append(out, byte((l-2)<<5|off>>8), byte(off))
			} else {
				out = append(out, byte(7<<5|off>>8), byte(l-2-7), byte(off))
			}
			// index the skipped positions so later matches can find them
			end := i + l
			for i++; i < end; i++ {
				if i+2 < len(in) {
					table[hash(i)] = int32(i + 1)
				}
			}
			litStart = end
			continue
		}
		i++
	}
	flush(len(in))
	return out
}

var errLZF = errors.New("rdbx: malformed LZF stream")

// LZFDecompress expands an LZF stream that must produce exactly outLen bytes.
func LZFDecompress(in []byte, outLen int) ([]byte, error) {
	if outLen < 0 {
		return nil, errLZF
	}
	// every input byte expands to at most 264/2 output bytes; refuse absurd claims before allocating
	if outLen > len(in)*lzfMaxRef+lzfMaxLit {
		return nil, errLZF
	}
	out := make([]byte, 0, outLen)
	i := 0
	for i < len(in) {
		ctrl := int(in[i])
		i++
		if ctrl < 32 {
			n := ctrl + 1
			if i+n > len(in) || len(out)+n > outLen {
				return nil, errLZF
			}
			out = append(out, in[i:i+n]...)
			i += n
			continue
		}
		l := ctrl >> 5
		if l == 7 {
			if i >= len(in) {
				return nil, errLZF
			}
			l += int(in[i])
			i++
		}
		if i >= len(in) {
			return nil, errLZF
		}
		off := (ctrl&0x1f)<<8 | int(in[i])
		i++
		ref := len(out) - off - 1
		l += 2
		if ref < 0 || len(out)+l > outLen {
			return nil, errLZF
		}
		for k := 0; k < l; k++ { // byte-wise: source and destination may overlap
			out = append(out, out[ref+k])
		}
	}
	if len(out) != outLen {
		return nil, errLZF
	}
	return out, nil
}
