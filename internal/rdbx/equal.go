package rdbx

import (
	"bytes"
	"fmt"
	"math"
	"sort"
)

func q(b []byte) string {
	if len(b) > 48 {
		return fmt.Sprintf("%q…(%d bytes)", b[:48], len(b))
	}
	return fmt.Sprintf("%q", b)
}

func sameScore(a, b float64) bool {
	if math.IsNaN(a) || math.IsNaN(b) {
		return math.IsNaN(a) && math.IsNaN(b)
	}
	return math.Float64bits(a) == math.Float64bits(b)
}

// Equal is the semantic comparison used by the checks: strings byte-equal; lists equal as
// sequences; sets and hashes unordered (a duplicate member/field on either side is a difference);
// sorted sets by member with bit-identical scores (-0 differs from 0, any NaN equals any NaN);
// streams: the non-deleted entries in order (ids, field/value pairs in order) and the last id.
// The string explains the first difference found ("" when equal).
func Equal(a, b Value) (bool, string) {
	if a.Kind != b.Kind {
		return false, fmt.Sprintf("kind %v vs %v", a.Kind, b.Kind)
	}
	switch a.Kind {
	case KindString:
		if !bytes.Equal(a.Str, b.Str) {
			return false, fmt.Sprintf("string %s vs %s", q(a.Str), q(b.Str))
		}
	case KindList:
		if len(a.List) != len(b.List) {
			return false, fmt.Sprintf("list length %d vs %d", len(a.List), len(b.List))
		}
		for i := range a.List {
			if !bytes.Equal(a.List[i], b.List[i]) {
				return false, fmt.Sprintf("list[%d] %s vs %s", i, q(a.List[i]), q(b.List[i]))
			}
		}
	case KindSet:
		am := make(map[string]int, len(a.Set))
		for _, m := range a.Set {
			am[string(m)]++
			if am[string(m)] > 1 {
				return false, fmt.Sprintf("set: duplicate member %s on the left", q(m))
			}
		}
		bm := make(map[string]int, len(b.Set))
		for _, m := range b.Set {
			bm[string(m)]++
			if bm[string(m)] > 1 {
				return false, fmt.Sprintf("set: duplicate member %s on the right", q(m))
			}
			if am[string(m)] == 0 {
				return false, fmt.Sprintf("set: member %s only on the right", q(m))
			}
		}
		for _, m := range a.Set {
			if bm[string(m)] == 0 {
				return false, fmt.Sprintf("set: member %s only on the left", q(m))
			}
		}
	case KindZSet:
		am := make(map[string]float64, len(a.ZSet))
		for _, m := range a.ZSet {
			if _, dup := am[string(m.Member)]; dup {
				return false, fmt.Sprintf("zset: duplicate member %s on the left", q(m.Member))
			}
			am[string(m.Member)] = m.Score
		}
		bm := make(map[string]bool, len(b.ZSet))
		for _, m := range b.ZSet {
			if bm[string(m.Member)] {
				return false, fmt.Sprintf("zset: duplicate member %s on the right", q(m.Member))
			}
			bm[string(m.Member)] = true
			s, ok := am[string(m.Member)]
			if !ok {
				return false, fmt.Sprintf("zset: member %s only on the right", q(m.Member))
			}
			if !sameScore(s, m.Score) {
				return false, fmt.Sprintf("zset: member %s score %v (%#x) vs %v (%#x)", q(m.Member), s, math.Float64bits(s), m.Score, math.Float64bits(m.Score))
			}
		}
		for _, m := range a.ZSet {
			if !bm[string(m.Member)] {
				return false, fmt.Sprintf("zset: member %s only on the left", q(m.Member))
			}
		}
	case KindHash:
		am := make(map[string][]byte, len(a.Hash))
		for _, p := range a.Hash {
			if _, dup := am[string(p[0])]; dup {
				return false, fmt.Sprintf("hash: duplicate field %s on the left", q(p[0]))
			}
			am[string(p[0])] = p[1]
		}
		bm := make(map[string]bool, len(b.Hash))
		for _, p := range b.Hash {
			if bm[string(p[0])] {
				return false, fmt.Sprintf("hash: duplicate field %s on the right", q(p[0]))
			}
			bm[string(p[0])] = true
			v, ok := am[string(p[0])]
			if !ok {
				return false, fmt.Sprintf("hash: field %s only on the right", q(p[0]))
			}
			if !bytes.Equal(v, p[1]) {
				return false, fmt.Sprintf("hash: field %s value %s vs %s", q(p[0]), q(v), q(p[1]))
			}
		}
		for _, p := range a.Hash {
			if !bm[string(p[0])] {
				return false, fmt.Sprintf("hash: field %s only on the left", q(p[0]))
			}
		}
	case KindStream:
		sa, sb := a.Stream, b.Stream
		if sa == nil {
			sa = &Stream{}
		}
		if sb == nil {
			sb = &Stream{}
		}
		if ok, why := equalEntries(sa.Entries, sb.Entries, false); !ok {
			return false, why
		}
		if sa.LastMS != sb.LastMS || sa.LastSeq != sb.LastSeq {
			return false, fmt.Sprintf("stream last id %d-%d vs %d-%d", sa.LastMS, sa.LastSeq, sb.LastMS, sb.LastSeq)
		}
	default:
		return false, "unknown kind"
	}
	return true, ""
}

func liveEntries(es []StreamEntry, keepDeleted bool) []StreamEntry {
	if keepDeleted {
		return es
	}
	out := make([]StreamEntry, 0, len(es))
	for _, e := range es {
		if !e.Deleted {
			out = append(out, e)
		}
	}
	return out
}

func equalEntries(a, b []StreamEntry, withDeleted bool) (bool, string) {
	a, b = liveEntries(a, withDeleted), liveEntries(b, withDeleted)
	if len(a) != len(b) {
		return false, fmt.Sprintf("stream: %d vs %d entries", len(a), len(b))
	}
	for i := range a {
		x, y := a[i], b[i]
		if x.MS != y.MS || x.Seq != y.Seq {
			return false, fmt.Sprintf("stream entry %d: id %d-%d vs %d-%d", i, x.MS, x.Seq, y.MS, y.Seq)
		}
		if x.Deleted != y.Deleted {
			return false, fmt.Sprintf("stream entry %d-%d: deleted %v vs %v", x.MS, x.Seq, x.Deleted, y.Deleted)
		}
		if len(x.Fields) != len(y.Fields) {
			return false, fmt.Sprintf("stream entry %d-%d: %d vs %d fields", x.MS, x.Seq, len(x.Fields), len(y.Fields))
		}
		for j := range x.Fields {
			if !bytes.Equal(x.Fields[j][0], y.Fields[j][0]) || !bytes.Equal(x.Fields[j][1], y.Fields[j][1]) {
				return false, fmt.Sprintf("stream entry %d-%d pair %d: %s=%s vs %s=%s", x.MS, x.Seq, j,
					q(x.Fields[j][0]), q(x.Fields[j][1]), q(y.Fields[j][0]), q(y.Fields[j][1]))
			}
		}
	}
	return true, ""
}

// EqualDeep is Equal plus everything else the serialisation carries for streams: deleted entries,
// length, first id, max-deleted id, entries-added, consumer groups (by name) with their PEL (by
// id, with delivery time and count) and consumers (by name, seen/active time, pending ids as a
// set), and the v4 IDMP block.  For the other kinds it is the same as Equal.
func EqualDeep(a, b Value) (bool, string) {
	if ok, why := Equal(a, b); !ok {
		return false, why
	}
	if a.Kind != KindStream {
		return true, ""
	}
	sa, sb := a.Stream, b.Stream
	if sa == nil {
		sa = &Stream{}
	}
	if sb == nil {
		sb = &Stream{}
	}
	if ok, why := equalEntries(sa.Entries, sb.Entries, true); !ok {
		return false, why
	}
	type meta struct{ a, b uint64 }
	for name, m := range map[string]meta{
		"length": {sa.Length, sb.Length}, "first ms": {sa.FirstMS, sb.FirstMS}, "first seq": {sa.FirstSeq, sb.FirstSeq},
		"max-deleted ms": {sa.MaxDelMS, sb.MaxDelMS}, "max-deleted seq": {sa.MaxDelSeq, sb.MaxDelSeq},
		"entries-added": {sa.EntriesAdded, sb.EntriesAdded},
	} {
		if m.a != m.b {
			return false, fmt.Sprintf("stream %s %d vs %d", name, m.a, m.b)
		}
	}
	if len(sa.Groups) != len(sb.Groups) {
		return false, fmt.Sprintf("stream: %d vs %d groups", len(sa.Groups), len(sb.Groups))
	}
	ga, gb := sortedGroups(sa.Groups), sortedGroups(sb.Groups)
	for i := range ga {
		x, y := ga[i], gb[i]
		if !bytes.Equal(x.Name, y.Name) {
			return false, fmt.Sprintf("stream group %s vs %s", q(x.Name), q(y.Name))
		}
		if x.LastMS != y.LastMS || x.LastSeq != y.LastSeq || x.EntriesRead != y.EntriesRead {
			return false, fmt.Sprintf("stream group %s: last id / entries-read %d-%d/%d vs %d-%d/%d", q(x.Name), x.LastMS, x.LastSeq, x.EntriesRead, y.LastMS, y.LastSeq, y.EntriesRead)
		}
		if len(x.PEL) != len(y.PEL) {
			return false, fmt.Sprintf("stream group %s: PEL %d vs %d", q(x.Name), len(x.PEL), len(y.PEL))
		}
		pa, pb := sortedPEL(x.PEL), sortedPEL(y.PEL)
		for j := range pa {
			if pa[j] != pb[j] {
				return false, fmt.Sprintf("stream group %s: PEL entry %+v vs %+v", q(x.Name), pa[j], pb[j])
			}
		}
		if len(x.Consumers) != len(y.Consumers) {
			return false, fmt.Sprintf("stream group %s: %d vs %d consumers", q(x.Name), len(x.Consumers), len(y.Consumers))
		}
		ca, cb := sortedConsumers(x.Consumers), sortedConsumers(y.Consumers)
		for j := range ca {
			u, v := ca[j], cb[j]
			if !bytes.Equal(u.Name, v.Name) || u.SeenTime != v.SeenTime || u.ActiveTime != v.ActiveTime || len(u.Pending) != len(v.Pending) {
				return false, fmt.Sprintf("stream group %s: consumer %s/%d/%d/%d vs %s/%d/%d/%d", q(x.Name),
					q(u.Name), u.SeenTime, u.ActiveTime, len(u.Pending), q(v.Name), v.SeenTime, v.ActiveTime, len(v.Pending))
			}
			ua, va := sortedIDs(u.Pending), sortedIDs(v.Pending)
			for k := range ua {
				if ua[k] != va[k] {
					return false, fmt.Sprintf("stream group %s consumer %s: pending %v vs %v", q(x.Name), q(u.Name), ua[k], va[k])
				}
			}
		}
	}
	ia, ib := sa.IDMP, sb.IDMP
	if (ia == nil) != (ib == nil) {
		return false, "stream: IDMP block present on one side only"
	}
	if ia != nil {
		if ia.Duration != ib.Duration || ia.MaxEntries != ib.MaxEntries || ia.IIDsAdded != ib.IIDsAdded ||
			ia.IIDsDuplicates != ib.IIDsDuplicates || len(ia.Producers) != len(ib.Producers) {
			return false, "stream: IDMP header differs"
		}
		for i := range ia.Producers {
			x, y := ia.Producers[i], ib.Producers[i]
			if !bytes.Equal(x.ID, y.ID) || len(x.Entries) != len(y.Entries) {
				return false, fmt.Sprintf("stream: IDMP producer %d differs", i)
			}
			for j := range x.Entries {
				if !bytes.Equal(x.Entries[j].IID, y.Entries[j].IID) || x.Entries[j].MS != y.Entries[j].MS || x.Entries[j].Seq != y.Entries[j].Seq {
					return false, fmt.Sprintf("stream: IDMP producer %d entry %d differs", i, j)
				}
			}
		}
	}
	return true, ""
}

func sortedGroups(g []StreamGroup) []StreamGroup {
	out := append([]StreamGroup(nil), g...)
	sort.SliceStable(out, func(i, j int) bool { return bytes.Compare(out[i].Name, out[j].Name) < 0 })
	return out
}

func sortedConsumers(c []StreamConsumer) []StreamConsumer {
	out := append([]StreamConsumer(nil), c...)
	sort.SliceStable(out, func(i, j int) bool { return bytes.Compare(out[i].Name, out[j].Name) < 0 })
	return out
}

func sortedPEL(p []StreamPEL) []StreamPEL {
	out := append([]StreamPEL(nil), p...)
	sort.SliceStable(out, func(i, j int) bool {
		return StreamID{out[i].MS, out[i].Seq}.Less(StreamID{out[j].MS, out[j].Seq})
	})
	return out
}

func sortedIDs(p []StreamID) []StreamID {
	out := append([]StreamID(nil), p...)
	sort.SliceStable(out, func(i, j int) bool { return out[i].Less(out[j]) })
	return out
}

// EqualKey compares two keys as DecodeFile(EncodeFile(x)) should reproduce them: DB, name, expiry
// (seconds granularity is the caller's business), idle/freq and the value with EqualDeep.
func EqualKey(a, b Key) (bool, string) {
	if a.DB != b.DB {
		return false, fmt.Sprintf("db %d vs %d", a.DB, b.DB)
	}
	if !bytes.Equal(a.Key, b.Key) {
		return false, fmt.Sprintf("key %s vs %s", q(a.Key), q(b.Key))
	}
	if a.ExpireAtMs != b.ExpireAtMs {
		return false, fmt.Sprintf("expire %d vs %d", a.ExpireAtMs, b.ExpireAtMs)
	}
	if a.Enc.HasIdle != b.Enc.HasIdle || a.Enc.Idle != b.Enc.Idle || a.Enc.HasFreq != b.Enc.HasFreq || a.Enc.Freq != b.Enc.Freq {
		return false, "idle/freq differ"
	}
	return EqualDeep(a.Value, b.Value)
}
