package rdbx

import "math/bits"

// CRC-64/Jones as used by Redis (crc64.c): polynomial 0xad93d23594c935a9, input and output
// reflected, initial value 0, no final xor.  Check value: CRC64("123456789") = 0xe9c6d914c4b8d9ca.
const crc64JonesPoly uint64 = 0xad93d23594c935a9

var crc64Reflected = bits.Reverse64(crc64JonesPoly)

// CRC64Bitwise is the reference, bit-at-a-time implementation.
func CRC64Bitwise(crc uint64, p []byte) uint64 {
	for _, c := range p {
		crc ^= uint64(c)
		for i := 0; i < 8; i++ {
			if crc&1 != 0 {
				crc = (crc >> 1) ^ crc64Reflected
			} else {
				crc >>= 1
			}
		}
	}
	return crc
}

// crc64Table is derived from CRC64Bitwise at start-up (never copied from anywhere); the unit tests
// compare CRC64 and CRC64Bitwise on random inputs.
var crc64Table [256]uint64

func init() {
	for i := 0; i < 256; i++ {
		crc64Table[i] = CRC64Bitwise(0, []byte{byte(i)})
	}
}

// CRC64 continues the checksum crc over p (start with 0).  Same function as CRC64Bitwise, one
// table look-up per byte.
func CRC64(crc uint64, p []byte) uint64 {
	for _, c := range p {
		crc = crc64Table[byte(crc)^c] ^ (crc >> 8)
	}
	return crc
}

// crc16 (XMODEM, poly 0x1021, init 0) bit-wise; only used to compute the slot for SLOT_INFO hints.
func crc16(p []byte) uint16 {
	var crc uint16
	for _, c := range p {
		crc ^= uint16(c) << 8
		for i := 0; i < 8; i++ {
			if crc&0x8000 != 0 {
				crc = crc<<1 ^ 0x1021
			} else {
				crc <<= 1
			}
		}
	}
	return crc
}

func keySlot(key []byte) uint16 {
	for i, c := range key {
		if c == '{' {
			for j := i + 1; j < len(key); j++ {
				if key[j] == '}' {
					if j > i+1 {
						return crc16(key[i+1:j]) & 16383
					}
					break
				}
			}
			break
		}
	}
	return crc16(key) & 16383
}
