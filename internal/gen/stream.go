// Package gen: seeded generators for replication streams (with offset tables and unique ids).
package gen

import (
	"bytes"
	"fmt"
	"math/rand"
	"regexp"
	"strconv"
	"strings"
)

type CmdKind int

const (
	KWrite    CmdKind = iota // data-modifying command that must reach the target
	KSelect                  // SELECT n
	KMulti                   // MULTI
	KExec                    // EXEC
	KPing                    // PING
	KGetAck                  // REPLCONF GETACK *
	KSentinel                // PUBLISH __sentinel__:hello ...
	KAdmin                   // a command on the fixed administrative blacklist
	KCfgOut                  // configured-out (command blacklist / key prefix blacklist / bookkeeping key)
)

func (k CmdKind) String() string {
	return [...]string{"write", "select", "multi", "exec", "ping", "getack", "sentinel", "admin", "cfgout"}[k]
}

// Cmd is one command of a generated replication stream.
type Cmd struct {
	Kind  CmdKind
	Name  string // as sent (any case)
	Args  [][]byte
	DB    int    // source database in force when the command was issued (after SELECTs so far)
	ID    string // unique id embedded in one of the arguments ("" for non-writes)
	Start int64  // byte offset of the first byte, relative to the stream start
	End   int64  // byte offset just past the last byte
	Group int    // index of the enclosing source MULTI/EXEC group, -1 if none
	Idx   int
}

func (c *Cmd) String() string {
	var sb strings.Builder
	fmt.Fprintf(&sb, "[%d %s db%d g%d end=%d] %s", c.Idx, c.Kind, c.DB, c.Group, c.End, c.Name)
	for _, a := range c.Args {
		if len(a) > 40 {
			fmt.Fprintf(&sb, " %q...(%d)", a[:40], len(a))
		} else {
			fmt.Fprintf(&sb, " %q", a)
		}
	}
	return sb.String()
}

type Stream struct {
	Hist  string
	Cmds  []Cmd
	Bytes []byte
}

// Encode renders a command as a RESP multi-bulk request.
func Encode(name string, args [][]byte) []byte {
	var b bytes.Buffer
	b.WriteByte('*')
	b.WriteString(strconv.Itoa(len(args) + 1))
	b.WriteString("\r\n$")
	b.WriteString(strconv.Itoa(len(name)))
	b.WriteString("\r\n")
	b.WriteString(name)
	b.WriteString("\r\n")
	for _, a := range args {
		b.WriteByte('$')
		b.WriteString(strconv.Itoa(len(a)))
		b.WriteString("\r\n")
		b.Write(a)
		b.WriteString("\r\n")
	}
	return b.Bytes()
}

var idRe = regexp.MustCompile(`~[A-Za-z0-9]+\.\d+~`)

// FindID extracts the unique id from a command's arguments ("" if none).
func FindID(args [][]byte) string {
	for _, a := range args {
		if m := idRe.Find(a); m != nil {
			return string(m)
		}
	}
	return ""
}

type StreamOptions struct {
	Hist            string // history tag embedded in ids
	NCmds           int    // approximate number of items
	MaxDB           int    // SELECT targets 0..MaxDB
	PSelect         float64
	PTxn            float64
	PTxnSelect      float64 // inside a transaction: probability of a SELECT before each member (a master propagates one when a transaction touches several databases)
	PNoise          float64 // PING / GETACK / sentinel / admin
	PCfgOut         float64
	MaxTxnLen       int
	BigArgs         bool     // occasionally 64 KiB / MiB arguments
	BlackCmds       []string // configured command blacklist (generator emits them as KCfgOut)
	BlackPrefix     []string // configured key-prefix blacklist
	StartDB         int      // database in force at stream start (-1: unknown → generator starts with SELECT)
	NoLeadingSelect bool
	FirstID         int
}

var adminCmds = []string{"FLUSHALL", "flushdb", "REPLCONF", "CLIENT", "SAVE", "bgsave", "SLOWLOG", "Debug", "WAIT", "ECHO", "SWAPDB", "LATENCY"}

// value returns an argument drawn from the hostile distribution.
func value(r *rand.Rand, big bool) []byte {
	switch r.Intn(12) {
	case 0:
		return []byte{}
	case 1:
		return []byte{byte(r.Intn(256))}
	case 2:
		return []byte("a\r\nb")
	case 3:
		return []byte("$5\r\nhello\r\n*2\r\n")
	case 4:
		b := make([]byte, 1+r.Intn(40))
		r.Read(b)
		return b
	case 5:
		return []byte{0xff, 0xfe, 0x00, 0xc3, 0x28}
	case 6:
		if big {
			n := 64 * 1024
			if r.Intn(4) == 0 {
				n = (1 + r.Intn(3)) << 20
			}
			b := make([]byte, n)
			r.Read(b)
			return b
		}
		return []byte("medium-" + strings.Repeat("x", r.Intn(300)))
	case 7:
		return []byte(strconv.Itoa(r.Intn(1000000) - 500000))
	default:
		return []byte(fmt.Sprintf("v%d", r.Intn(1000)))
	}
}

func poolKey(r *rand.Rand) []byte {
	pools := []string{"k", "user:", "{tag}k", "list", "h\x00bin", "z\xffset", "a b", "键"}
	return []byte(fmt.Sprintf("%s%d", pools[r.Intn(len(pools))], r.Intn(6)))
}

// writeCmd generates one data-modifying command carrying id in an argument.
func writeCmd(r *rand.Rand, id string, big bool) (string, [][]byte) {
	k := poolKey(r)
	idv := func() []byte { return append([]byte(id), value(r, big)...) }
	idk := []byte("idk" + id)
	names := func(s string) string {
		switch r.Intn(4) {
		case 0:
			return strings.ToUpper(s)
		case 1:
			return strings.Title(s)
		}
		return s
	}
	switch r.Intn(30) {
	case 27:
		// single key that is not the first argument
		return names("xgroup"), [][]byte{[]byte("CREATE"), k, idv(), []byte("$"), []byte("MKSTREAM")}
	case 28:
		return names("evalsha"), [][]byte{[]byte("0123456789abcdef0123456789abcdef01234567"), []byte("1"), k, idv()}
	case 29:
		return names("xgroup"), [][]byte{[]byte("SETID"), k, idv(), []byte("0-0")}
	case 0, 1, 2:
		return names("set"), [][]byte{k, idv()}
	case 3:
		return names("set"), [][]byte{k, idv(), []byte("PXAT"), []byte("4102444800000")}
	case 4:
		return names("mset"), [][]byte{k, idv(), poolKey(r), value(r, false)}
	case 5:
		return names("append"), [][]byte{k, idv()}
	case 6:
		return names("incrby"), [][]byte{idk, []byte(strconv.Itoa(r.Intn(100)))}
	case 7:
		return names("del"), [][]byte{k, idk}
	case 8:
		return names("unlink"), [][]byte{idk, k, poolKey(r)}
	case 9:
		return names("pexpireat"), [][]byte{idk, []byte("4102444800000")}
	case 10:
		return names("rpush"), [][]byte{k, idv(), value(r, false)}
	case 11:
		return names("lpush"), [][]byte{k, idv()}
	case 12:
		return names("lpop"), [][]byte{idk}
	case 13:
		return names("lset"), [][]byte{k, []byte("0"), idv()}
	case 14:
		return names("sadd"), [][]byte{k, idv(), value(r, false)}
	case 15:
		return names("srem"), [][]byte{k, idv()}
	case 16:
		return names("hset"), [][]byte{k, value(r, false), idv()}
	case 17:
		return names("hmset"), [][]byte{k, []byte("f1"), idv(), []byte("f2"), value(r, false)}
	case 18:
		return names("hdel"), [][]byte{k, idv()}
	case 19:
		return names("zadd"), [][]byte{k, []byte("1.5"), idv()}
	case 20:
		return names("zrem"), [][]byte{k, idv()}
	case 21:
		return names("xadd"), [][]byte{k, []byte("*"), []byte("f"), idv()}
	case 22:
		return names("persist"), [][]byte{idk}
	case 23:
		return names("rename"), [][]byte{k, idk}
	case 24:
		return names("setrange"), [][]byte{k, []byte("3"), idv()}
	case 25:
		return names("pfadd"), [][]byte{k, idv()}
	default:
		return names("geoadd"), [][]byte{k, []byte("13.361389"), []byte("38.115556"), idv()}
	}
}

// GenStream generates a well-formed replication stream.
func GenStream(r *rand.Rand, o StreamOptions) *Stream {
	if o.Hist == "" {
		o.Hist = "h0"
	}
	if o.MaxTxnLen == 0 {
		o.MaxTxnLen = 6
	}
	s := &Stream{Hist: o.Hist}
	db := o.StartDB
	group := -1
	nGroups := 0
	nextID := o.FirstID
	add := func(kind CmdKind, name string, args [][]byte, id string, g int) {
		c := Cmd{Kind: kind, Name: name, Args: args, DB: db, ID: id, Group: g, Idx: len(s.Cmds)}
		c.Start = int64(len(s.Bytes))
		s.Bytes = append(s.Bytes, Encode(name, args)...)
		c.End = int64(len(s.Bytes))
		s.Cmds = append(s.Cmds, c)
	}
	selIn := func(g int) {
		n := r.Intn(o.MaxDB + 1)
		db = n
		add(KSelect, pick(r, "SELECT", "select", "Select"), [][]byte{[]byte(strconv.Itoa(n))}, "", g)
	}
	sel := func() { selIn(-1) }
	write := func(g int) {
		id := fmt.Sprintf("~%s.%d~", o.Hist, nextID)
		nextID++
		if len(o.BlackCmds)+len(o.BlackPrefix) > 0 && r.Float64() < o.PCfgOut {
			switch {
			case len(o.BlackCmds) > 0 && (len(o.BlackPrefix) == 0 || r.Intn(2) == 0):
				add(KCfgOut, caseMix(r, o.BlackCmds[r.Intn(len(o.BlackCmds))]), [][]byte{poolKey(r), append([]byte(id), 'x')}, id, g)
			default:
				p := o.BlackPrefix[r.Intn(len(o.BlackPrefix))]
				key := []byte(p + strconv.Itoa(r.Intn(5)))
				switch r.Intn(5) {
				case 0:
					add(KCfgOut, "set", [][]byte{key, []byte(id)}, id, g)
				case 1:
					add(KCfgOut, "HSET", [][]byte{key, []byte("f"), []byte(id)}, id, g)
				case 2:
					add(KCfgOut, "rpush", [][]byte{key, []byte(id)}, id, g)
				case 3: // the configured-out key is not the first argument
					add(KCfgOut, "xgroup", [][]byte{[]byte("CREATE"), key, []byte(id), []byte("$")}, id, g)
				default:
					add(KCfgOut, "EVALSHA", [][]byte{[]byte("0123456789abcdef0123456789abcdef01234567"), []byte("1"), key, []byte(id)}, id, g)
				}
			}
			return
		}
		name, args := writeCmd(r, id, o.BigArgs)
		kind := KWrite
		for _, b := range o.BlackCmds {
			if strings.EqualFold(b, name) {
				kind = KCfgOut
			}
		}
		add(kind, name, args, id, g)
	}
	noise := func() {
		switch r.Intn(5) {
		case 0, 1:
			add(KPing, pick(r, "PING", "ping"), nil, "", -1)
		case 2:
			add(KGetAck, pick(r, "REPLCONF", "replconf"), [][]byte{[]byte("GETACK"), []byte("*")}, "", -1)
		case 3:
			add(KSentinel, pick(r, "PUBLISH", "publish"), [][]byte{[]byte(pick(r, "__sentinel__:hello", "__SENTINEL__:HELLO")), []byte("127.0.0.1,26379,abc,0,mymaster,127.0.0.1,6379,0")}, "", -1)
		default:
			a := adminCmds[r.Intn(len(adminCmds))]
			var args [][]byte
			switch strings.ToUpper(a) {
			case "REPLCONF":
				args = [][]byte{[]byte("ACK"), []byte("100")}
			case "CLIENT":
				args = [][]byte{[]byte("SETNAME"), []byte("x")}
			case "SLOWLOG":
				args = [][]byte{[]byte("RESET")}
			case "DEBUG":
				args = [][]byte{[]byte("SLEEP"), []byte("0")}
			case "WAIT":
				args = [][]byte{[]byte("0"), []byte("0")}
			case "ECHO":
				args = [][]byte{[]byte("x")}
			case "SWAPDB":
				args = [][]byte{[]byte("0"), []byte("1")}
			case "LATENCY":
				args = [][]byte{[]byte("RESET")}
			}
			add(KAdmin, a, args, "", -1)
		}
	}

	if db < 0 && !o.NoLeadingSelect {
		sel()
	}
	if db < 0 {
		db = 0
	}
	for len(s.Cmds) < o.NCmds {
		x := r.Float64()
		switch {
		case x < o.PSelect:
			sel()
		case x < o.PSelect+o.PTxn:
			group = nGroups
			nGroups++
			n := 0
			switch r.Intn(6) {
			case 0:
				n = 0
			case 1:
				n = 1
			default:
				n = 1 + r.Intn(o.MaxTxnLen)
			}
			add(KMulti, pick(r, "MULTI", "multi"), nil, "", group)
			for i := 0; i < n; i++ {
				if o.PTxnSelect > 0 && r.Float64() < o.PTxnSelect {
					selIn(group)
				}
				write(group)
			}
			add(KExec, pick(r, "EXEC", "exec"), nil, "", group)
			group = -1
		case x < o.PSelect+o.PTxn+o.PNoise:
			noise()
		default:
			write(-1)
		}
	}
	return s
}

// AppendSentinel appends a final marker write (used to detect logical completion).
func (s *Stream) AppendSentinel(db int) *Cmd {
	id := fmt.Sprintf("~%sEND.%d~", s.Hist, len(s.Cmds))
	c := Cmd{Kind: KWrite, Name: "set", Args: [][]byte{[]byte("verif:sentinel"), []byte(id)}, DB: db, ID: id, Group: -1, Idx: len(s.Cmds)}
	c.Start = int64(len(s.Bytes))
	s.Bytes = append(s.Bytes, Encode(c.Name, c.Args)...)
	c.End = int64(len(s.Bytes))
	s.Cmds = append(s.Cmds, c)
	return &s.Cmds[len(s.Cmds)-1]
}

// AppendSelect appends a SELECT (outside any transaction).
func (s *Stream) AppendSelect(db int) {
	c := Cmd{Kind: KSelect, Name: "SELECT", Args: [][]byte{[]byte(strconv.Itoa(db))}, DB: db, Group: -1, Idx: len(s.Cmds)}
	c.Start = int64(len(s.Bytes))
	s.Bytes = append(s.Bytes, Encode(c.Name, c.Args)...)
	c.End = int64(len(s.Bytes))
	s.Cmds = append(s.Cmds, c)
}

// LastDB returns the source database in force at the end of the stream.
func (s *Stream) LastDB() int {
	if len(s.Cmds) == 0 {
		return 0
	}
	return s.Cmds[len(s.Cmds)-1].DB
}

func pick(r *rand.Rand, xs ...string) string { return xs[r.Intn(len(xs))] }

func caseMix(r *rand.Rand, s string) string {
	switch r.Intn(3) {
	case 0:
		return strings.ToUpper(s)
	case 1:
		return strings.ToLower(s)
	}
	return s
}
