package chanmodel

import (
	"io"
	"testing"
)

func TestPRFFillMatchesByte(t *testing.T) {
	p := PRF{Key: 7}
	for _, off := range []int64{0, 1, 7, 8, 9, 1000, 1 << 33} {
		buf := make([]byte, 37)
		p.Fill(buf, 3, Aof, off)
		for i := range buf {
			if buf[i] != p.Byte(3, Aof, off+int64(i)) {
				t.Fatalf("fill/byte differ at %d+%d", off, i)
			}
		}
		if p.FirstMismatch(buf, 3, Aof, off) != -1 {
			t.Fatal("self mismatch")
		}
		buf[20] ^= 1
		if p.FirstMismatch(buf, 3, Aof, off) != 20 {
			t.Fatal("mismatch index")
		}
	}
	a, b := make([]byte, 64), make([]byte, 64)
	p.Fill(a, 1, Aof, 100)
	p.Fill(b, 2, Aof, 100)
	if string(a) == string(b) {
		t.Fatal("epochs not separated")
	}
	p.Fill(b, 1, Rdb, 100)
	if string(a) == string(b) {
		t.Fatal("streams not separated")
	}
}

func TestFeedCounters(t *testing.T) {
	p := PRF{Key: 1}
	f := NewFeed(p, 1, Aof, 100)
	f.Push(10)
	f.Push(5)
	buf := make([]byte, 8)
	n, _ := f.Read(buf)
	if n != 8 || f.Handed() != 8 || f.Confirmed() != 0 {
		t.Fatalf("n=%d handed=%d confirmed=%d", n, f.Handed(), f.Confirmed())
	}
	if p.FirstMismatch(buf[:n], 1, Aof, 100) != -1 {
		t.Fatal("bytes")
	}
	n, _ = f.Read(buf)
	if n != 2 || f.Confirmed() != 8 || f.Handed() != 10 {
		t.Fatalf("n=%d", n)
	}
	n, _ = f.Read(buf)
	if n != 5 || p.FirstMismatch(buf[:n], 1, Aof, 110) != -1 {
		t.Fatalf("n=%d", n)
	}
	done := make(chan struct{})
	go func() {
		n, err := f.Read(buf)
		if n != 0 || err != io.EOF {
			t.Errorf("end: %d %v", n, err)
		}
		close(done)
	}()
	if !f.WaitIdle(nil) {
		t.Fatal("idle")
	}
	if f.Confirmed() != 15 {
		t.Fatal("confirmed at idle")
	}
	f.End(io.EOF)
	<-done
	if !f.EndSeen() {
		t.Fatal("endseen")
	}
}

func TestReaderCheck(t *testing.T) {
	m := NewModel(PRF{Key: 9})
	e1 := m.NewEpoch("A")
	f1 := NewFeed(m.PRF, e1.AofID(), Aof, 100)
	e1.BeginAof(100, f1)
	f1.Push(300)
	buf := make([]byte, 300)
	io.ReadFull(f1, buf)
	e2 := m.NewEpoch("B")
	if e2.ID == e1.ID {
		t.Fatal("epoch not advanced")
	}
	f2 := NewFeed(m.PRF, e2.AofID(), Aof, 100)
	e2.BeginAof(100, f2)
	f2.Push(300)
	buf2 := make([]byte, 300)
	io.ReadFull(f2, buf2)

	rc := m.NewReaderCheck(e1.ID, e2.ID, Aof, 150)
	if mm := rc.Verify(buf[50:120]); mm != nil {
		t.Fatal(mm)
	}
	if got := rc.Epochs(); len(got) != 1 || got[0] != e1.ID {
		t.Fatalf("candidates %v", got)
	}
	// continues into the other epoch's bytes at a later offset: foreign epoch
	mm := rc.Verify(buf2[200:260])
	if mm == nil || mm.Kind != "foreign-history" || mm.Origin.Epoch != e2.ID || mm.Origin.Off != 300 {
		t.Fatalf("%+v", mm)
	}
	// wrong offset inside the same epoch
	rc = m.NewReaderCheck(e1.ID, e1.ID, Aof, 150)
	mm = rc.Verify(buf[60:100])
	if mm == nil || mm.Kind != "wrong-offset" || mm.Origin.Off != 160 {
		t.Fatalf("%+v", mm)
	}
	// bytes beyond what was written
	rc = m.NewReaderCheck(e1.ID, e1.ID, Aof, 390)
	ahead := make([]byte, 30)
	m.PRF.Fill(ahead, e1.AofID(), Aof, 390)
	mm = rc.Verify(ahead)
	if mm == nil || mm.Kind != "unwritten" || mm.At != 400 {
		t.Fatalf("%+v", mm)
	}
	if rc.Pos() != 10 {
		t.Fatalf("pos %d", rc.Pos())
	}
}

func TestSameSourceSameBytes(t *testing.T) {
	m := NewModel(PRF{Key: 5})
	e1 := m.NewEpoch("A")
	f1 := NewFeed(m.PRF, e1.AofID(), Aof, 100)
	e1.BeginAof(100, f1)
	f1.Push(50)
	b1 := make([]byte, 50)
	io.ReadFull(f1, b1)
	e2 := m.NewEpoch("A") // the cache was reset, the same source is followed again from 120
	f2 := NewFeed(m.PRF, e2.AofID(), Aof, 120)
	e2.BeginAof(120, f2)
	f2.Push(100)
	b2 := make([]byte, 100)
	io.ReadFull(f2, b2)
	if string(b1[20:50]) != string(b2[:30]) {
		t.Fatal("the same source must produce the same bytes at the same offsets")
	}
	// a reader of the first epoch that goes on into what only the second epoch stored still
	// delivers the source bytes at its offsets
	rc := m.NewReaderCheck(e1.ID, e1.ID, Aof, 130)
	if mm := rc.Verify(b2[10:90]); mm != nil {
		t.Fatal(mm)
	}
	// ... but not beyond what anybody stored
	rc = m.NewReaderCheck(e1.ID, e1.ID, Aof, 210)
	ahead := make([]byte, 20)
	m.PRF.Fill(ahead, e1.AofID(), Aof, 210)
	if mm := rc.Verify(ahead); mm == nil || mm.Kind != "unwritten" || mm.At != 220 {
		t.Fatalf("%+v", mm)
	}
	e3 := m.NewEpoch("B")
	if e3.AofID() == e1.AofID() {
		t.Fatal("another source must have another id")
	}
}

func TestEpochReuseAndBounds(t *testing.T) {
	m := NewModel(PRF{Key: 2})
	e := m.NewEpoch("A")
	if e.ID != 0 || m.NewEpoch("B").ID != 0 {
		t.Fatal("empty epoch must be reused")
	}
	f := NewFeed(m.PRF, e.RdbID(500), Rdb, 0)
	e.BeginRdb(500, 20, f)
	f.Push(20)
	b := make([]byte, 20)
	io.ReadFull(f, b)
	lo, hi := e.RdbBounds()
	if lo != 0 || hi != 20 {
		t.Fatalf("%d %d", lo, hi)
	}
	e.EndRdb()
	lo, hi = e.RdbBounds()
	if lo != 20 || hi != 20 {
		t.Fatalf("%d %d", lo, hi)
	}
	if ended, complete := e.RdbState(); !ended || !complete {
		t.Fatal("state")
	}
	if m.NewEpoch("C").ID != 1 {
		t.Fatal("epoch with data must not be reused")
	}
}

func TestHistory(t *testing.T) {
	h := NewHistory(8)
	for i := 0; i < 20; i++ {
		h.Op("w", "append", "1", "ok")
	}
	ev := h.Events()
	if len(ev) != 9 || h.Kinds()["append"] != 20 {
		t.Fatalf("%d %v", len(ev), h.Kinds())
	}
}
