package chanmodel

import (
	"fmt"
	"sync"
	"sync/atomic"
)

// History records the calls made at the cache boundary and their results, ordered by one
// monotonic counter (a call and its return are two events in concurrent workloads).
type History struct {
	seq    atomic.Int64
	mu     sync.Mutex
	events []string
	max    int
	drop   int
	kinds  map[string]int64
}

func NewHistory(max int) *History {
	return &History{max: max, kinds: map[string]int64{}}
}

func (h *History) add(s string) {
	h.mu.Lock()
	if h.max > 0 && len(h.events) >= h.max {
		// keep the head (set-up) and the tail (what led to the alarm)
		keep := h.max / 4
		copy(h.events[keep:], h.events[keep+1:])
		h.events = h.events[:len(h.events)-1]
		h.drop++
	}
	h.events = append(h.events, s)
	h.mu.Unlock()
}

// Op records a completed call (sequential workloads): "op(arg) -> ret".
func (h *History) Op(who, op, arg, ret string) {
	n := h.seq.Add(1)
	h.mu.Lock()
	h.kinds[op]++
	h.mu.Unlock()
	h.add(fmt.Sprintf("%d %s %s(%s) -> %s", n, who, op, arg, ret))
}

// Call records an invocation and returns its id for Ret.
func (h *History) Call(who, op, arg string) int64 {
	n := h.seq.Add(1)
	h.mu.Lock()
	h.kinds[op]++
	h.mu.Unlock()
	h.add(fmt.Sprintf("%d %s call %s(%s)", n, who, op, arg))
	return n
}

func (h *History) Ret(who string, call int64, ret string) {
	n := h.seq.Add(1)
	h.add(fmt.Sprintf("%d %s ret#%d -> %s", n, who, call, ret))
}

// Note records a harness-side fact (not a cache call).
func (h *History) Note(format string, a ...any) {
	n := h.seq.Add(1)
	h.add(fmt.Sprintf("%d -- %s", n, fmt.Sprintf(format, a...)))
}

func (h *History) Events() []string {
	h.mu.Lock()
	defer h.mu.Unlock()
	out := append([]string(nil), h.events...)
	if h.drop > 0 {
		out = append(out, fmt.Sprintf("(%d middle events dropped)", h.drop))
	}
	return out
}

// Tail returns the last n events.
func (h *History) Tail(n int) []string {
	ev := h.Events()
	if len(ev) > n {
		ev = ev[len(ev)-n:]
	}
	return ev
}

// Kinds returns the number of calls per operation.
func (h *History) Kinds() map[string]int64 {
	h.mu.Lock()
	defer h.mu.Unlock()
	out := map[string]int64{}
	for k, v := range h.kinds {
		out[k] = v
	}
	return out
}
