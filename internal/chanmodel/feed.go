package chanmodel

import (
	"io"
	"sync"
	"sync/atomic"
)

// Feed is the io.Reader a cache writer ingests from (it stands for the replication connection).
// It hands out the source bytes of (source id, stream) starting at Start, in the chunks the harness
// pushes.  Two monotone counters bound what the writer can have stored at any instant:
//
//	Confirmed: bytes returned by Read calls that were followed by another Read call — the writer
//	           loops read→store→read, so these are stored;
//	Handed:    bytes returned by Read so far (incremented before Read returns) — nothing beyond
//	           this can be stored.
type Feed struct {
	prf    PRF
	ID     uint64 // source id of the stream (history id, or snapshot id)
	Stream Stream
	Start  int64

	mu      sync.Mutex
	queue   []int // pushed chunk sizes not yet handed out
	endErr  error // returned once the queue is empty (nil: keep blocking)
	inRead  bool
	changed chan struct{}

	pushed    atomic.Int64
	handed    atomic.Int64
	confirmed atomic.Int64
	reads     atomic.Int64
	endSeen   atomic.Bool // the writer has been given endErr
}

func NewFeed(p PRF, id uint64, s Stream, start int64) *Feed {
	return &Feed{prf: p, ID: id, Stream: s, Start: start, changed: make(chan struct{})}
}

func (f *Feed) notifyLocked() {
	close(f.changed)
	f.changed = make(chan struct{})
}

// Push lets the writer read n more bytes; one Push is handed out by one Read (or several, when
// the writer's buffer is smaller).
func (f *Feed) Push(n int) {
	if n <= 0 {
		return
	}
	f.mu.Lock()
	f.queue = append(f.queue, n)
	f.pushed.Add(int64(n))
	f.notifyLocked()
	f.mu.Unlock()
}

// End makes Read return (0, err) once everything pushed has been handed out (connection closed
// or failed).  End(io.EOF) is the usual end of a connection.
func (f *Feed) End(err error) {
	if err == nil {
		err = io.EOF
	}
	f.mu.Lock()
	if f.endErr == nil {
		f.endErr = err
	}
	f.notifyLocked()
	f.mu.Unlock()
}

func (f *Feed) Read(p []byte) (int, error) {
	if len(p) == 0 {
		return 0, nil
	}
	f.mu.Lock()
	f.confirmed.Store(f.handed.Load())
	f.reads.Add(1)
	f.inRead = true
	f.notifyLocked()
	for len(f.queue) == 0 && f.endErr == nil {
		ch := f.changed
		f.mu.Unlock()
		<-ch
		f.mu.Lock()
	}
	if len(f.queue) == 0 {
		err := f.endErr
		f.inRead = false
		f.endSeen.Store(true)
		f.notifyLocked()
		f.mu.Unlock()
		return 0, err
	}
	n := f.queue[0]
	if n > len(p) {
		n = len(p)
		f.queue[0] -= n
	} else {
		f.queue = f.queue[1:]
	}
	off := f.Start + f.handed.Load()
	f.prf.Fill(p[:n], f.ID, f.Stream, off)
	f.handed.Add(int64(n))
	f.inRead = false
	f.notifyLocked()
	f.mu.Unlock()
	return n, nil
}

func (f *Feed) Pushed() int64    { return f.pushed.Load() }
func (f *Feed) Handed() int64    { return f.handed.Load() }
func (f *Feed) Confirmed() int64 { return f.confirmed.Load() }
func (f *Feed) Reads() int64     { return f.reads.Load() }
func (f *Feed) EndSeen() bool    { return f.endSeen.Load() }

// Idle reports whether the writer is blocked in Read with nothing left to hand out: everything
// pushed so far has been stored (Confirmed == Handed == Pushed).
func (f *Feed) Idle() bool {
	f.mu.Lock()
	defer f.mu.Unlock()
	return f.inRead && len(f.queue) == 0 && f.endErr == nil
}

// WaitIdle blocks until Idle(), or until stop is closed (returns false).
func (f *Feed) WaitIdle(stop <-chan struct{}) bool {
	for {
		f.mu.Lock()
		if f.inRead && len(f.queue) == 0 && f.endErr == nil {
			f.mu.Unlock()
			return true
		}
		ch := f.changed
		f.mu.Unlock()
		select {
		case <-ch:
		case <-stop:
			return false
		}
	}
}
