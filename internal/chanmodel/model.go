package chanmodel

import (
	"fmt"
	"sync"
	"sync/atomic"
)

// Piece is what one replication-stream writer contributed to an epoch: source bytes from
// absolute offset Start on, as far as its feed got.
type Piece struct {
	Start int64
	Feed  *Feed
}

// Epoch is one data generation of the cache: everything between two resets (new snapshot,
// delete, close).  A run-id switch that keeps the data keeps the epoch.
type Epoch struct {
	ID int

	mu       sync.Mutex
	runID    string
	hist     uint64 // source history the epoch's bytes come from (fixed once data exists)
	hasRdb   bool
	rdbLeft  int64
	rdbSize  int64
	rdbFeed  *Feed
	rdbEnded bool // the snapshot writer has finished (complete or not)
	aof      []Piece
}

// SetRunID records the replication id the cache files the epoch under.  While nothing has been
// written the id also names the source history; afterwards (a run-id switch that keeps the data)
// the stream simply continues.
func (e *Epoch) SetRunID(id string) {
	e.mu.Lock()
	e.runID = id
	if !e.hasRdb && len(e.aof) == 0 {
		e.hist = HistoryID(id)
	}
	e.mu.Unlock()
}

// AofID / RdbID are the source ids of the epoch's two streams.
func (e *Epoch) AofID() uint64 { e.mu.Lock(); defer e.mu.Unlock(); return e.hist }
func (e *Epoch) RdbID(left int64) uint64 {
	e.mu.Lock()
	defer e.mu.Unlock()
	return SnapshotID(e.hist, left)
}

func (e *Epoch) streamID(s Stream) uint64 {
	e.mu.Lock()
	defer e.mu.Unlock()
	if s == Rdb {
		return SnapshotID(e.hist, e.rdbLeft)
	}
	return e.hist
}
func (e *Epoch) RunID() string { e.mu.Lock(); defer e.mu.Unlock(); return e.runID }

// BeginRdb records a snapshot writer (left = replication offset the stream continues at).
func (e *Epoch) BeginRdb(left, size int64, f *Feed) {
	e.mu.Lock()
	e.hasRdb, e.rdbLeft, e.rdbSize, e.rdbFeed, e.rdbEnded = true, left, size, f, false
	e.mu.Unlock()
}

// EndRdb records that the snapshot writer finished.
func (e *Epoch) EndRdb() { e.mu.Lock(); e.rdbEnded = true; e.mu.Unlock() }

// RdbInfo returns the snapshot coordinates; ok=false when the epoch has no snapshot.
func (e *Epoch) RdbInfo() (left, size int64, ok bool) {
	e.mu.Lock()
	defer e.mu.Unlock()
	return e.rdbLeft, e.rdbSize, e.hasRdb
}

// RdbBounds: the number of snapshot bytes stored lies in [lo, hi].
func (e *Epoch) RdbBounds() (lo, hi int64) {
	e.mu.Lock()
	f := e.rdbFeed
	size := e.rdbSize
	ended := e.rdbEnded
	e.mu.Unlock()
	if f == nil {
		return 0, 0
	}
	lo, hi = f.Confirmed(), f.Handed()
	if hi > size {
		hi = size
	}
	// a writer that saw the end of its input, or finished after taking all size bytes (it never
	// reads again then), has stored everything it was handed
	if f.EndSeen() || (ended && hi >= size) {
		lo = hi
	}
	if lo > hi {
		lo = hi
	}
	return
}

// RdbState: ended = writer finished; complete = all size bytes were handed to it.
func (e *Epoch) RdbState() (ended, complete bool) {
	e.mu.Lock()
	defer e.mu.Unlock()
	if !e.hasRdb {
		return false, false
	}
	return e.rdbEnded, e.rdbFeed != nil && e.rdbFeed.Handed() >= e.rdbSize
}

// BeginAof records a replication-stream writer starting at absolute offset start.
func (e *Epoch) BeginAof(start int64, f *Feed) {
	e.mu.Lock()
	e.aof = append(e.aof, Piece{Start: start, Feed: f})
	e.mu.Unlock()
}

// AofStart is the first replication offset written in this epoch.
func (e *Epoch) AofStart() (int64, bool) {
	e.mu.Lock()
	defer e.mu.Unlock()
	if len(e.aof) == 0 {
		return 0, false
	}
	return e.aof[0].Start, true
}

// AofBounds: the right edge (first offset not stored) lies in [lo, hi].
func (e *Epoch) AofBounds() (lo, hi int64, ok bool) {
	e.mu.Lock()
	defer e.mu.Unlock()
	if len(e.aof) == 0 {
		return 0, 0, false
	}
	p := e.aof[len(e.aof)-1]
	lo, hi = p.Start+p.Feed.Confirmed(), p.Start+p.Feed.Handed()
	if p.Feed.EndSeen() {
		lo = hi
	}
	return lo, hi, true
}

// HasData reports whether anything was ever offered to the cache in this epoch.
func (e *Epoch) HasData() bool {
	e.mu.Lock()
	defer e.mu.Unlock()
	return e.hasRdb || len(e.aof) > 0
}

// written reports whether offset off of stream s can have been stored in this epoch.
func (e *Epoch) written(s Stream, off int64) bool {
	if s == Rdb {
		e.mu.Lock()
		ok := e.hasRdb && off >= 0 && off < e.rdbSize && e.rdbFeed != nil && off < e.rdbFeed.Handed()
		e.mu.Unlock()
		return ok
	}
	e.mu.Lock()
	defer e.mu.Unlock()
	for _, p := range e.aof {
		if off >= p.Start && off < p.Start+p.Feed.Handed() {
			return true
		}
	}
	return false
}

// Model is the set of epochs of one cache instance.
type Model struct {
	PRF PRF

	mu     sync.Mutex
	epochs []*Epoch
	cur    atomic.Int64
	// resetSeq is a sequence lock around operations that change what the cache holds other than
	// by appending (resets, run-id changes): odd while one is in progress.
	resetSeq atomic.Int64
}

func NewModel(p PRF) *Model {
	m := &Model{PRF: p}
	m.epochs = []*Epoch{{ID: 0}}
	return m
}

func (m *Model) Cur() *Epoch {
	m.mu.Lock()
	defer m.mu.Unlock()
	return m.epochs[len(m.epochs)-1]
}

func (m *Model) CurID() int { return int(m.cur.Load()) }

func (m *Model) Epoch(id int) *Epoch {
	m.mu.Lock()
	defer m.mu.Unlock()
	if id < 0 || id >= len(m.epochs) {
		return nil
	}
	return m.epochs[id]
}

func (m *Model) Epochs() int { m.mu.Lock(); defer m.mu.Unlock(); return len(m.epochs) }

// NewEpoch starts a new data generation (call it before the cache operation that resets).  An
// epoch nothing was ever written to is reused.
func (m *Model) NewEpoch(runID string) *Epoch {
	m.mu.Lock()
	defer m.mu.Unlock()
	c := m.epochs[len(m.epochs)-1]
	if !c.HasData() {
		c.SetRunID(runID)
		return c
	}
	e := &Epoch{ID: len(m.epochs), runID: runID, hist: HistoryID(runID)}
	m.epochs = append(m.epochs, e)
	m.cur.Store(int64(e.ID))
	return e
}

// BeginChange / EndChange bracket every non-append state change.
func (m *Model) BeginChange()     { m.resetSeq.Add(1) }
func (m *Model) EndChange()       { m.resetSeq.Add(1) }
func (m *Model) ChangeSeq() int64 { return m.resetSeq.Load() }

// Identify searches every epoch for the (stream, offset) a delivered window comes from.
func (m *Model) Identify(window []byte) Origin {
	if len(window) > 16 {
		window = window[:16]
	}
	best := Origin{}
	if len(window) < 4 {
		return best
	}
	m.mu.Lock()
	eps := append([]*Epoch(nil), m.epochs...)
	m.mu.Unlock()
	try := func(e *Epoch, s Stream, from, to int64) {
		id := e.streamID(s)
		for off := from; off < to; off++ {
			if m.PRF.Byte(id, s, off) != window[0] {
				continue
			}
			n := m.PRF.FirstMismatch(window, id, s, off)
			if n < 0 {
				n = len(window)
			}
			if n > best.Len && n >= 4 {
				best = Origin{Found: true, Epoch: e.ID, RunID: e.RunID(), ID: id, Stream: s, Off: off, Len: n}
			}
		}
	}
	for _, e := range eps {
		if _, size, ok := e.RdbInfo(); ok {
			try(e, Rdb, 0, size)
		}
		e.mu.Lock()
		ps := append([]Piece(nil), e.aof...)
		e.mu.Unlock()
		for _, p := range ps {
			try(e, Aof, p.Start, p.Start+p.Feed.Handed())
		}
	}
	return best
}

// writtenAny: has any epoch fed by the same source stream stored offset off?  (The same source
// produces the same byte at the same offset in every epoch.)
func (m *Model) writtenAny(id uint64, s Stream, off int64) bool {
	m.mu.Lock()
	eps := append([]*Epoch(nil), m.epochs...)
	m.mu.Unlock()
	for _, e := range eps {
		if e.streamID(s) == id && e.written(s, off) {
			return true
		}
	}
	return false
}

// Mismatch describes reader output that no candidate epoch explains.
type Mismatch struct {
	Kind     string // foreign-history | wrong-offset | unwritten | unknown-bytes
	Epoch    int    // the reader's epoch (last surviving candidate)
	ID       uint64 // source id of the reader's stream
	Stream   Stream
	At       int64 // stream offset of the first wrong byte
	Expected []byte
	Got      []byte
	Origin   Origin
}

func (mm *Mismatch) String() string {
	return fmt.Sprintf("%s: reader of epoch %d %s delivered at offset %d bytes %x, source bytes there are %x; delivered bytes come from: %s",
		mm.Kind, mm.Epoch, mm.Stream, mm.At, mm.Got, mm.Expected, mm.Origin)
}

// Extend re-identifies a mismatch once more delivered bytes (following mm.Got) are known; short
// reads alone are too short a window to tell where bytes come from.
func (m *Model) Extend(mm *Mismatch, more []byte) {
	if mm.Kind == "unwritten" || len(more) == 0 {
		return
	}
	w := append(append([]byte(nil), mm.Got...), more...)
	if len(w) > 16 {
		w = w[:16]
	}
	mm.Got = w
	mm.Expected = make([]byte, len(w))
	m.PRF.Fill(mm.Expected, mm.ID, mm.Stream, mm.At)
	mm.Origin = m.Identify(w)
	switch {
	case !mm.Origin.Found:
		mm.Kind = "unknown-bytes"
	case mm.Origin.ID != mm.ID:
		mm.Kind = "foreign-history"
	default:
		mm.Kind = "wrong-offset"
	}
}

// ReaderCheck verifies the byte stream of one cache reader: byte i must be the source byte
// (source of the epoch, stream, start+i) of one fixed epoch among the candidates, and must have
// been written.
type ReaderCheck struct {
	m      *Model
	mu     sync.Mutex // cands
	cands  []int
	Stream Stream
	Start  int64
	pos    atomic.Int64
	failed atomic.Bool
}

// NewReaderCheck: the reader was obtained while the current epoch was somewhere in [epLo, epHi].
func (m *Model) NewReaderCheck(epLo, epHi int, s Stream, start int64) *ReaderCheck {
	rc := &ReaderCheck{m: m, Stream: s, Start: start}
	if epLo < 0 {
		epLo = 0
	}
	for e := epLo; e <= epHi; e++ {
		rc.cands = append(rc.cands, e)
	}
	return rc
}

// Pos is the number of bytes verified so far.
func (rc *ReaderCheck) Pos() int64 { return rc.pos.Load() }

// Epochs returns the epochs still consistent with everything delivered.
func (rc *ReaderCheck) Epochs() []int {
	rc.mu.Lock()
	defer rc.mu.Unlock()
	return append([]int(nil), rc.cands...)
}

// Verify checks the next chunk delivered (single consumer).
func (rc *ReaderCheck) Verify(p []byte) *Mismatch {
	if rc.failed.Load() || len(p) == 0 {
		return nil
	}
	rc.mu.Lock()
	defer rc.mu.Unlock()
	base := rc.Start + rc.pos.Load()
	keep := rc.cands[:0:0]
	worstAt := -1
	worstEp := -1
	worstUnwritten := false
	for _, id := range rc.cands {
		e := rc.m.Epoch(id)
		if e == nil {
			continue
		}
		sid := e.streamID(rc.Stream)
		bad := rc.m.PRF.FirstMismatch(p, sid, rc.Stream, base)
		unwritten := false
		// every delivered byte must have been written (by this epoch, or by another epoch fed by
		// the same source: same bytes); what is written of one stream is contiguous, so look for
		// the first unwritten index by bisection
		n := len(p)
		if bad >= 0 {
			n = bad
		}
		wr := func(i int) bool { return rc.m.writtenAny(sid, rc.Stream, base+int64(i)) }
		if n > 0 && !wr(0) {
			bad, unwritten = 0, true
		} else if n > 0 && !wr(n-1) {
			lo, hi := 0, n-1 // written(lo), !written(hi)
			for hi-lo > 1 {
				mid := (lo + hi) / 2
				if wr(mid) {
					lo = mid
				} else {
					hi = mid
				}
			}
			bad, unwritten = hi, true
		}
		if bad < 0 {
			keep = append(keep, id)
			continue
		}
		if bad > worstAt {
			worstAt, worstEp, worstUnwritten = bad, id, unwritten
		}
	}
	if len(keep) > 0 {
		rc.cands = keep
		rc.pos.Add(int64(len(p)))
		return nil
	}
	rc.failed.Store(true)
	rc.pos.Add(int64(worstAt))
	at := base + int64(worstAt)
	end := worstAt + 16
	if end > len(p) {
		end = len(p)
	}
	got := append([]byte(nil), p[worstAt:end]...)
	exp := make([]byte, len(got))
	var sid uint64
	if e := rc.m.Epoch(worstEp); e != nil {
		sid = e.streamID(rc.Stream)
	}
	rc.m.PRF.Fill(exp, sid, rc.Stream, at)
	mm := &Mismatch{Epoch: worstEp, ID: sid, Stream: rc.Stream, At: at, Expected: exp, Got: got, Origin: rc.m.Identify(got)}
	switch {
	case worstUnwritten:
		mm.Kind = "unwritten"
	case !mm.Origin.Found:
		mm.Kind = "unknown-bytes"
	case mm.Origin.ID != sid:
		mm.Kind = "foreign-history"
	default:
		mm.Kind = "wrong-offset"
	}
	return mm
}
