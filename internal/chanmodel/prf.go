// Package chanmodel is the oracle side of check C05: a byte-by-offset model of what a
// syncer.Channel (disk or memory cache) was given, self-identifying source bytes, feeders with
// monotone progress counters, a verifier for reader output and a call/return history recorder.
//
// It knows nothing about how either backend stores, rotates or collects data: it only knows
// which byte was written at which offset of which epoch (data generation).
package chanmodel

import "fmt"

// Stream distinguishes the two byte streams of an epoch: the snapshot (indexed 0..size-1) and the
// replication stream (indexed by absolute replication offset).
type Stream uint8

const (
	Rdb Stream = 0
	Aof Stream = 1
)

func (s Stream) String() string {
	if s == Rdb {
		return "rdb"
	}
	return "aof"
}

// PRF maps (epoch, stream, offset) to a byte.  Key separates histories.
type PRF struct{ Key uint64 }

func mix(x uint64) uint64 {
	x += 0x9e3779b97f4a7c15
	x = (x ^ (x >> 30)) * 0xbf58476d1ce4e5b9
	x = (x ^ (x >> 27)) * 0x94d049bb133111eb
	return x ^ (x >> 31)
}

func (p PRF) word(epoch int, s Stream, blk uint64) uint64 {
	return mix(mix(p.Key^(uint64(epoch)<<8|uint64(s))) ^ (blk * 0xd6e8feb86659fd93))
}

// Byte is the source byte at offset off of stream s in epoch.
func (p PRF) Byte(epoch int, s Stream, off int64) byte {
	u := uint64(off)
	return byte(p.word(epoch, s, u>>3) >> (8 * (u & 7)))
}

// Fill writes the source bytes for offsets off, off+1, ... into dst.
func (p PRF) Fill(dst []byte, epoch int, s Stream, off int64) {
	u := uint64(off)
	i := 0
	for i < len(dst) {
		w := p.word(epoch, s, u>>3)
		for k := u & 7; k < 8 && i < len(dst); k++ {
			dst[i] = byte(w >> (8 * k))
			i++
			u++
		}
	}
}

// FirstMismatch returns the index of the first byte of got that differs from the source bytes
// at off, off+1, ..., or -1.
func (p PRF) FirstMismatch(got []byte, epoch int, s Stream, off int64) int {
	u := uint64(off)
	i := 0
	for i < len(got) {
		w := p.word(epoch, s, u>>3)
		for k := u & 7; k < 8 && i < len(got); k++ {
			if got[i] != byte(w>>(8*k)) {
				return i
			}
			i++
			u++
		}
	}
	return -1
}

// Origin says where a delivered window of bytes comes from.
type Origin struct {
	Found  bool
	Epoch  int
	Stream Stream
	Off    int64
	Len    int // how many bytes of the window matched
}

func (o Origin) String() string {
	if !o.Found {
		return "no written (epoch, offset) produces these bytes"
	}
	return fmt.Sprintf("epoch %d %s offset %d (%d bytes match)", o.Epoch, o.Stream, o.Off, o.Len)
}
