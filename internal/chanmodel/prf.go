// Package chanmodel is the oracle side of check C05: a byte-by-offset model of what a
// syncer.Channel (disk or memory cache) was given, self-identifying source bytes, feeders with
// monotone progress counters, a verifier for reader output and a call/return history recorder.
//
// It knows nothing about how either backend stores, rotates or collects data: it only knows
// which byte was written at which offset of which epoch (data generation).
package chanmodel

import "fmt"

// Stream distinguishes the two byte streams of an epoch: the snapshot (indexed 0..size-1) and the
// replication stream (indexed by absolute replication offset).
type Stream uint8

const (
	Rdb Stream = 0
	Aof Stream = 1
)

func (s Stream) String() string {
	if s == Rdb {
		return "rdb"
	}
	return "aof"
}

// PRF maps (source history, stream, offset) to a byte.  Key separates harness histories; the
// source history is identified by a 64-bit id derived from the replication id (HistoryID): the
// same source at the same offset always produces the same byte, as a real replication stream does.
type PRF struct{ Key uint64 }

// HistoryID derives the source-history id from a replication (run) id.
func HistoryID(runID string) uint64 {
	h := uint64(1469598103934665603)
	for i := 0; i < len(runID); i++ {
		h = (h ^ uint64(runID[i])) * 1099511628211
	}
	return mix(h)
}

// SnapshotID is the id of the snapshot stream a source produces at replication offset left.
func SnapshotID(hist uint64, left int64) uint64 { return mix(hist ^ mix(uint64(left)+0x51ed27)) }

func mix(x uint64) uint64 {
	x += 0x9e3779b97f4a7c15
	x = (x ^ (x >> 30)) * 0xbf58476d1ce4e5b9
	x = (x ^ (x >> 27)) * 0x94d049bb133111eb
	return x ^ (x >> 31)
}

func (p PRF) word(id uint64, s Stream, blk uint64) uint64 {
	return mix(mix(p.Key^mix(id)^uint64(s)) ^ (blk * 0xd6e8feb86659fd93))
}

// Byte is the source byte at offset off of stream s of source id.
func (p PRF) Byte(id uint64, s Stream, off int64) byte {
	u := uint64(off)
	return byte(p.word(id, s, u>>3) >> (8 * (u & 7)))
}

// Fill writes the source bytes for offsets off, off+1, ... into dst.
func (p PRF) Fill(dst []byte, id uint64, s Stream, off int64) {
	u := uint64(off)
	i := 0
	for i < len(dst) {
		w := p.word(id, s, u>>3)
		for k := u & 7; k < 8 && i < len(dst); k++ {
			dst[i] = byte(w >> (8 * k))
			i++
			u++
		}
	}
}

// FirstMismatch returns the index of the first byte of got that differs from the source bytes
// at off, off+1, ..., or -1.
func (p PRF) FirstMismatch(got []byte, id uint64, s Stream, off int64) int {
	u := uint64(off)
	i := 0
	for i < len(got) {
		w := p.word(id, s, u>>3)
		for k := u & 7; k < 8 && i < len(got); k++ {
			if got[i] != byte(w>>(8*k)) {
				return i
			}
			i++
			u++
		}
	}
	return -1
}

// Origin says where a delivered window of bytes comes from.
type Origin struct {
	Found  bool
	Epoch  int
	RunID  string
	ID     uint64 // source id of the stream the bytes come from
	Stream Stream
	Off    int64
	Len    int // how many bytes of the window matched
}

func (o Origin) String() string {
	if !o.Found {
		return "no written (epoch, offset) produces these bytes"
	}
	return fmt.Sprintf("epoch %d (source %q) %s offset %d (%d bytes match)", o.Epoch, o.RunID, o.Stream, o.Off, o.Len)
}
