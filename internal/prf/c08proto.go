package prf

// Protocol shared by the C08 parent (checks/c08) and its writer child (checks/c08/child):
// workload parameters, the PRF keying of snapshot/log bytes by generation, and the layout of
// the shared progress page.

import (
	"encoding/binary"
	"fmt"
	"os"
	"sync/atomic"
	"syscall"
	"unsafe"

	"github.com/mgtv-tech/redis-GunYu/pkg/digest"
)

// GenStride separates the offset spaces of generations: generation g owns the replication
// offsets [g*GenStride, (g+1)*GenStride), so an offset alone identifies its generation (epoch).
const GenStride = int64(1) << 26

// MaxGens is the number of generation slots of the progress page.
const MaxGens = 8

// Gen is one full-sync generation: a snapshot of S bytes taken at replication offset L followed
// by Log bytes of replication log [L, L+Log).
type Gen struct {
	RunId string `json:"run_id"`
	L     int64  `json:"l"`
	S     int64  `json:"s"`
	Log   int64  `json:"log"`
}

// Params is the child's workload.
type Params struct {
	Seed         int64   `json:"seed"`
	Dir          string  `json:"dir"` // StorerConf.Dir
	Shm          string  `json:"shm"` // progress page file
	Gens         []Gen   `json:"gens"`
	LogSize      int64   `json:"log_size"`
	MaxSize      int64   `json:"max_size"`
	GcEvery      int64   `json:"gc_every"`      // log bytes between collector passes (0: none)
	GcConcurrent bool    `json:"gc_concurrent"` // collector pass on its own goroutine (as the tool's timer) or between chunks
	ChunkMax     int     `json:"chunk_max"`
	PaceUs       int     `json:"pace_us"`
	Resume       bool    `json:"resume"`           // restart on an existing directory (after a SIGKILL)
	Faults       []Fault `json:"faults,omitempty"` // per generation: a write the file system refuses / a close at the last chunk
	Procs        int     `json:"procs"`
}

// Fault makes the environment hostile for one generation (Kind "" = none):
//
//	rdb-first / rdb-mid : RLIMIT_FSIZE is lowered before the snapshot is ingested to a byte count
//	                      inside the first chunk / anywhere inside the snapshot (A in [0,1) selects it)
//	rdb-last            : the limit is lowered when the LAST chunk [pos,S) is about to be handed to the
//	                      writer: pos (nothing of it fits), S-1, or inside it (A selects)
//	close-last          : the rdb writer is Closed (shutdown / cancelled run) DelayUs after the last chunk
//	                      was handed to its source reader; the tool then shuts down
//	log                 : once B*Log bytes of log are handed out the limit becomes 16+A*LogSize: the current
//	                      or next segment write is refused (possibly after a partial write)
//
// The child ignores SIGXFSZ, so the refused write returns EFBIG (stands for ENOSPC/EDQUOT/EIO).
type Fault struct {
	Kind    string  `json:"kind"`
	A       float64 `json:"a"`
	B       float64 `json:"b"`
	DelayUs int     `json:"delay_us"`
}

var FaultKinds = []string{"", "rdb-first", "rdb-mid", "rdb-last", "close-last", "log"}

func FaultCode(kind string) int64 {
	for i, k := range FaultKinds {
		if k == kind {
			return int64(i)
		}
	}
	return 0
}

// GenOf returns the generation index of a replication offset.
func GenOf(off int64) int {
	if off < 0 {
		return -1
	}
	return int(off / GenStride)
}

// AofKey is the PRF key of the log bytes of generation g.
func AofKey(seed int64, g int) uint64 { return Key(seed, 0xA0F, uint64(g)) }

// Snapshot returns the S bytes of generation g's snapshot: PRF bytes followed by the 8-byte
// little-endian CRC64 trailer an RDB file ends with (the cache verifies it when checksum
// verification is on).
func Snapshot(seed int64, g int, size int64) []byte {
	b := make([]byte, size)
	if size <= 8 {
		Fill(b, Key(seed, 0x4DB, uint64(g)), 0)
		return b
	}
	Fill(b[:size-8], Key(seed, 0x4DB, uint64(g)), 0)
	h := digest.New()
	h.Write(b[:size-8])
	binary.LittleEndian.PutUint64(b[size-8:], h.Sum64())
	return b
}

// Phases published by the child (slot SlotPhase).
const (
	PhaseInit     = 0
	PhaseSnap     = 1 // NewRdbWriter about to be called / snapshot being ingested
	PhaseSnapFed  = 2 // last snapshot chunk handed to the writer (sync+close+rename window)
	PhaseSnapDone = 3 // rdb writer finished
	PhaseLog      = 4 // NewAofWritter about to be called / log being ingested
	PhaseLogEnd   = 5 // source closed the connection, aof writer finishing
	PhaseReset    = 6 // new session: StartPoint, DelRunId (directory removal), SetRunId
	PhaseDone     = 7
	PhaseSnapFail = 8 // rdb writer ended without completing (refused write / closed): run error, back-off
	PhaseLogFail  = 9 // aof writer ended on a refused write: run error, back-off
)

// Slots of the progress page (uint64 each).
const (
	SlotPhase       = 0
	SlotPhaseSeq    = 1 // incremented at every trigger point
	SlotGen         = 2 // generation index being worked on
	SlotHandedTotal = 3 // bytes handed to writers in the whole chain (monotone)
	SlotArmed       = 4 // parent -> child: pause briefly at the next trigger point
	SlotGcPasses    = 5
	SlotGcEffective = 6 // passes in the current generation that removed something
	SlotInGc        = 7
	SlotInDel       = 8 // DelRunId in progress
	SlotSession     = 9
	SlotDone        = 10
	SlotRotations   = 11 // predicted rotations (feeder side)
	SlotDelSeq      = 12 // incremented when a directory removal (DelRunId) is about to start
	SlotFaultSeq    = 13 // incremented when a writer has ended after a planned fault (child then waits for the ack)
	SlotFaultAck    = 14 // parent -> child: image of that moment taken
	SlotFaultKind   = 15 // FaultCode of the last applied fault
	SlotFaultLimit  = 60 // RLIMIT_FSIZE value last applied (0: none)
	SlotFaultOk     = 61
	SlotLiveChecks  = 62 // in-process sweeps (child side)
	SlotLiveReaders = 63
	SlotLiveBytes   = 64
	SlotLiveLag     = 65 // sweeps in the lagging-reader/collector shape
	SlotLiveFault   = 66 // sweeps after a refused log write // 1 when the writer completed although a fault was planned (limit never bit / close came late)
	SlotGenBase     = 16 // per generation: started, rdbHanded, aofHanded(abs right edge), logDone
	GenSlots        = 4
	GenStarted      = 0
	GenRdbHanded    = 1
	GenAofHanded    = 2
	GenLogDone      = 3
	ShmSize         = 4096
)

// Shm is the shared progress page (a MAP_SHARED file mapping).
type Shm struct {
	mem []byte
}

func OpenShm(path string, create bool) (*Shm, error) {
	flags := os.O_RDWR
	if create {
		flags |= os.O_CREATE
	}
	f, err := os.OpenFile(path, flags, 0o644)
	if err != nil {
		return nil, err
	}
	defer f.Close()
	if create {
		if err := f.Truncate(ShmSize); err != nil {
			return nil, err
		}
	}
	mem, err := syscall.Mmap(int(f.Fd()), 0, ShmSize, syscall.PROT_READ|syscall.PROT_WRITE, syscall.MAP_SHARED)
	if err != nil {
		return nil, fmt.Errorf("mmap %s: %w", path, err)
	}
	return &Shm{mem: mem}, nil
}

func (s *Shm) Close() { _ = syscall.Munmap(s.mem) }

func (s *Shm) p(slot int) *uint64 { return (*uint64)(unsafe.Pointer(&s.mem[slot*8])) }

func (s *Shm) Load(slot int) int64     { return int64(atomic.LoadUint64(s.p(slot))) }
func (s *Shm) Store(slot int, v int64) { atomic.StoreUint64(s.p(slot), uint64(v)) }
func (s *Shm) Add(slot int, d int64) int64 {
	return int64(atomic.AddUint64(s.p(slot), uint64(d)))
}

// Max raises slot to v if v is larger.
func (s *Shm) Max(slot int, v int64) {
	for {
		o := atomic.LoadUint64(s.p(slot))
		if int64(o) >= v || atomic.CompareAndSwapUint64(s.p(slot), o, uint64(v)) {
			return
		}
	}
}

func GenSlot(g, field int) int { return SlotGenBase + g*GenSlots + field }

// Snapshot of the page taken by the parent while the child is stopped.
type ShmState struct {
	Phase       int64             `json:"phase"`
	PhaseSeq    int64             `json:"phase_seq"`
	Gen         int64             `json:"gen"`
	HandedTotal int64             `json:"handed_total"`
	GcPasses    int64             `json:"gc_passes"`
	GcEffective int64             `json:"gc_effective"`
	InGc        int64             `json:"in_gc"`
	InDel       int64             `json:"in_del"`
	Session     int64             `json:"session"`
	Done        int64             `json:"done"`
	FaultSeq    int64             `json:"fault_seq"`
	FaultKind   int64             `json:"fault_kind"`
	FaultLimit  int64             `json:"fault_limit"`
	Gens        [MaxGens][4]int64 `json:"gens"`
}

func (s *Shm) State() ShmState {
	st := ShmState{
		Phase: s.Load(SlotPhase), PhaseSeq: s.Load(SlotPhaseSeq), Gen: s.Load(SlotGen),
		HandedTotal: s.Load(SlotHandedTotal), GcPasses: s.Load(SlotGcPasses),
		GcEffective: s.Load(SlotGcEffective), InGc: s.Load(SlotInGc), InDel: s.Load(SlotInDel),
		Session: s.Load(SlotSession), Done: s.Load(SlotDone),
		FaultSeq: s.Load(SlotFaultSeq), FaultKind: s.Load(SlotFaultKind), FaultLimit: s.Load(SlotFaultLimit),
	}
	for g := 0; g < MaxGens; g++ {
		for f := 0; f < GenSlots; f++ {
			st.Gens[g][f] = s.Load(GenSlot(g, f))
		}
	}
	return st
}
