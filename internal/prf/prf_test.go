package prf

import (
	"bytes"
	"encoding/binary"
	"testing"

	"github.com/mgtv-tech/redis-GunYu/pkg/digest"
)

func TestFillMatchesByte(t *testing.T) {
	k := Key(7, 1, 2)
	for _, off := range []int64{0, 1, 7, 8, 9, 1<<26 + 5} {
		p := make([]byte, 37)
		Fill(p, k, off)
		for i := range p {
			if p[i] != Byte(k, off+int64(i)) {
				t.Fatalf("off %d i %d", off, i)
			}
		}
		if Mismatch(p, k, off) != -1 {
			t.Fatal("mismatch on equal")
		}
		p[20] ^= 1
		if Mismatch(p, k, off) != 20 {
			t.Fatal("mismatch index")
		}
	}
	a, b := make([]byte, 64), make([]byte, 64)
	Fill(a, Key(7, 1), 100)
	Fill(b, Key(7, 2), 100)
	if bytes.Equal(a, b) {
		t.Fatal("streams collide")
	}
}

func TestSnapshotTrailer(t *testing.T) {
	s := Snapshot(3, 1, 500)
	h := digest.New()
	h.Write(s[:492])
	if binary.LittleEndian.Uint64(s[492:]) != h.Sum64() {
		t.Fatal("trailer")
	}
	if GenOf(GenStride+5) != 1 || GenOf(5) != 0 {
		t.Fatal("gen")
	}
}
