// Package prf: self-identifying source bytes.  Every byte a workload hands to the code under
// test is PRF(key, offset), so a single delivered byte identifies (stream, offset) it came
// from (up to a 1/256 collision, and any run of k bytes up to 256^-k).
package prf

// mix is the splitmix64 finaliser.
func mix(x uint64) uint64 {
	x ^= x >> 30
	x *= 0xbf58476d1ce4e5b9
	x ^= x >> 27
	x *= 0x94d049bb133111eb
	x ^= x >> 31
	return x
}

// Key derives a stream key from a seed and a stream identity (epoch, kind, ...).
func Key(seed int64, ids ...uint64) uint64 {
	k := mix(uint64(seed) + 0x9e3779b97f4a7c15)
	for _, id := range ids {
		k = mix(k ^ mix(id+0x9e3779b97f4a7c15))
	}
	return k
}

func word(key uint64, w uint64) uint64 {
	return mix(key ^ mix(w*0x9e3779b97f4a7c15+1))
}

// Byte is PRF(key, off).
func Byte(key uint64, off int64) byte {
	w := word(key, uint64(off)>>3)
	return byte(w >> (8 * (uint64(off) & 7)))
}

// Fill writes PRF(key, off+i) into p[i].
func Fill(p []byte, key uint64, off int64) {
	i := 0
	for i < len(p) {
		o := uint64(off) + uint64(i)
		w := word(key, o>>3)
		for s := o & 7; s < 8 && i < len(p); s++ {
			p[i] = byte(w >> (8 * s))
			i++
		}
	}
}

// Mismatch returns the index of the first byte of p that differs from PRF(key, off+i), or -1.
func Mismatch(p []byte, key uint64, off int64) int {
	i := 0
	for i < len(p) {
		o := uint64(off) + uint64(i)
		w := word(key, o>>3)
		for s := o & 7; s < 8 && i < len(p); s++ {
			if p[i] != byte(w>>(8*s)) {
				return i
			}
			i++
		}
	}
	return -1
}
