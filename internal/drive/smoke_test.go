package drive

import (
	"context"
	"fmt"
	"math/rand"
	"testing"
	"time"

	"verif/internal/fakeredis"
	"verif/internal/gen"
)

func TestSmoke(t *testing.T) {
	Quiet()
	srv := fakeredis.MustStart(fakeredis.Options{Permissive: true, LogOnly: func(cmd string, args [][]byte) bool {
		return len(args) == 0 || !Reserved(args[0])
	}})
	defer srv.Close()
	cfg := OutputConfig(srv.Addr(), "runid-aaaa")
	ids := []string{"runid-aaaa", "0000"}
	ss, err := NewSession(cfg, ids)
	if err != nil {
		t.Fatal(err)
	}
	ctx := context.Background()
	sp, err := ss.Out.StartPoint(ctx, ids)
	fmt.Println("sp0", sp, err)
	err = ss.FullSync(ctx, EmptyRDB, 1000)
	fmt.Println("fullsync", err)
	sp, err = ss.Out.StartPoint(ctx, ids)
	fmt.Println("sp1", sp, err)
	r := rand.New(rand.NewSource(1))
	st := gen.GenStream(r, gen.StreamOptions{NCmds: 30, MaxDB: 3, PSelect: 0.1, PTxn: 0.1, PNoise: 0.1, StartDB: -1})
	end := st.AppendSentinel(st.LastDB())
	ch := WaitForID(srv, end.ID)
	ar := ss.SendAof(ctx, sp.Offset, Plan(r, st.Bytes, 5*time.Millisecond, 1), false, 4096)
	select {
	case <-ch:
	case <-time.After(10 * time.Second):
		t.Fatal("timeout")
	}
	e, ok := ar.Stop(10 * time.Second)
	fmt.Println("stop", e, ok)
	for _, a := range srv.Applied() {
		fmt.Println(a.String())
	}
	exp := Project(st, ProjCfg{TargetDb: -1})
	got := BusinessApplied(srv.Applied())
	fmt.Println(len(exp), len(got))
}
