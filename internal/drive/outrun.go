package drive

import (
	"context"
	"fmt"
	"math/rand"
	"strings"
	"time"

	"verif/internal/fakeredis"
	"verif/internal/gen"

	"github.com/mgtv-tech/redis-GunYu/pkg/redis/checkpoint"
	"github.com/mgtv-tech/redis-GunYu/pkg/redis/client"
	"github.com/mgtv-tech/redis-GunYu/syncer"
)

// EmptyRDB is a valid, empty, checksum-less snapshot (version 9, EOF, crc = 0).
var EmptyRDB = append([]byte("REDIS0009\xff"), make([]byte, 8)...)

// Bookkeeping performs the start-up bookkeeping a (re)started tool instance does before
// replaying (syncer.newOutput → checkpoint.UpdateCheckpoint).
func Bookkeeping(cfg syncer.RedisOutputConfig, ids []string) error {
	cli, err := client.NewRedis(cfg.Redis)
	if err != nil {
		return err
	}
	defer cli.Close()
	return checkpoint.UpdateCheckpoint(cli, cfg.CheckpointName, ids)
}

// ProjCfg is the part of the configuration the reference projection needs.
type ProjCfg struct {
	TargetDb    int
	TargetDbMap map[int]int
	DbBlacklist []int
}

func (p ProjCfg) MapDB(src int) int {
	if p.TargetDb != -1 {
		return p.TargetDb
	}
	if t, ok := p.TargetDbMap[src]; ok {
		return t
	}
	return src
}

func (p ProjCfg) DbOut(src int) bool {
	for _, d := range p.DbBlacklist {
		if d == src {
			return true
		}
	}
	return false
}

// Expect is one command the target must execute.
type Expect struct {
	Cmd *gen.Cmd
	DB  int // mapped target database
}

// Project is the reference projection of a stream (property C01): the data-modifying commands
// that must reach the target, in order, with the target database of each.
func Project(s *gen.Stream, p ProjCfg) []Expect {
	var out []Expect
	for i := range s.Cmds {
		c := &s.Cmds[i]
		if c.Kind != gen.KWrite || p.DbOut(c.DB) {
			continue
		}
		out = append(out, Expect{Cmd: c, DB: p.MapDB(c.DB)})
	}
	return out
}

// BusinessApplied filters an effect log down to data-modifying commands on keys outside the
// reserved bookkeeping namespace.
func BusinessApplied(apps []fakeredis.App) []fakeredis.App {
	var out []fakeredis.App
	for _, a := range apps {
		if !a.Write || a.IsErr {
			continue
		}
		if len(a.Args) > 0 && Reserved(a.Args[0]) {
			continue
		}
		out = append(out, a)
	}
	return out
}

// Plan builds a feeding plan for data: PRNG fragmentation, pauses placed between reads.
// pauseUnit scales the idle gaps (choose it relative to the tickers under test).
func Plan(r *rand.Rand, data []byte, pauseUnit time.Duration, style int) []Step {
	var plan []Step
	pos := 0
	for pos < len(data) {
		n := 0
		switch style % 4 {
		case 0: // bursts: large random chunks
			n = 1 + r.Intn(len(data)-pos)
		case 1: // small fragments
			n = 1 + r.Intn(48)
		case 2: // byte dribble for a stretch then a burst
			if r.Intn(4) > 0 {
				n = 1
			} else {
				n = 1 + r.Intn(512)
			}
		default: // whole
			n = len(data) - pos
		}
		if n > len(data)-pos {
			n = len(data) - pos
		}
		st := Step{Data: data[pos : pos+n]}
		switch r.Intn(10) {
		case 0:
			st.Pause = pauseUnit * time.Duration(1+r.Intn(3))
		case 1:
			st.Pause = pauseUnit / 4
		}
		if style%4 == 2 && n == 1 {
			st.Pause = 0
			if r.Intn(40) == 0 {
				st.Pause = pauseUnit
			}
		}
		plan = append(plan, st)
		pos += n
	}
	return plan
}

// Session is one tool instance lifetime against a target double.
type Session struct {
	Cfg   syncer.RedisOutputConfig
	IDs   []string
	Out   *syncer.RedisOutput
	Watch time.Duration // wall-clock watchdog for blocking waits (firing = inconclusive)
}

// NewSession does the start-up bookkeeping and creates a fresh RedisOutput.
func NewSession(cfg syncer.RedisOutputConfig, ids []string) (*Session, error) {
	if cfg.EnableResumeFromBreakPoint {
		if err := Bookkeeping(cfg, ids); err != nil {
			return nil, fmt.Errorf("bookkeeping: %w", err)
		}
	}
	return &Session{Cfg: cfg, IDs: ids, Out: syncer.NewRedisOutput(cfg), Watch: 60 * time.Second}, nil
}

var ErrWatchdog = fmt.Errorf("watchdog")

// FullSync replays rdb (a complete snapshot whose offset is `offset`) through Send.
func (s *Session) FullSync(ctx context.Context, rdb []byte, offset int64) error {
	f := NewFeeder(s.IDs[0], offset, int64(len(rdb)), false, 4096)
	f.Play([]Step{{Data: rdb}}, true)
	defer f.Abort()
	done := make(chan error, 1)
	go func() { done <- s.Out.Send(ctx, f) }()
	select {
	case err := <-done:
		return err
	case <-time.After(s.Watch):
		return ErrWatchdog
	}
}

// SendAof starts Send on an AOF feeder positioned at `left` and returns a handle.
type AofRun struct {
	F      *Feeder
	Done   chan error
	cancel context.CancelFunc
}

func (s *Session) SendAof(parent context.Context, left int64, plan []Step, eof bool, bufSize int) *AofRun {
	ctx, cancel := context.WithCancel(parent)
	f := NewFeeder(s.IDs[0], left, -1, true, bufSize)
	ar := &AofRun{F: f, Done: make(chan error, 1), cancel: cancel}
	f.Play(plan, eof)
	go func() { ar.Done <- s.Out.Send(ctx, f) }()
	return ar
}

// Stop cancels the run the way the tool is stopped (context cancellation) and waits.
func (a *AofRun) Stop(watch time.Duration) (error, bool) {
	a.cancel()
	select {
	case err := <-a.Done:
		a.F.Abort()
		return err, true
	case <-time.After(watch):
		a.F.Abort()
		select {
		case err := <-a.Done:
			return err, true
		case <-time.After(5 * time.Second):
			return nil, false
		}
	}
}

// Wait waits for Send to return by itself (error / EOF / cut).
func (a *AofRun) Wait(watch time.Duration) (error, bool) {
	select {
	case err := <-a.Done:
		a.cancel()
		a.F.Abort()
		return err, true
	case <-time.After(watch):
		return nil, false
	}
}

// IDWaiter lets the harness wait (logically) until the target has applied a given id.
type IDWaiter struct {
	ch   chan struct{}
	id   string
	done bool
}

// WaitForID arms srv.OnApplied so that the returned channel is closed once a command carrying
// id has been applied.
func WaitForID(srv *fakeredis.Server, id string) <-chan struct{} {
	ch := make(chan struct{})
	closed := false
	srv.SetOnApplied(func(a *fakeredis.App) {
		if closed {
			return
		}
		for _, x := range a.Args {
			if strings.Contains(string(x), id) {
				closed = true
				close(ch)
				return
			}
		}
	})
	return ch
}
