package drive

import (
	"os"
	"strings"
	"sync"
	"time"

	"github.com/mgtv-tech/redis-GunYu/config"
	"github.com/mgtv-tech/redis-GunYu/pkg/log"
	"github.com/mgtv-tech/redis-GunYu/syncer"
)

var quietOnce sync.Once

// Quiet silences the repository's logger (stdout is for verdict lines).
func Quiet() {
	quietOnce.Do(func() {
		InitQuietLog()
	})
}

// StandaloneRedis builds the RedisConfig of a standalone target/source at addr.
func StandaloneRedis(addr, version string) config.RedisConfig {
	return config.RedisConfig{
		Addresses: config.SliceString{addr},
		Type:      config.RedisTypeStandalone,
		Otype:     config.RedisTypeStandalone,
		Version:   version,
	}
}

// OutputConfig returns a RedisOutputConfig with every ticker set (> 0) and production-like
// defaults; callers override fields.
func OutputConfig(addr, runID string) syncer.RedisOutputConfig {
	return syncer.RedisOutputConfig{
		InputName:                  "verif-input",
		CheckpointName:             config.CheckpointKey,
		RunId:                      runID,
		CanTransaction:             true,
		Redis:                      StandaloneRedis(addr, "7.2.0"),
		EnableResumeFromBreakPoint: true,
		KeyExists:                  "replace",
		MaxProtoBulkLen:            512 * 1024 * 1024,
		TargetDb:                   -1,
		BatchCmdCount:              100,
		BatchTicker:                10 * time.Millisecond,
		BatchBufferSize:            64 * 1024,
		KeepaliveTicker:            time.Hour,
		ReplayRdbParallel:          1,
		ReplayRdbEnableRestore:     true,
		UpdateCheckpointTicker:     time.Hour,
		Stats:                      config.OutputStats{DisableLog: true, LogInterval: time.Hour},
	}
}

// Reserved reports whether key lies in the tool's reserved bookkeeping namespace.
func Reserved(key []byte) bool {
	k := string(key)
	return strings.HasPrefix(k, config.CheckpointKey) || strings.HasPrefix(k, "redis-gunyu-bisync:") ||
		strings.HasPrefix(k, config.NamespacePrefixKey)
}

var _ = log.InitLog

// InitQuietLog configures the repository logger to print only fatal messages
// (VERIF_LOG=debug|info|... overrides, for debugging a case).
func InitQuietLog() {
	t, f := true, false
	lvl := "fatal"
	if v := getenv("VERIF_LOG"); v != "" {
		lvl = v
	}
	_ = log.InitLog(config.LogConfig{LevelStr: lvl, StacktraceLevelStr: "fatal",
		Handler: config.LogHandlerConfig{StdOut: true}, Caller: &t, Func: &f, ModuleName: &t})
}

func getenv(k string) string { return os.Getenv(k) }
