// Package drive: harness-side drivers for the tool's RedisOutput (feeder ChannelReader,
// configuration builders, reference projection of a stream).
package drive

import (
	"bufio"
	"io"
	"sync"
	"sync/atomic"
	"time"

	usync "github.com/mgtv-tech/redis-GunYu/pkg/sync"
)

// Step is one element of a feeding plan: hand out Data (in one Write), then pause.
type Step struct {
	Data  []byte
	Pause time.Duration
	// Gate, when non-nil, is waited for before Data is handed out (explicit quiesce handle).
	Gate <-chan struct{}
	// Then, when non-nil, is called as soon as Data has been consumed by the tool's reader.
	Then func()
}

// Feeder implements syncer.ChannelReader over a pipe fed by the harness.
type Feeder struct {
	runID string
	left  int64
	size  int64
	aof   bool
	pr    *io.PipeReader
	pw    *io.PipeWriter
	br    *bufio.Reader

	handed   atomic.Int64 // bytes whose Write has returned (consumed by the tool's reader)
	allOut   chan struct{}
	closeOne sync.Once
	stop     chan struct{}
}

// NewFeeder: left is the offset of the first byte for an AOF reader, the snapshot offset for an
// RDB reader; size is the snapshot size (RDB) or -1.
func NewFeeder(runID string, left, size int64, aof bool, bufSize int) *Feeder {
	pr, pw := io.Pipe()
	if bufSize <= 0 {
		bufSize = 4096
	}
	return &Feeder{runID: runID, left: left, size: size, aof: aof, pr: pr, pw: pw,
		br: bufio.NewReaderSize(pr, bufSize), allOut: make(chan struct{}), stop: make(chan struct{})}
}

func (f *Feeder) Start(wait usync.WaitCloser) {}
func (f *Feeder) Left() int64                 { return f.left }
func (f *Feeder) RunId() string               { return f.runID }
func (f *Feeder) Size() int64                 { return f.size }
func (f *Feeder) IoReader() *bufio.Reader     { return f.br }
func (f *Feeder) IsAof() bool                 { return f.aof }
func (f *Feeder) Close()                      { f.Abort() }

// Handed returns the number of bytes consumed by the tool so far.
func (f *Feeder) Handed() int64 { return f.handed.Load() }

// AllOut is closed when every byte of the plan has been handed out.
func (f *Feeder) AllOut() <-chan struct{} { return f.allOut }

// Play feeds the plan in a goroutine.  If eof is true the pipe is closed (EOF) afterwards,
// otherwise the reader blocks (an idle source) until Abort.
func (f *Feeder) Play(plan []Step, eof bool) {
	go func() {
		defer close(f.allOut)
		for _, st := range plan {
			if st.Gate != nil {
				select {
				case <-st.Gate:
				case <-f.stop:
					return
				}
			}
			if len(st.Data) > 0 {
				n, err := f.pw.Write(st.Data)
				f.handed.Add(int64(n))
				if err != nil {
					return
				}
			}
			if st.Then != nil {
				st.Then()
			}
			if st.Pause > 0 {
				select {
				case <-time.After(st.Pause):
				case <-f.stop:
					return
				}
			}
		}
		if eof {
			f.pw.Close()
		}
	}()
}

// CloseEOF ends the stream cleanly: the tool's reader sees io.EOF after the bytes handed out.
func (f *Feeder) CloseEOF() { f.pw.Close() }

// Abort unblocks everything (reader gets an error).
func (f *Feeder) Abort() {
	f.closeOne.Do(func() {
		close(f.stop)
		f.pw.CloseWithError(io.ErrClosedPipe)
		f.pr.CloseWithError(io.ErrClosedPipe)
	})
}
