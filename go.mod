module verif

go 1.20

require (
	github.com/anishathalye/porcupine v1.3.0
	github.com/mgtv-tech/redis-GunYu v0.0.0
)

require (
	go.uber.org/multierr v1.10.0 // indirect
	go.uber.org/zap v1.26.0 // indirect
	golang.org/x/exp v0.0.0-20231006140011-7918f672742d // indirect
	golang.org/x/sync v0.3.0 // indirect
	gopkg.in/natefinch/lumberjack.v2 v2.2.1 // indirect
	gopkg.in/yaml.v3 v3.0.1 // indirect
)

replace github.com/mgtv-tech/redis-GunYu => /repo
