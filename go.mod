module verif

go 1.20

require (
	github.com/anishathalye/porcupine v1.3.0
	github.com/mgtv-tech/redis-GunYu v0.0.0
)

replace github.com/mgtv-tech/redis-GunYu => /repo
