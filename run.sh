#!/bin/bash
# ./run.sh <Cxx> <quick|thorough>            run a check against /repo's current working tree
# ./run.sh <Cxx> replay <witness.json>       re-run exactly the case recorded in a witness
# exit 0: held on everything observed; 1: VIOLATION line printed; 2: inconclusive
set -u
cd "$(dirname "$0")"
ROOT="$(pwd)"
export VERIF_ROOT="$ROOT"
export GOFLAGS=-mod=mod GOPROXY=off GOSUMDB=off GOTOOLCHAIN=local CGO_ENABLED=1
ID="${1:?property id}"; MODE="${2:-quick}"
id_lc="$(echo "$ID" | tr 'A-Z' 'a-z')"
PKG="./checks/$id_lc"
[ -d "$PKG" ] || { echo "INCONCLUSIVE property=$ID no such check"; exit 2; }
mkdir -p .bin .out evidence replay

# per-check settings: race detector on/off, wall-clock watchdog (s) per tier
RACE=1; WD_Q=900; WD_T=7200
case "$ID" in
  C10|C11|C12) RACE=0 ;;
esac
[ -f "$PKG/norace" ] && RACE=0
if [ "$MODE" = replay ]; then
  export VERIF_REPLAY="${3:?witness path}"; WD=$WD_Q
elif [ "$MODE" = thorough ]; then
  export VERIF_TIER=thorough; WD=$WD_T
else
  export VERIF_TIER=quick; WD=$WD_Q
fi

BIN=".bin/$id_lc"
RFLAG=""; [ "$RACE" = 1 ] && RFLAG="-race"
OUT="$ROOT"
MODFLAG=""
if [ -n "${VERIF_REPO:-}" ] && [ "$VERIF_REPO" != /repo ]; then
  # trial run against a scratch copy of the repository (mutant trials): separate module
  # file, binaries and output directories; the registered commands never set VERIF_REPO
  tag="$(echo "$VERIF_REPO" | md5sum | cut -c1-8)"
  mkdir -p ".out/alt-$tag"
  sed "s#=> /repo#=> $VERIF_REPO#" go.mod > ".out/alt-$tag/go.mod"; cp go.sum ".out/alt-$tag/go.sum"
  MODFLAG="-modfile=$ROOT/.out/alt-$tag/go.mod"
  BIN=".bin/$id_lc-alt-$tag"
  OUT="$ROOT/.out/alt-$tag"; mkdir -p "$OUT/evidence" "$OUT/replay"
  export VERIF_OUT_ROOT="$OUT"
  id_lc="$id_lc-alt-$tag"
fi
if ! go build $MODFLAG -tags verif $RFLAG -o "$BIN" "$PKG" > ".out/$id_lc.build.log" 2>&1; then
  cat ".out/$id_lc.build.log"
  echo "INCONCLUSIVE property=$ID build failed"
  exit 2
fi
# helper binaries a check may need (child processes): checks/cXX/child*/
for d in "$PKG"/child*/; do
  [ -d "$d" ] || continue
  n="$(basename "$d")"
  if ! go build $MODFLAG -tags verif $RFLAG -o ".bin/$id_lc-$n" "$d" >> ".out/$id_lc.build.log" 2>&1; then
    cat ".out/$id_lc.build.log"; echo "INCONCLUSIVE property=$ID build failed ($n)"; exit 2
  fi
done

rm -f .out/$id_lc.race.* ".out/$id_lc.log"
[ "$MODE" = replay ] || rm -f "$OUT/evidence/$ID.json"
# exitcode=0: a race report must not change the exit code; tools/race_filter.py decides what a report means
export GORACE="halt_on_error=0 exitcode=0 log_path=$ROOT/.out/$id_lc.race"
export VERIF_BIN_DIR="$ROOT/.bin" VERIF_BIN_PREFIX="$id_lc"
timeout -s QUIT -k 20 "$WD" "$BIN" > ".out/$id_lc.log" 2>&1
rc=$?
# print verdict-relevant lines (full log stays in .out)
grep -a -E '^(VIOLATION|KNOWN-FINDING|SUMMARY|INCONCLUSIVE|NOTE|  signature:|  clause:)' ".out/$id_lc.log"
python3 tools/race_filter.py "$ID" ".out/$id_lc.race" "$MODE"
rrc=$?
if grep -a -q '^VIOLATION ' ".out/$id_lc.log" || [ "$rrc" = 1 ]; then
  exit 1
fi
if [ "$rc" = 0 ]; then
  exit 0
fi
if [ "$rc" = 1 ]; then
  echo "INCONCLUSIVE property=$ID exit 1 without a VIOLATION line"
fi
if [ "$rc" != 2 ] || ! grep -a -q '^INCONCLUSIVE' ".out/$id_lc.log"; then
  echo "INCONCLUSIVE property=$ID check ended abnormally (rc=$rc); tail of log:"
  tail -n 40 ".out/$id_lc.log"
fi
exit 2
