#!/usr/bin/env python3
"""Classify Go race-detector reports of a check run (DESIGN §2.6).
A report is a violation only if both access stacks touch files the property anchors."""
import sys, glob, re, json, os, hashlib

# paths are matched as suffixes of the repository root so scratch copies work too
ANCHORS = {
    "C05": [r"/pkg/store/", r"/syncer/memory_channel\.go", r"/syncer/channel\.go", r"/pkg/io/pipe/"],
    "C08": [r"/pkg/store/"],
    "C03": [r"/syncer/output\.go", r"/pkg/rdb/", r"/pkg/rdbrestore/"],
    "C04": [r"/syncer/output\.go", r"/pkg/rdb/", r"/syncer/bisync_rdb\.go"],
    "C14": [r"/syncer/bisync\.go", r"/pkg/redis/checkpoint/bisync\.go"],
    "C13": [r"/syncer/bisync\.go", r"/syncer/bisync_rdb\.go"],
    "C19": [r"/pkg/redis/client/cluster/", r"/pkg/redis/client/cluster\.go"],
    "C16": [r"/syncer/replica\.go", r"/syncer/syncer_replica\.go", r"/pkg/store/", r"/syncer/memory_channel\.go"],
    "C18": [r"/syncer/bisync\.go", r"/syncer/bisync_rdb\.go", r"/pkg/redis/checkpoint/bisync\.go", r"/pkg/redis/client/cluster/txn_batcher\.go"],
    "C06": [r"/syncer/input\.go", r"/syncer/output\.go"],
    "C17": [r"/pkg/redis/checkpoint/checkpoint\.go", r"/syncer/syncer\.go"],
    "C15": [r"/pkg/cluster/", r"/pkg/redis/client/conn/"],
    "C20": [r"/syncer/output\.go", r"/pkg/rdbrestore/", r"/syncer/bisync_rdb\.go"],
    "C01": [r"/syncer/output\.go"],
    "C02": [r"/syncer/output\.go"],
    "C09": [r"/syncer/output\.go"],
    "C07": [r"/syncer/output\.go"],
}

def main():
    prop, prefix, mode = sys.argv[1], sys.argv[2], sys.argv[3]
    files = sorted(glob.glob(prefix + ".*"))
    reports = []
    for f in files:
        txt = open(f, errors="replace").read()
        for blk in txt.split("WARNING: DATA RACE")[1:]:
            blk = blk.split("==================")[0]
            reports.append(blk)
    if not reports:
        patch(prop, 0, 0, [], mode)
        return 0
    anchors = [re.compile(a) for a in ANCHORS.get(prop, [])]
    seen = {}
    for blk in reports:
        # sections are separated by blank lines; the first two are the access stacks
        secs = [s for s in re.split(r"\n\s*\n", blk.strip("\n")) if s.strip()]
        acc = [s for s in secs if re.match(r"\s*(Write|Read|Previous write|Previous read|Atomic|Previous atomic)", s.strip())]
        stacks = []
        for s in acc[:2]:
            frames = re.findall(r"^\s+(\S+\.go):\d+", s, re.M)
            funcs = re.findall(r"^  (\S+)\(", s, re.M)
            stacks.append((frames, funcs))
        key = hashlib.sha1(json.dumps([st[1] for st in stacks]).encode()).hexdigest()[:12]
        attributed = bool(anchors) and len(stacks) == 2 and all(
            any(a.search(fr) for a in anchors for fr in st[0]) for st in stacks)
        if key not in seen:
            seen[key] = (attributed, blk, stacks)
    viol = [(k, v) for k, v in seen.items() if v[0]]
    unattr = [(k, v) for k, v in seen.items() if not v[0]]
    root = os.environ.get("VERIF_OUT_ROOT") or os.environ.get("VERIF_ROOT", "/verif")
    for k, v in viol:
        d = os.path.join(root, "replay", prop)
        os.makedirs(d, exist_ok=True)
        p = os.path.join(d, "race-%s.txt" % k)
        open(p, "w").write("WARNING: DATA RACE" + v[1])
        print("VIOLATION property=%s replay=%s" % (prop, p))
        print("  signature: race|%s" % "|".join((st[1][0] if st[1] else "?") for st in v[2]))
    for k, v in unattr:
        print("UNATTRIBUTED-RACE property=%s %s" % (prop, " <-> ".join((st[1][0] if st[1] else "?") for st in v[2])))
    patch(prop, len(viol), len(unattr), [" <-> ".join((st[1][0] if st[1] else "?") for st in v[2]) for k, v in unattr], mode)
    return 1 if viol else 0

def patch(prop, nviol, nun, unl, mode):
    if mode == "replay":
        return
    root = os.environ.get("VERIF_OUT_ROOT") or os.environ.get("VERIF_ROOT", "/verif")
    p = os.path.join(root, "evidence", prop + ".json")
    try:
        ev = json.load(open(p))
    except Exception:
        return
    ev["coverage"]["race_detector_reports_attributed"] = nviol
    ev["coverage"]["race_detector_reports_unattributed"] = nun
    if unl:
        ev["coverage"]["unattributed_races"] = unl[:20]
    if nviol:
        ev["violations"] = ev.get("violations", 0) + nviol
    json.dump(ev, open(p, "w"), indent=1)
    open(p, "a").write("\n")

if __name__ == "__main__":
    sys.exit(main())
