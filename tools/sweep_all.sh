#!/bin/bash
# tools/sweep_all.sh [seed]   runs every check's quick tier once and prints one line per check
cd "$(dirname "$0")/.."
for i in $(seq -w 1 20); do
  out=$(VERIF_SEED=${1:-} ./run.sh C$i quick 2>&1); rc=$?
  echo "rc=$rc $(echo "$out" | grep -a SUMMARY | cut -c1-160) $(echo "$out" | grep -a -c "^VIOLATION") viol-lines $(echo "$out" | grep -c '^INCONCLUSIVE') inconcl-lines"
done
