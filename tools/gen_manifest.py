#!/usr/bin/env python3
"""Regenerates /verif/MANIFEST.json from the table below (keeps it valid at all times)."""
import json, os, subprocess

ROOT = os.path.dirname(os.path.dirname(os.path.abspath(__file__)))
props = [json.loads(l) for l in open(os.path.join(ROOT, "properties.jsonl"))]

TRUST = ("the peer double internal/fakeredis behaves like Redis for the commands involved (request order per connection, MULTI/EXEC "
         "atomicity, open transactions discarded on disconnect); verdicts hold for the executions this run produced")

CHECKS = {
    "C01": dict(level="exploration", engine="fakeredis+gen+drive",
        technique="runtime monitor: target-side command log vs reference projection of generated streams (unique ids), race detector on",
        text="The real RedisOutput replays PRNG-generated replication streams (binary arguments, SELECT/MULTI/keep-alive/GETACK/filtered commands, "
             "fragmented and paused arrival) under a product of batching/ticker/pipeline/transaction/db-map/filter configurations into a logging "
             "Redis double; the logged business writes must equal the projected stream as a sequence. Held-on-observed-executions, not a proof.",
        design="DESIGN.md §3 C01", note=TRUST + "; LogOnly mode answers business writes +OK without type checks"),
    "C02": dict(level="fault_enumeration", engine="sweep",
        technique="runtime monitor + crash injection at every target request prefix, fresh tool instance restarted per distinct target state, logs of all runs checked for loss/duplication/wrong DB",
        text="For each base run every prefix of the requests the target executed is a crash point (exhaustive per observed request sequence, grouped by "
             "resulting target state); a fresh RedisOutput performs the real start-up bookkeeping + StartPoint + Send from the returned offset; "
             "second/third crashes on a PRNG subset. Oracles: resume position absorbed, no skipped write, right DB, exactly-once in transactional mode.",
        design="DESIGN.md §3 C02", note=TRUST + "; crash = prefix of executed requests (tool and target die together or in-flight requests are lost)"),
    "C07": dict(level="fault_enumeration", engine="sweep",
        technique="runtime monitor over the ordered list of <runid>_offset writes observed at the target, idle-heavy feeding plans and restart sequences",
        text="Every value written to the resume-position field during base and resumed runs is checked against the generated stream's command-end "
             "offset table and for monotonicity across restarts; feeding plans idle before the first item longer than each ticker; a restart that "
             "finds no usable position although one was stored is a violation.",
        design="DESIGN.md §3 C07", note=TRUST),
    "C09": dict(level="fault_enumeration", engine="sweep",
        technique="runtime monitor: per-command target transaction ids vs source MULTI/EXEC groups, at every crash prefix and after restart",
        text="Transactional mode against a standalone double: all commands of a source group must share one target MULTI/EXEC that also carries a "
             "resume position covering the group's EXEC; no resume position may lie inside a source group; after crash+restart at every request "
             "prefix no group is partially or repeatedly executed.",
        design="DESIGN.md §3 C09", note=TRUST),
    "C10": dict(level="exploration", engine="ref",
        technique="differential runtime oracle: real RedisKeyFilter (configured as NewRedisOutput does) vs reference evaluator transcribed from the statement, all 16384 slots swept per range configuration",
        text="Millions of (configuration, command/key) evaluations incl. overlapping/nested/unsorted/duplicate ranges, binary prefixes and keys; "
             "plus an end-to-end layer (target log of SendAof under filter configurations).",
        design="DESIGN.md §3 C10", note="reference key-position table and filter evaluator in internal/ref are written from the Redis command reference / the statement"),
    "C11": dict(level="exploration", engine="ref",
        technique="differential runtime oracle vs bit-wise CRC16/HASH_SLOT reference; exhaustive small-alphabet enumeration + PRNG keys",
        text="redis.KeyToSlot, cluster.GetSlot, FilterSlot decisions and every bisync control-key builder for all 16384 slot tags are compared with "
             "an independent HASH_SLOT implementation validated against the spec's check values.",
        design="DESIGN.md §3 C11", note="internal/ref.HashSlot is the specification (validated against published vectors)"),
    "C12": dict(level="exploration", engine="ref",
        technique="runtime oracle: decoder output and offsets vs generator's offset table under arbitrary buffering/fragmentation; encode/decode round trips",
        text="Generated multi-bulk streams (0-64 args, empty/binary/MiB args) decoded through bufio sizes 16B-1MiB over fragmenting readers; "
             "arguments byte-identical, cumulative offsets equal bytes consumed, WriteArgs/Encode round trips checked by an independent strict parser.",
        design="DESIGN.md §3 C12", note="generator's own RESP writer is the reference"),
    "C15": dict(level="exploration", engine="leasestore+minilua+porcupine",
        technique="recorded call/return histories of Campaign/Renew/Resign/Leader checked with porcupine against a sequential lease model + belief-interval overlap monitor on a virtual clock",
        text="2-6 contenders with own connections against a lease-store double that executes the tool's Lua scripts (interpreter), virtual clock "
             "advanced only at quiescent points, reply loss and connection resets; porcupine linearizability per burst and whole-run invariants.",
        design="DESIGN.md §3 C15", note="internal/leasestore + internal/minilua execute the scripts the tool sends; Redis expiry rule now > expireAt"),
}

NA_REASON = "check not built yet (in progress)"

def main():
    checks = []
    for p in props:
        c = CHECKS.get(p["id"])
        if not c:
            continue
        checks.append({
            "property_id": p["id"],
            "quick_cmd": "./run.sh %s quick" % p["id"],
            "thorough_cmd": "./run.sh %s thorough" % p["id"],
            "evidence_file": "/verif/evidence/%s.json" % p["id"],
            "replay_cmd_template": "./run.sh %s replay {path}" % p["id"],
            "engine": c["engine"],
            "level_claimed": {"category": c["level"], "text": c["text"], "design_ref": c["design"]},
            "level_note": c["note"],
            "technique": c["technique"],
        })
    hooks_commits = subprocess.run(["git", "-C", "/repo", "log", "--format=%H %s"], capture_output=True, text=True).stdout.splitlines()
    hook_shas = [l.split()[0] for l in hooks_commits if "verif hook" in l]
    m = {
        "version": 1,
        "setup_cmd": "cd /verif && GOFLAGS=-mod=mod GOPROXY=off GOSUMDB=off GOTOOLCHAIN=local go build -tags verif ./internal/... && mkdir -p .bin .out evidence replay",
        "hooks": {
            "guard": "verif",
            "enable": "go build -tags verif (run.sh builds every check binary against /repo's working tree through the module replace directive in /verif/go.mod)",
            "baseline_off_cmd": "cd /repo && GOFLAGS=-mod=mod GOPROXY=off GOSUMDB=off go test -vet=off -count=1 -timeout 25m ./...",
            "source_commits": hook_shas,
            "add_only": True,
        },
        "engines": [
            {"name": "fakeredis", "path": "internal/fakeredis", "serves_properties": ["C01", "C02", "C03", "C04", "C06", "C07", "C09", "C13", "C14", "C17", "C18", "C19", "C20"], "kind_free_text": "RESP server double: data model, MULTI/EXEC, request/effect logs, crash-cut and fault injection"},
            {"name": "sweep", "path": "internal/sweep", "serves_properties": ["C02", "C07", "C09"], "kind_free_text": "request-prefix crash sweep of incremental replay with fresh-instance restarts"},
            {"name": "gen+drive", "path": "internal/gen, internal/drive", "serves_properties": ["C01", "C02", "C07", "C09"], "kind_free_text": "seeded stream generator with offset table and unique ids; feeder ChannelReader; reference projection"},
            {"name": "ref", "path": "internal/ref", "serves_properties": ["C10", "C11", "C12", "C18", "C19"], "kind_free_text": "independent HASH_SLOT/CRC16/CRC64, key-position table, filter evaluator"},
            {"name": "rdbx", "path": "internal/rdbx", "serves_properties": ["C03", "C04", "C20"], "kind_free_text": "independent RDB/DUMP encoder+decoder and dataset generator"},
            {"name": "leasestore+minilua", "path": "internal/leasestore, internal/minilua", "serves_properties": ["C15"], "kind_free_text": "lease store double with virtual clock executing the tool's Lua scripts"},
        ],
        "checks": checks,
        "notes": "runtime monitoring: the real code is driven against in-harness peers; see DESIGN.md. Genuine defects found are fixed by 'fix:' commits in /repo and listed in known_findings.json.",
        "not_applicable": [{"property_id": p["id"], "reason": NA_REASON} for p in props if p["id"] not in CHECKS],
    }
    json.dump(m, open(os.path.join(ROOT, "MANIFEST.json"), "w"), indent=1)
    print("checks:", [c["property_id"] for c in checks])

main()
