#!/usr/bin/env python3
"""Regenerates /verif/MANIFEST.json from the table below (keeps it valid at all times)."""
import json, os, subprocess

ROOT = os.path.dirname(os.path.dirname(os.path.abspath(__file__)))
props = [json.loads(l) for l in open(os.path.join(ROOT, "properties.jsonl"))]

TRUST = ("the peer double internal/fakeredis behaves like Redis for the commands involved (request order per connection, MULTI/EXEC "
         "atomicity, open transactions discarded on disconnect); verdicts hold for the executions this run produced")

CHECKS = {
    "C01": dict(level="exploration", engine="fakeredis+gen+drive",
        technique="runtime monitor: target-side command log vs reference projection of generated streams (unique ids), race detector on",
        text="The real RedisOutput replays PRNG-generated replication streams (binary arguments, SELECT/MULTI/keep-alive/GETACK/filtered commands, "
             "fragmented and paused arrival) under a product of batching/ticker/pipeline/transaction/db-map/filter configurations into a logging "
             "Redis double; the logged business writes must equal the projected stream as a sequence. Held-on-observed-executions, not a proof.",
        design="DESIGN.md §3 C01", note=TRUST + "; LogOnly mode answers business writes +OK without type checks (null bulk for the pop / get-and-set family, as Redis does for a missing key)"),
    "C02": dict(level="fault_enumeration", engine="sweep",
        technique="runtime monitor + crash injection at every target request prefix, fresh tool instance restarted per distinct target state, logs of all runs checked for loss/duplication/wrong DB",
        text="For each base run every prefix of the requests the target executed is a crash point (exhaustive per observed request sequence, grouped by "
             "resulting target state); a fresh RedisOutput performs the real start-up bookkeeping + StartPoint + Send from the returned offset; "
             "second/third crashes on a PRNG subset. Oracles: resume position absorbed, no skipped write, right DB, exactly-once in transactional mode. Also: orderly stops (context cancellation, or - one schedule in three - the stream ending by itself with EOF) while the source is silent at a PRNG-chosen command boundary, same-instance re-runs after a lost target connection (reply lost, effect not), same-instance second snapshot; a third of the cases switch databases inside transactions, a third blacklist one source database.",
        design="DESIGN.md §3 C02", note=TRUST + "; crash = prefix of executed requests (tool and target die together or in-flight requests are lost)"),
    "C03": dict(level="exploration", engine="fullsync+rdbx",
        technique="runtime oracle: snapshots built by an independent RDB codec are replayed by the real Send into a Redis double; final keyspace, expiries and every RESTORE payload compared with the dataset; worker processes with hang/memory guards",
        text="Thousands of generated datasets per run, every on-disk encoding / integer width / boundary value rdbx can emit (validated against the repo's real-Redis "
             "fixture blobs), RDB versions 6-12, restore on/off, max-bulk, parallelism, pipe sizes, db maps/filters, chunk threshold lowered through the hook, "
             "older targets answering 'Bad data format'. Held on the executions produced.",
        design="DESIGN.md §3 C03", note="internal/rdbx is the format reference (stream listpacks v4 and SLOT_INFO excluded: no real bytes offline); " + TRUST),
    "C04": dict(level="fault_enumeration", engine="fullsync+rdbx",
        technique="fault injection + runtime monitor: every truncation and every single-byte alteration of valid checksummed snapshots through the real parser/expansion, sampled through Send; target error at every write; cancellation at every target request, at every snapshot byte handed to the parser, and right after the last byte is parsed",
        text="Exhaustive per snapshot for the byte sweeps and per observed request sequence for error/cancel points (not over schedules). Oracle: error reported, "
             "no resume position at the snapshot offset, call returns, process survives (worker processes; crash/hang/memory growth is a violation after two isolated confirmations); "
             "a replay reported complete must have applied every key; after every Send the SAME instance is asked for its start point again (in-process re-run), bisync scenarios draw sync/pipeline/parallel and may be primed with an earlier completed snapshot. Target errors in eight reply classes (ERR, LOADING, TRYAGAIN, CLUSTERDOWN, MASTERDOWN, OOM, READONLY, BUSY), one-shot or a target that keeps refusing from that write on; 'reported complete' is judged on what was applied.",
        design="DESIGN.md §3 C04", note="CRC64 detects all single-byte alterations; cancellation is delivered at logical instants of the double; " + TRUST),
    "C08": dict(level="fault_enumeration", engine="prf+child",
        technique="crash-image sampling: a live writer child process is SIGSTOPped at aimed/PRNG instants, its directory copied and reopened by a fresh StoreChannel; served bytes compared with PRF(offset); closed segments altered and reopened with verifyCrc",
        text="Hundreds (quick) / thousands (thorough) of frozen directory images over all write phases incl. kill-and-restart chains and mid-removal images, classified by "
             "structural signature; instants are sampled, not exhaustive; required phases enforced by count. A third of the chains start just below a power of ten (segment names of different width); a reported range must not end before the newest data segment of the image. Hostile chains: writes refused through RLIMIT_FSIZE in the child (first chunk / mid-snapshot / last chunk / log segment, partial writes), Close at the last chunk; the child sweeps its own live cache after a refused log write and after restart + collector with a lagging reader (valid offsets readable, PRF bytes, never beyond Right(), stall by logical quiescence). Fourth image class: every subset of files a torn directory removal can leave (all subsets up to five files, directed and sampled ones beyond).",
        design="DESIGN.md §3 C08", note="a stopped process performs no syscalls, so the copy is an exact kill-point image of the page cache; fsync ordering of a power loss is not modelled"),
    "C20": dict(level="exploration", engine="fullsync+rdbx",
        technique="runtime oracle as C03 with a pre-populated target double under each key-exists policy; existing keys compared bit-for-bit before/after and against the request log",
        text="Prior contents (same/different type, with/without expiry, any subset of snapshot keys) x policies replace/ignore/error x RESTORE / native / chunked / "
             "bad-data-format fallback paths x workers 1/4. The policy value the replay is constructed with comes out of the tool's own configuration loader (key left out = default, documented spelling, upper case).",
        design="DESIGN.md §3 C20", note=TRUST + ""),
    "C06": dict(level="exploration", engine="fakeredis source role",
        technique="runtime monitor over the real RedisInput/cache/RedisOutput pipeline against a source double implementing Redis' PSYNC admission rule; target log (history-tagged ids), PSYNC request log and cache ranges checked after each reconnect",
        text="Enumerated product of source mutation (same id, failover with switch offset, new id, trimmed backlog) x stored resume position class x cache contents x disk/memory cache "
             "x restart/in-loop reconnect; states the tool cannot reach naturally are constructed and marked. Oracle: continuation exactly from the stored position on the current history, "
             "or a complete snapshot followed by the stream from its offset; offset convention and CONTINUE/FULLRESYNC answers checked. Faults: source cuts the replica connection inside the snapshot or the stream; target answers the bookkeeping writes of a reconnect with errors (reset after FULLRESYNC, run-id re-key) until a logical event; source refuses the first 1-3 PSYNCs of a reconnect with NOMASTERLINK/LOADING (every request, refused or granted, is held to the offset convention); 2-4 MiB snapshot from a busy source whose stream bytes follow the payload at once, with a byte-for-byte read-back of the cached log.",
        design="DESIGN.md §3 C06", note="internal/fakeredis role_source transcribes masterTryPartialResynchronization; " + TRUST),
    "C17": dict(level="fault_enumeration", engine="fakeredis+hooks",
        technique="crash sweep over every request prefix of each bookkeeping maintenance operation (real start-up bookkeeping and GC body through build-tag hooks); next start with the new configuration must find a position >= the one before, in the same DB",
        text="Checkpoint rename, re-key after failover (newOutput and SetRunId), bisync replay-mode switches (all six pairs, states produced by the real tool), stale-checkpoint GC at "
             "five clock positions; 1-8 non-empty DBs, map-order sampling by repetition; exhaustive per observed request sequence. In-process re-key (SetRunId) additionally with each single request answered by an error once, followed by the tool's own retry.; entries of other replication ids must survive every stop point; GC tick overlapping a re-key after a failover; stale copy under a rename destination name Thorough tier: lost-reply sweep of the bisync format switch (one request executed, its connection closed before the reply, second attempt, next start). Both tiers: the same sweep on a cluster of one primary, whose client survives a lost reply (every non-DEL write, first/last/sampled DELs of the start-up bookkeeping; position found by the second attempt >= position a start under the old format finds).",
        design="DESIGN.md §3 C17", note=TRUST + "; HGETALL order of the double is sorted (ids constrained so both orders agree)"),
    "C19": dict(level="exploration", engine="fakeredis cluster role",
        technique="runtime monitor: globally ordered per-node effect logs of a multi-node cluster double (routing by independent HASH_SLOT, MIGRATING/IMPORTING/ASK/MOVED/TRYAGAIN semantics) under scripted migration schedules; per-key segment oracle + resume-position clause",
        text="Real RedisOutput with a cluster client against 3-5 node doubles; schedules: none, MOVED between/mid batch, ASK windows with existing/missing keys, back-and-forth, node added; "
             "blocking/pipelined, transactional/non-transactional; slot-table refresh released between two Puts of one batch; two connection-fault schedules (reset mid-batch, connection lost before the first reply); writes with a legal null-bulk reply in every mode; schedule abandoned-node-worker (one node resets, another stalls until the restarted run has overtaken it). Two known findings (non-atomic node pipelines: the reported flavour, and the silent bounce inversion of the blocking non-transactional sender) are listed in known_findings.json. Order signatures carry the run outcome and, for acknowledged disorders, whether the sender's own batch retry repaired them (healed=in-run-retry). Schedule cross-node-command: a two-key DEL/UNLINK/MSET whose keys are owned by two nodes (what a standalone source can send), alone in the sender's queue for three ticker periods or travelling with its neighbours: reported, never acknowledged with a position behind it. Schedule moved-to-unreachable: a new master takes the victim slots and refuses connections from the tool; MOVED to it must end in a reported error, not in an acknowledged batch.",
        design="DESIGN.md §3 C19", note="the double enforces 'executed by the owner'; slots from internal/ref.HashSlot; " + TRUST),
    "C05": dict(level="exploration", engine="chanmodel",
        technique="runtime monitor at the Channel boundary of both cache backends against a byte-by-offset model (PRF bytes identify their origin); sequential generated op histories + concurrent writer/readers/collector/pollers under the race detector with interval-bound checks",
        text="Hundreds (quick) / thousands (thorough) of generated histories over snapshot writes, appends, rotation, size-triggered collection, reader open/read/close, writer replacement, "
             "run-id switch/delete, incomplete snapshots, verifyCrc group; rotation and collection must actually be observed. Race reports in the anchored files are violations. Structural invariant through a hook: at quiescent points of sequential histories with an active writer the data set holds at least as many reader registrations as there are live log readers. Directed survivor histories: readers open across a reconnect that keeps the data (same id / new id) must follow the new writer, end or fail - never wait for a stored byte whose file is not where they poll for it.",
        design="DESIGN.md §3 C05", note="workloads stay inside the call protocol RedisInput uses; liveness is judged by logical quiescence (ended reader / starved-by-collector) or by a differential second reader at the stalled offset; a stall without such evidence is inconclusive"),
    "C13": dict(level="exploration", engine="fakeredis propagation",
        technique="two site doubles that propagate what a master would (rewrites, no-op omission, MULTI/EXEC) closed into a loop through two real bisync RedisOutputs; origin-tagged client writes; echo / exactly-once / look-alike / ping-pong oracles decided at two-phase sentinels",
        text="Replay modes sync/pipeline/parallel, five filter classes incl. the documented prefix whitelist, snapshot and incremental phases, late reverse link, replication-lag windows producing shrunk mirrored transactions, Redis 7 SELECT-inside-MULTI propagation with clients in databases 0-3, link restarts (orderly / lost EXEC reply) through the real start-up path, reference filter projection with byte-identical delivery. Master heartbeat (PING) in every loop with idle heartbeat rounds in which no unit - empty or not - may be forwarded; twelve directed cases of a link's own unit arriving behind the deletion of its expired marker. Snapshot phase against a peer that already holds every second key (keyExists replace / ignore); directed probes: the marker of an effectless snapshot unit propagated alone (bare, or as a one-command transaction). Half of the snapshot hashes lie above the chunk threshold (lowered to 512 bytes through the hook) and are replayed in several units.",
        design="DESIGN.md §3 C13", note="internal/fakeredis role_propagate models a master's propagation (Redis 6.2/7.2 single-command transaction rule); both sites standalone; " + TRUST),
    "C14": dict(level="fault_enumeration", engine="bisweep",
        technique="request-prefix crash sweep + clean-stop schedule of bisync incremental replay (all three modes) with restart chains through the real start-up bookkeeping; oracles over unit table, frontier/latest/journal keys and StartPoint of successive starts; exhaustive RebuildBisyncFrontier subset check",
        text="Every request prefix incl. recovery/migration requests (grouped by state), 1-3 idle restarts + one with traffic, mode switches, cancellation at logical instants under load; "
             "standalone target for the prefix sweep; parallel mode on a 3-node cluster double (out-of-order acknowledgement across lanes incl. gap-closes-last orders + stop, failed unit + in-process restart), sync mode on the cluster with a same-instance second snapshot; one-request-fault sweeps (error reply / connection closed instead of a reply) over every request of a frontier flush and of start-up recovery; clause: every stored frontier (seq, offset) is the pair of one committed unit. Latest-record mtimes that do not grow with the offset (hosts with different clocks); restarts after a source fail-over ([NEW, OLD]) through the start-up re-key, all modes.",
        design="DESIGN.md §3 C14", note=TRUST),
    "C16": dict(level="exploration", engine="grpc+channels",
        technique="runtime monitor: real ReplicaLeader behind a real gRPC server (stream wrapped to cut after message k) and real ReplicaFollower over both cache backends; follower cache read back and compared with PRF(run id, offset) and with the leader",
        text="54 leader x follower state pairs x 4 backend combinations, live appends, cuts at every k of small transfers, leader restarts under another id, fresh-process reopen of disk followers. Source fail-over (+CONTINUE new id) before the first request / after the snapshot / while tailing, judged against the joined history; second phase with channel.verifyCrc and a leader log rotating under the follower's tail. Scenario cutcollect: the transfer is cut, the leader takes in more than its size limit while no follower is served (the follower's position is collected), then serves again and goes on sending.",
        design="DESIGN.md §3 C16", note="non-contiguity decided by API probes, never by a stall timer"),
    "C07": dict(level="fault_enumeration", engine="sweep",
        technique="runtime monitor over the ordered list of <runid>_offset writes observed at the target, idle-heavy feeding plans and restart sequences",
        text="Every value written to the resume-position field during base and resumed runs is checked against the generated stream's command-end "
             "offset table and for monotonicity across restarts; feeding plans idle before the first item longer than each ticker; a restart that "
             "finds no usable position although one was stored is a violation. Cluster class: three-node cluster double, non-transactional replay (blocking and pipelined), position writes that arrive 4-25 ms late on their connection, judged in the order the cluster executed them; one case in three is stopped in mid-traffic while a position write of the running replay is still on its way.",
        design="DESIGN.md §3 C07", note=TRUST),
    "C09": dict(level="fault_enumeration", engine="sweep",
        technique="runtime monitor: per-command target transaction ids vs source MULTI/EXEC groups, at every crash prefix and after restart",
        text="Transactional mode against a standalone double: all commands of a source group must share one target MULTI/EXEC that also carries a "
             "resume position covering the group's EXEC; no resume position may lie inside a source group; after crash+restart at every request "
             "prefix no group is partially or repeatedly executed.",
        design="DESIGN.md §3 C09", note=TRUST),
    "C10": dict(level="exploration", engine="ref",
        technique="differential runtime oracle: real RedisKeyFilter (configured as NewRedisOutput does) vs reference evaluator transcribed from the statement, all 16384 slots swept per range configuration",
        text="Millions of (configuration, command/key) evaluations incl. overlapping/nested/unsorted/duplicate ranges, binary prefixes and keys; "
             "plus an end-to-end layer (target log of SendAof under filter configurations).",
        design="DESIGN.md §3 C10", note="reference key-position table and filter evaluator in internal/ref are written from the Redis command reference / the statement"),
    "C11": dict(level="exploration", engine="ref",
        technique="differential runtime oracle vs bit-wise CRC16/HASH_SLOT reference; exhaustive small-alphabet enumeration + PRNG keys",
        text="redis.KeyToSlot, cluster.GetSlot, FilterSlot decisions and every bisync control-key builder for all 16384 slot tags are compared with "
             "an independent HASH_SLOT implementation validated against the spec's check values. The calling pattern of the checkpoint-key search: one buffer rewritten in place, candidates handed over as strings that alias it, sequentially and from eight goroutines. The slot-tag table's first use in the process comes from 16 goroutines at once.",
        design="DESIGN.md §3 C11", note="internal/ref.HashSlot is the specification (validated against published vectors)"),
    "C12": dict(level="exploration", engine="ref",
        technique="runtime oracle: decoder output and offsets vs generator's offset table under arbitrary buffering/fragmentation; encode/decode round trips",
        text="Generated multi-bulk streams (0-64 args, empty/binary/MiB args) decoded through bufio sizes 16B-1MiB over fragmenting readers; "
             "arguments byte-identical, cumulative offsets equal bytes consumed, WriteArgs/Encode round trips checked by an independent strict parser. Very wide commands (up to 2^20+4097 elements; 3 million in thorough).",
        design="DESIGN.md §3 C12", note="generator's own RESP writer is the reference"),
    "C15": dict(level="exploration", engine="leasestore+minilua+porcupine",
        technique="recorded call/return histories of Campaign/Renew/Resign/Leader checked with porcupine against a sequential lease model + belief-interval overlap monitor on a virtual clock",
        text="2-6 contenders with own connections against a lease-store double that executes the tool's Lua scripts (interpreter), virtual clock "
             "advanced only at quiescent points, reply loss and connection resets; porcupine linearizability per burst and whole-run invariants. Also: one request of a Resign delivered late across clock steps, concurrent calls of the same instance on a sibling shard over the shared lease client, calls with a deadline whose reply arrives after it. Clause (vi): the real election ticker of cmd/syncer.go (build-tag hook) with a scripted election - after a tick whose renewals/campaign failed no election call with a live context is made and the syncer's wait is closed with the failure; decided on the call log. A third of the histories use a cluster-type lease store (one pooled connection per command); half of their late-delivered Resign calls carry a 150 ms deadline - a call that gives up leaves its request on its way and the instance goes on calling.",
        design="DESIGN.md §3 C15", note="internal/leasestore + internal/minilua execute the scripts the tool sends; Redis expiry rule now > expireAt"),
    "C18": dict(level="exploration", engine="fakeredis cluster role",
        technique="runtime monitor over the cluster-wide request log of a 3-4 node cluster double driven by the real bisync RedisOutput (snapshot + stream, all replay modes); every MULTI block reconstructed per node/connection and judged by independent HASH_SLOT and key-position tables",
        text="Generated snapshots and streams with 23 brace shapes / 8 key classes; units: single-slot, GETKEYS-resolved, filter-reduced, filtered-out, cross-slot, undeterminable, behind a refusal; "
             "oracle: each block touches one slot at its owner (business + marker/latest/commit/index control keys), no redirect served, single-slot units commit exactly, refusable units end Send with an error and nothing of them or later units is sent. "
             "Refusal-report probes repeat the cheapest refusal many times (race between parser error and sender nil). One case in six runs against a cluster of a single primary that serves every slot; pairs of COMMAND GETKEYS-resolved units with the same name and argument count but different key positions.",
        design="DESIGN.md §3 C18", note="slots and key positions from internal/ref; the double enforces slot ownership; gates on logical events (EXEC applied), not timers; " + TRUST),
}

NA_REASON = "check not built yet (in progress)"

def main():
    checks = []
    for p in props:
        c = CHECKS.get(p["id"])
        if not c:
            continue
        checks.append({
            "property_id": p["id"],
            "quick_cmd": "./run.sh %s quick" % p["id"],
            "thorough_cmd": "./run.sh %s thorough" % p["id"],
            "evidence_file": "/verif/evidence/%s.json" % p["id"],
            "replay_cmd_template": "./run.sh %s replay {path}" % p["id"],
            "engine": c["engine"],
            "level_claimed": {"category": c["level"], "text": c["text"], "design_ref": c["design"]},
            "level_note": c["note"],
            "technique": c["technique"],
        })
    hooks_commits = subprocess.run(["git", "-C", "/repo", "log", "--format=%H %s"], capture_output=True, text=True).stdout.splitlines()
    hook_shas = [l.split()[0] for l in hooks_commits if "verif hook" in l]
    m = {
        "version": 1,
        "setup_cmd": "cd /verif && GOFLAGS=-mod=mod GOPROXY=off GOSUMDB=off GOTOOLCHAIN=local go build -tags verif ./internal/... && mkdir -p .bin .out evidence replay",
        "hooks": {
            "guard": "verif",
            "enable": "go build -tags verif (run.sh builds every check binary against /repo's working tree through the module replace directive in /verif/go.mod)",
            "baseline_off_cmd": "cd /repo && GOFLAGS=-mod=mod GOPROXY=off GOSUMDB=off go test -vet=off -count=1 -timeout 25m ./...",
            "source_commits": hook_shas,
            "add_only": True,
        },
        "engines": [
            {"name": "fakeredis", "path": "internal/fakeredis", "serves_properties": ["C01", "C02", "C03", "C04", "C06", "C07", "C09", "C13", "C14", "C17", "C18", "C19", "C20"], "kind_free_text": "RESP server double: data model, MULTI/EXEC, request/effect logs, crash-cut and fault injection"},
            {"name": "sweep", "path": "internal/sweep", "serves_properties": ["C02", "C07", "C09"], "kind_free_text": "request-prefix crash sweep of incremental replay with fresh-instance restarts"},
            {"name": "gen+drive", "path": "internal/gen, internal/drive", "serves_properties": ["C01", "C02", "C07", "C09"], "kind_free_text": "seeded stream generator with offset table and unique ids; feeder ChannelReader; reference projection"},
            {"name": "ref", "path": "internal/ref", "serves_properties": ["C10", "C11", "C12", "C18", "C19"], "kind_free_text": "independent HASH_SLOT/CRC16/CRC64, key-position table, filter evaluator"},
            {"name": "rdbx", "path": "internal/rdbx", "serves_properties": ["C03", "C04", "C20"], "kind_free_text": "independent RDB/DUMP encoder+decoder and dataset generator"},
            {"name": "leasestore+minilua", "path": "internal/leasestore, internal/minilua", "serves_properties": ["C15"], "kind_free_text": "lease store double with virtual clock executing the tool's Lua scripts"},
        ],
        "checks": checks,
        "notes": "runtime monitoring: the real code is driven against in-harness peers; see DESIGN.md. Genuine defects found are fixed by 'fix:' commits in /repo and listed in known_findings.json.",
        "not_applicable": [{"property_id": p["id"], "reason": NA_REASON} for p in props if p["id"] not in CHECKS],
    }
    json.dump(m, open(os.path.join(ROOT, "MANIFEST.json"), "w"), indent=1)
    print("checks:", [c["property_id"] for c in checks])

main()
