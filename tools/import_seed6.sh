#!/bin/bash
# tools/import_seed6.sh <nn>   imports /tmp/seedout6-c<nn>/{A,B} as seeded/C<nn>-{K,L} and removes the author's worktree
set -u
cd "$(dirname "$0")/.."
n="$1"
for p in A:K B:L; do s=${p%:*}; d=${p#*:}; mkdir -p seeded/C$n-$d; cp /tmp/seedout6-c$n/$s/* seeded/C$n-$d/ 2>/dev/null; done
git -C /repo worktree remove --force /tmp/seed6-c$n 2>/dev/null
ls seeded/C$n-K seeded/C$n-L
