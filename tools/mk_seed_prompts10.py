#!/usr/bin/env python3
# tools/mk_seed_prompts9.py <nn...>  writes /tmp/seedprompt10-c<nn>.md (the whole task of a tenth-round seed author:
# the property's text, the author's own worktree and output directory, the rules) from tools/seed_prompt_example.md
import json, re, sys
props = {json.loads(l)["id"]: json.loads(l) for l in open("/verif/properties.jsonl") if l.strip()}
tmpl = open("/verif/tools/seed_prompt_example.md").read()
head, rest = tmpl.split('{\n "id": "C05"', 1)
# the property JSON ends at the line '}' that precedes 'WHAT TO PRODUCE'
_, tail = rest.split("\n}\n\nWHAT TO PRODUCE", 1)
tail = "\n\nWHAT TO PRODUCE" + tail
angles_old_start = tail.index("Angles wanted in this round")
angles_old_end = tail.index("Read the code the property is about first")
ANGLES = """Angles wanted in this round (pick two DIFFERENT ones for your two changes; earlier rounds already used: plain
off-by-one edits, dropped flushes, wrong variable, error classification, integer width/sign, map-iteration order, short reads /
partial writes, channel backpressure, memoisation / buffer reuse / narrowed locks, defer and cleanup ordering, state not reset
between runs, configuration corners, retry and timeout logic, logging/diagnostics wrappers, bufio/context/sync/time misuse,
input hardening, state-machine flags, check-then-act splits, one-sided API contract changes - do not repeat those):
  1. CONCURRENCY REFACTOR: a goroutine, worker pool, channel or lock that is added, removed or replaced by another primitive
     (channel -> mutex+cond, per-item goroutine -> pool, unbuffered -> buffered) so that an ordering or hand-over guarantee the
     old shape gave implicitly is lost in one rare schedule;
  2. COALESCING / 'SKIP REDUNDANT WORK': merging adjacent items, de-duplicating, eliding a step that 'cannot matter'
     (a second SELECT, a repeated write of the same value, an empty batch, a no-op flush) which is right except at one boundary
     (first / last item, an item directly behind a barrier, an empty or single-element group, equal neighbours);
  3. RESOURCE LIFETIME AND REUSE: sync.Pool / object or connection pooling, a slice or map retained across calls, a reader or
     file handle reused for a second purpose, append() onto a shared backing array, returning internal storage to the caller;
  4. FORMAT / VERSION / COMMAND-VARIANT SUPPORT: support for a newer (or older) server version, encoding, command spelling or
     option that mishandles a neighbouring variant, or a compatibility shim for one variant that alters another;
  5. PARTIAL PROGRESS ON AN ERROR PATH: after a partial failure the code resumes, reports or cleans up from a slightly wrong
     place (one item early/late, state half updated, the wrong one of two counters advanced);
  6. BOUNDARY VALUES IN COMPARISONS AND ARITHMETIC: ties, zero vs negative sentinels, nil vs empty, wrap-around, equal
     timestamps / offsets / sizes, exact-multiple sizes, the largest or smallest legal value.
"""
tail = tail[:angles_old_start] + ANGLES + tail[angles_old_end:]
for nn in sys.argv[1:]:
    pid = "C" + nn
    body = head + json.dumps(props[pid], indent=1, ensure_ascii=False) + tail
    body = body.replace("/tmp/seed8-c05", "/tmp/seed10-c" + nn).replace("/tmp/seedout8-c05", "/tmp/seedout10-c" + nn)
    body += ("\nNOTE: the package pkg/io/pipe uses the fixed file /tmp/pipe.test; if ONLY that package fails while other people's"
             " suites run at the same time, re-run `go test -vet=off -count=1 ./pkg/io/pipe/` alone a few times before concluding anything.\n")
    open("/tmp/seedprompt10-c%s.md" % nn, "w").write(body)
    print("/tmp/seedprompt10-c%s.md" % nn, len(body))
