#!/bin/bash
# tools/import_seed5.sh <nn>   imports /tmp/seedout5-c<nn>/{A,B} as seeded/C<nn>-{I,J} and removes the author's worktree
set -u
cd "$(dirname "$0")/.."
n="$1"
for p in A:I B:J; do s=${p%:*}; d=${p#*:}; mkdir -p seeded/C$n-$d; cp /tmp/seedout5-c$n/$s/* seeded/C$n-$d/ 2>/dev/null; done
git -C /repo worktree remove --force /tmp/seed5-c$n 2>/dev/null
ls seeded/C$n-I seeded/C$n-J
