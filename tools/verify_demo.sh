#!/bin/bash
# tools/verify_demo.sh <seeded-dir> <demo file[,file...]> <package dir> <test regex>
# runs the demonstration without and with the change in a scratch worktree of /repo HEAD
set -u
cd "$(dirname "$0")/.."
D="$1"; F="$2"; P="$3"; R="$4"
export GOFLAGS=-mod=mod GOPROXY=off GOSUMDB=off GOTOOLCHAIN=local
WT=/tmp/demo-$(basename "$D")
git -C /repo worktree remove --force "$WT" >/dev/null 2>&1
git -C /repo worktree add -f --detach "$WT" HEAD >/dev/null 2>&1
i=0; for f in $(echo "$F" | tr "," " "); do cp "$D/$f" "$WT/$P/zz_seed_demo${i}_test.go"; i=$((i+1)); done
( cd "$WT" && go test -vet=off -count=1 -run "$R" "./$P/" >/tmp/demo-without-$(basename $D).log 2>&1 ); a=$?
git -C "$WT" apply "$PWD/$D/patch.diff"
( cd "$WT" && go test -vet=off -count=1 -run "$R" "./$P/" >/tmp/demo-with-$(basename $D).log 2>&1 ); b=$?
echo "$(basename $D): without change rc=$a ($(tail -1 /tmp/demo-without-$(basename $D).log | cut -c1-60)) ; with change rc=$b ($(grep -m1 -- '--- FAIL' /tmp/demo-with-$(basename $D).log | cut -c1-80))"
git -C /repo worktree remove --force "$WT"
