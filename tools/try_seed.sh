#!/bin/bash
# tools/try_seed.sh <seeded-dir> <check ids...>   e.g. tools/try_seed.sh seeded/C02-A C02 C07 C09
# Applies seeded/<id>/patch.diff to a scratch worktree of /repo's HEAD, confirms that the project
# still builds and its test suite passes, then runs the given checks (quick tier) against it.
set -u
cd "$(dirname "$0")/.."
D="$1"; shift
export GOFLAGS=-mod=mod GOPROXY=off GOSUMDB=off GOTOOLCHAIN=local
WT=/tmp/try-$(basename "$D")
git -C /repo worktree remove --force "$WT" >/dev/null 2>&1
git -C /repo worktree add -f --detach "$WT" HEAD >/dev/null 2>&1 || { echo "worktree failed"; exit 2; }
if ! git -C "$WT" apply "$PWD/$D/patch.diff"; then echo "PATCH DOES NOT APPLY"; git -C /repo worktree remove --force "$WT"; exit 2; fi
if [ -n "${SKIP_SUITE:-}" ]; then ( cd "$WT" && go build ./... ) > /tmp/try-suite-$(basename "$D").log 2>&1; else
( cd "$WT" && go build ./... && go test -vet=off -count=1 ./... 2>&1 | grep -v "^ok\|no test files" ) > /tmp/try-suite-$(basename "$D").log 2>&1; fi
if [ -s /tmp/try-suite-$(basename "$D").log ]; then echo "SUITE NOT GREEN:"; head -20 /tmp/try-suite-$(basename "$D").log; else echo "suite green with the change"; fi
for c in "$@"; do
  echo "--- $c"
  VERIF_REPO="$WT" ./run.sh "$c" quick 2>&1 | grep -a "signature\|SUMMARY\|INCONCLUSIVE\|KNOWN" | sed 's/^ *//' | cut -c1-200 | sort | uniq -c | sort -rn | head -60
done
git -C /repo worktree remove --force "$WT"
tag=$(echo "$WT" | md5sum | cut -c1-8); rm -rf .out/alt-$tag .bin/*-alt-$tag* ; rm -f /tmp/try-suite-$(basename "$D").log
