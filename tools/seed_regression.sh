#!/bin/bash
# tools/seed_regression.sh [parallel]  — re-runs every seeded change against the checks its meta.json
# names in caught_by (quick tier, scratch worktree of /repo HEAD, repo suite skipped: it was run when
# the change was accepted) and writes seeded/REGRESSION.txt: one line per (seed, check); race-signatures = race reports in the property's anchored files (violations too).
cd "$(dirname "$0")/.."
P=${1:-3}
python3 - <<'PY' > /tmp/seedreg.list
import json,glob,os
for f in sorted(glob.glob('seeded/*/meta.json')):
    m=json.load(open(f)); d=os.path.dirname(f)
    cs=[c for c in m.get('caught_by',{})]
    if cs: print(d, " ".join(cs))
PY
one() {
  d=$1; shift
  out=$(SKIP_SUITE=1 tools/try_seed.sh $d "$@" 2>&1)
  cur=""; races=0
  echo "$out" | while IFS= read -r l; do
    case "$l" in
      "--- "*) cur=${l#--- }; races=0;;
      *"signature: race|"*) races=$((races+1));;
      *SUMMARY*) v=$(echo "$l" | sed -n 's/.*violations=\([0-9]*\).*/\1/p'); echo "$(basename $d) $cur violations=$v race-signatures=$races";;
      *"PATCH DOES NOT APPLY"*) echo "$(basename $d) PATCH-DOES-NOT-APPLY";;
    esac
  done
}
export -f one
cat /tmp/seedreg.list | xargs -P $P -L 1 bash -c 'one "$@"' _ | sort > seeded/REGRESSION.txt
echo "caught: $(grep -c -v 'violations=0 race-signatures=0' seeded/REGRESSION.txt)  silent: $(grep -c 'violations=0 race-signatures=0' seeded/REGRESSION.txt)"
