#!/bin/bash
# tools/import_seed10.sh <nn>   imports /tmp/seedout10-c<nn>/{A,B} as seeded/C<nn>-{S,T}, removes the author's worktree,
# and re-runs each demonstration (demo.json: package_dir, run_regex) without and with the change in a scratch worktree
set -u
cd "$(dirname "$0")/.."
n="$1"
for p in A:S B:T; do s=${p%:*}; d=${p#*:}
  [ -f /tmp/seedout10-c$n/$s/patch.diff ] || { echo "C$n-$d: no patch delivered"; continue; }
  mkdir -p seeded/C$n-$d; cp /tmp/seedout10-c$n/$s/* seeded/C$n-$d/ 2>/dev/null
done
git -C /repo worktree remove --force /tmp/seed10-c$n 2>/dev/null
for d in S T; do
  D=seeded/C$n-$d; [ -f $D/demo.json ] || continue
  P=$(python3 -c "import json;print(json.load(open('$D/demo.json'))['package_dir'].strip('./'))")
  R=$(python3 -c "import json;print(json.load(open('$D/demo.json'))['run_regex'])")
  tools/verify_demo.sh $D demo_test.go "$P" "$R"
done
