#!/usr/bin/env python3
"""usage: add_fixed.py <property[,property...]> <substring of the fix commit subject> <what failed + signatures>"""
import json, subprocess, sys
props, sub, what = sys.argv[1].split(","), sys.argv[2], sys.argv[3]
log = subprocess.run(["git", "-C", "/repo", "log", "--format=%h %s"], capture_output=True, text=True).stdout.splitlines()
sha = [l.split()[0] for l in log if sub in l]
assert len(sha) == 1, (sub, sha)
p = "/verif/known_findings.json"
kf = json.load(open(p))
for pr in props:
    kf["fixed"] = [f for f in kf["fixed"] if not (f["property"] == pr and f["commit"] == sha[0])]
    kf["fixed"].append({"property": pr, "commit": sha[0], "what": what, "line": "fixed: property=%s %s %s" % (pr, sha[0], what)})
json.dump(kf, open(p, "w"), indent=1)
print("ok", props, sha[0])
