#!/bin/bash
# tools/import_seed4.sh <nn>   imports /tmp/seedout4-c<nn>/{A,B} as seeded/C<nn>-{G,H} and removes the author's worktree
set -u
cd "$(dirname "$0")/.."
n="$1"
for p in A:G B:H; do s=${p%:*}; d=${p#*:}; mkdir -p seeded/C$n-$d; cp /tmp/seedout4-c$n/$s/* seeded/C$n-$d/ 2>/dev/null; done
git -C /repo worktree remove --force /tmp/seed4-c$n 2>/dev/null
ls seeded/C$n-G seeded/C$n-H
