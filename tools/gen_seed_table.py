#!/usr/bin/env python3
"""Rewrites DESIGN.md §9 (seeded changes and which checks catch them) from seeded/*/meta.json."""
import json, glob, os, re
ROOT = os.path.dirname(os.path.dirname(os.path.abspath(__file__)))
rows = []
for f in sorted(glob.glob(os.path.join(ROOT, "seeded", "*", "meta.json"))):
    m = json.load(open(f)); sid = os.path.basename(os.path.dirname(f))
    caught = "; ".join("**%s** `%s`" % (c, "`, `".join(s)) for c, s in m.get("caught_by", {}).items()) or "—"
    missed = ", ".join(m.get("missed_by", [])) or "—"
    rows.append("| %s | %s | %s | %s | %s |" % (sid, m["property"], m["summary"].replace("|", "\\|"), caught.replace("|", "\\|"), missed))
sec = """## 9. Seeded changes: which checks catch which

Each change below was written by a *fresh sub-agent that saw only the property text and a scratch
worktree of the repository* (nothing from /verif), compiles, keeps the repository's test suite green
and comes with a demonstration that fails with the change and passes without it (all re-verified
by `tools/verify_demo.sh` / `tools/try_seed.sh`; files under `/verif/seeded/<id>/`).  "caught by"
lists the checks whose quick tier printed a VIOLATION on the changed tree and the signatures that
fired; "not caught by" lists other checks that were run on it and stayed silent (they target other
properties).  Where a check missed a change at first, what was strengthened is noted in the entry.

| seeded change | property | what it does | caught by (signatures) | also run, silent |
|---|---|---|---|---|
""" + "\n".join(rows) + "\n"
p = os.path.join(ROOT, "DESIGN.md")
s = open(p).read()
if "## 9. Seeded changes" in s:
    s = s[:s.index("## 9. Seeded changes")].rstrip("\n") + "\n\n" + sec
else:
    s = s.rstrip("\n") + "\n\n---------------------------------------------------------------------------------------------\n\n" + sec
open(p, "w").write(s)
print(len(rows), "rows")
