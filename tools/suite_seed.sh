#!/bin/bash
# tools/suite_seed.sh <seeded-dir>   confirms that the repository builds and its unedited test suite is green with the
# seeded change applied (scratch worktree of /repo HEAD).  pkg/io/pipe uses the fixed file /tmp/pipe.test and fails when
# two suites run at the same time: that package alone is re-run (up to 6 times) when it is the only failure.
set -u
cd "$(dirname "$0")/.."
D="$1"
export GOFLAGS=-mod=mod GOPROXY=off GOSUMDB=off GOTOOLCHAIN=local
WT=/tmp/suite-$(basename "$D")
git -C /repo worktree remove --force "$WT" >/dev/null 2>&1
git -C /repo worktree add -f --detach "$WT" HEAD >/dev/null 2>&1 || { echo "$(basename $D): worktree failed"; exit 2; }
git -C "$WT" apply "$PWD/$D/patch.diff" || { echo "$(basename $D): PATCH DOES NOT APPLY"; git -C /repo worktree remove --force "$WT"; exit 2; }
out=$(cd "$WT" && go build ./... 2>&1 && go test -vet=off -count=1 ./... 2>&1 | grep -E "^(FAIL|---)" )
bad=$(echo "$out" | grep "^FAIL" | grep -v "pkg/io/pipe" | grep -v "^FAIL$")
res="green"
if [ -n "$bad" ]; then res="NOT GREEN: $(echo $bad | cut -c1-200)"
elif echo "$out" | grep -q "pkg/io/pipe"; then
  res="NOT GREEN: pkg/io/pipe"
  for i in 1 2 3 4 5 6; do
    if (cd "$WT" && go test -vet=off -count=1 ./pkg/io/pipe/ >/dev/null 2>&1); then res="green (pkg/io/pipe re-run alone: shared /tmp/pipe.test)"; break; fi
    sleep $((RANDOM % 7 + 2))
  done
fi
echo "$(basename $D): suite $res"
git -C /repo worktree remove --force "$WT"
