#!/bin/bash
# tools/import_seed3.sh <nn>   imports /tmp/seedout3-c<nn>/{A,B} as seeded/C<nn>-{E,F} and removes the author's worktree
set -u
cd "$(dirname "$0")/.."
n="$1"
for p in A:E B:F; do s=${p%:*}; d=${p#*:}; mkdir -p seeded/C$n-$d; cp /tmp/seedout3-c$n/$s/* seeded/C$n-$d/ 2>/dev/null; done
git -C /repo worktree remove --force /tmp/seed3-c$n 2>/dev/null
ls seeded/C$n-E seeded/C$n-F
