#!/bin/bash
# tools/import_seed2.sh <nn>   imports /tmp/seedout2-c<nn>/{A,B} as seeded/C<nn>-{C,D} and removes the author's worktree
set -u
cd "$(dirname "$0")/.."
n="$1"
for p in A:C B:D; do s=${p%:*}; d=${p#*:}; mkdir -p seeded/C$n-$d; cp /tmp/seedout2-c$n/$s/* seeded/C$n-$d/; done
git -C /repo worktree remove --force /tmp/seed2-c$n 2>/dev/null
ls seeded/C$n-C seeded/C$n-D
